"""Analytic mode: values that are sympy expressions (complex allowed).

A `SpVal` behaves like a Python number for the interpreter (every arithmetic dunder returns a `SpVal`), so the real
function bodies are executed over the field of symbolic expressions: the result of running, say,
`levy_exponent(x)` with `x = SpVal(Symbol('x', real=True))` is the closed form the code computes, as a sympy expression
with the imaginary unit, which the analytic back end (differentiation, integration, limits: trusted, A4) then compares
with the specification.

Branching: a comparison yields an `SpBool`.  Its truth value is (1) whatever sympy decides from the symbols' assumptions,
else (2) the decision of the oracle installed by the contract (`ctx.PATH.ghost['sp_decide']`), which must validate
every decision it makes for the whole regime (see contracts/c10.py: numeric sample + z3 proof that the regime implies the
decision); with no oracle the path is `Unsupported` (undecided, never a silent guess).
"""
from __future__ import annotations

import math
import numbers

import numpy as np
import sympy as sp

from . import ctx
from .sym import Sym, Unsupported


def to_sp(v):
    if isinstance(v, SpVal):
        return v.e
    if isinstance(v, SpBool):
        return v.rel
    if isinstance(v, bool):
        return sp.Integer(int(v))
    if isinstance(v, (int, np.integer)):
        return sp.Integer(int(v))
    if isinstance(v, (float, np.floating)):
        if math.isinf(v):
            return sp.oo if v > 0 else -sp.oo
        if math.isnan(v):
            return sp.nan
        return sp.nsimplify(float(v), rational=True)
    if isinstance(v, (complex, np.complexfloating)):
        return to_sp(float(v.real)) + sp.I * to_sp(float(v.imag))
    if isinstance(v, Sym):
        from .tosympy import to_sympy
        syms = ctx.PATH.ghost.setdefault("_sp_symbols", {}) if ctx.PATH is not None else {}
        return to_sympy(v, syms)
    if isinstance(v, sp.Basic):
        return v
    raise Unsupported(f"analytic mode: cannot convert {type(v).__name__} to a symbolic expression")


def _wrap(e):
    return SpVal(e)


def _bin(o, fn):
    """binary operator against a scalar or (elementwise) a numpy array"""
    if isinstance(o, np.ndarray):
        out = np.empty(o.shape, dtype=object)
        out.reshape(-1)[:] = [SpVal(fn(x)) for x in o.flat]
        return out
    return SpVal(fn(o))


class SpVal:
    __slots__ = ("e",)
    __array_priority__ = 1000

    def __init__(self, e):
        self.e = sp.sympify(e)

    def __repr__(self):
        return f"SpVal({self.e})"

    # arithmetic
    def __add__(self, o): return _bin(o, lambda x: self.e + to_sp(x))
    def __radd__(self, o): return _bin(o, lambda x: to_sp(x) + self.e)
    def __sub__(self, o): return _bin(o, lambda x: self.e - to_sp(x))
    def __rsub__(self, o): return _bin(o, lambda x: to_sp(x) - self.e)
    def __mul__(self, o): return _bin(o, lambda x: self.e * to_sp(x))
    def __rmul__(self, o): return _bin(o, lambda x: to_sp(x) * self.e)
    def __truediv__(self, o): return _bin(o, lambda x: self.e / to_sp(x))
    def __rtruediv__(self, o): return _bin(o, lambda x: to_sp(x) / self.e)
    def __pow__(self, o): return _bin(o, lambda x: sp.Pow(self.e, to_sp(x)))
    def __rpow__(self, o): return _bin(o, lambda x: sp.Pow(to_sp(x), self.e))
    def __neg__(self): return _wrap(-self.e)
    def __pos__(self): return self
    def __abs__(self): return _wrap(sp.Abs(self.e))

    # numpy object-dtype ufunc protocol (np.exp(obj) calls obj.exp())
    def exp(self): return _wrap(sp.exp(self.e))
    def log(self): return _wrap(sp.log(self.e))
    def sqrt(self): return _wrap(sp.sqrt(self.e))
    def sin(self): return _wrap(sp.sin(self.e))
    def cos(self): return _wrap(sp.cos(self.e))
    def conjugate(self): return _wrap(sp.conjugate(self.e))
    conj = conjugate

    @property
    def real(self): return _wrap(real_part(self.e))

    @property
    def imag(self): return _wrap(imag_part(self.e))

    # comparisons
    def _cmp(self, o, rel): return SpBool(rel(self.e, to_sp(o)))
    def __lt__(self, o): return self._cmp(o, sp.Lt)
    def __le__(self, o): return self._cmp(o, sp.Le)
    def __gt__(self, o): return self._cmp(o, sp.Gt)
    def __ge__(self, o): return self._cmp(o, sp.Ge)
    def __eq__(self, o):
        try:
            return self._cmp(o, sp.Eq)
        except Unsupported:
            return False
    def __ne__(self, o):
        try:
            return self._cmp(o, sp.Ne)
        except Unsupported:
            return True
    __hash__ = None

    def __bool__(self):
        return bool(SpBool(sp.Ne(self.e, 0)))

    def __float__(self):
        if self.e.is_number and self.e.is_real:
            return float(self.e)
        raise TypeError("symbolic value has no float value")

    def __complex__(self):
        if self.e.is_number:
            return complex(self.e)
        raise TypeError("symbolic value has no complex value")


def manifestly_real(f):
    """syntactic sufficient condition for a real value (real symbols, real-preserving operations)"""
    if f.is_Symbol:
        return bool(f.is_real)
    if f.is_Number:
        return bool(f.is_real)
    if f.is_real:
        return True
    if f.is_Add or f.is_Mul:
        return all(manifestly_real(a) for a in f.args)
    if f.is_Pow:
        b, e = f.args
        return (manifestly_real(b) and e.is_Integer) or (bool(b.is_positive) and manifestly_real(e))
    if isinstance(f, (sp.exp, sp.gamma, sp.cos, sp.sin, sp.erf, sp.erfc)):
        return all(manifestly_real(a) for a in f.args)
    if isinstance(f, sp.log):
        return bool(f.args[0].is_positive)
    if isinstance(f, (sp.Abs, sp.re, sp.im)):
        return True
    return False


def real_part(e):
    r = sp.re(e)
    return r.replace(lambda t: isinstance(t, sp.re) and manifestly_real(t.args[0]), lambda t: t.args[0]) \
            .replace(lambda t: isinstance(t, sp.im) and manifestly_real(t.args[0]), lambda t: sp.Integer(0))


def imag_part(e):
    r = sp.im(e)
    return r.replace(lambda t: isinstance(t, sp.im) and manifestly_real(t.args[0]), lambda t: sp.Integer(0)) \
            .replace(lambda t: isinstance(t, sp.re) and manifestly_real(t.args[0]), lambda t: t.args[0])


numbers.Number.register(SpVal)


class SpBool:
    __slots__ = ("rel",)

    def __init__(self, rel):
        self.rel = rel

    def __repr__(self):
        return f"SpBool({self.rel})"

    def __bool__(self):
        r = self.rel
        if r is sp.true or r is True:
            return True
        if r is sp.false or r is False:
            return False
        try:
            s = sp.simplify(r)
        except Exception:
            s = r
        if s is sp.true:
            return True
        if s is sp.false:
            return False
        dec = ctx.PATH.ghost.get("sp_decide") if ctx.PATH is not None else None
        if dec is None:
            raise Unsupported(f"analytic mode: cannot decide {r}")
        return bool(dec(r))

    def __and__(self, o): return SpBool(sp.And(self.rel, to_sp(o)))
    def __or__(self, o): return SpBool(sp.Or(self.rel, to_sp(o)))
    def __invert__(self): return SpBool(sp.Not(self.rel))


def contains_spval(x, depth=0):
    if isinstance(x, (SpVal, SpBool)):
        return True
    if depth > 3:
        return False
    if isinstance(x, (list, tuple)):
        return any(contains_spval(v, depth + 1) for v in x)
    if isinstance(x, dict):
        return any(contains_spval(v, depth + 1) for v in x.values())
    if isinstance(x, np.ndarray) and x.dtype == object:
        return any(contains_spval(v, depth + 1) for v in x.flat)
    return False


def _elementwise(fn):
    def g(x, *rest):
        if isinstance(x, np.ndarray):
            out = np.empty(x.shape, dtype=object)
            out.reshape(-1)[:] = [g(v, *rest) for v in x.flat]
            return out
        return _wrap(fn(to_sp(x), *[to_sp(r) for r in rest]))
    return g


def _power(a, b):
    if isinstance(a, np.ndarray) or isinstance(b, np.ndarray):
        A, B = np.broadcast_arrays(np.asarray(a, dtype=object), np.asarray(b, dtype=object))
        out = np.empty(A.shape, dtype=object)
        out.reshape(-1)[:] = [_power(x, y) for x, y in zip(A.flat, B.flat)]
        return out
    return _wrap(sp.Pow(to_sp(a), to_sp(b)))


def _sign(x):
    if isinstance(x, np.ndarray):
        out = np.empty(x.shape, dtype=object)
        out.reshape(-1)[:] = [_sign(v) for v in x.flat]
        return out
    if not isinstance(x, SpVal):
        return np.sign(x)
    if bool(x > 0):
        return 1.0
    if bool(x < 0):
        return -1.0
    return 0.0


def sp_table():
    import scipy.special as ss
    t = {np.exp: _elementwise(sp.exp), np.log: _elementwise(sp.log), np.sqrt: _elementwise(sp.sqrt), np.abs: _elementwise(sp.Abs),
         np.absolute: _elementwise(sp.Abs), np.cos: _elementwise(sp.cos), np.sin: _elementwise(sp.sin), np.real: _elementwise(sp.re),
         np.imag: _elementwise(sp.im), np.conj: _elementwise(sp.conjugate), np.conjugate: _elementwise(sp.conjugate),
         np.power: _power, np.sign: _sign, np.log1p: _elementwise(lambda v: sp.log(1 + v)), np.expm1: _elementwise(lambda v: sp.exp(v) - 1),
         math.exp: _elementwise(sp.exp), math.log: _elementwise(sp.log), math.sqrt: _elementwise(sp.sqrt), math.gamma: _elementwise(sp.gamma),
         ss.gamma: _elementwise(sp.gamma), ss.exp1: _elementwise(lambda v: sp.expint(1, v)), ss.expi: _elementwise(sp.Ei),
         ss.gammaincc: _elementwise(lambda a, x: sp.uppergamma(a, x) / sp.gamma(a)), ss.gammainc: _elementwise(lambda a, x: sp.lowergamma(a, x) / sp.gamma(a)),
         ss.erf: _elementwise(sp.erf), ss.erfc: _elementwise(sp.erfc), abs: _elementwise(sp.Abs)}
    return {id(k): v for k, v in t.items()}


_TABLE = None


def sp_native(f, args, kwargs):
    """library call with analytic-mode arguments -> SpVal result, or NotImplemented when the function has no analytic meaning here"""
    global _TABLE
    if _TABLE is None:
        _TABLE = sp_table()
    g = _TABLE.get(id(f))
    if g is not None and not kwargs:
        return g(*args)
    try:
        import scipy.stats as st
        if getattr(f, "__self__", None) is st.norm and not kwargs and len(args) == 1:
            if f.__name__ == "cdf":
                return _elementwise(lambda v: (1 + sp.erf(v / sp.sqrt(2))) / 2)(args[0])
            if f.__name__ == "pdf":
                return _elementwise(lambda v: sp.exp(-v ** 2 / 2) / sp.sqrt(2 * sp.pi))(args[0])
    except ImportError:
        pass
    return NotImplemented


def sp_binop(op, a, b):
    """interpreter binary operator with at least one analytic operand (the other: number, complex, z3-backed Sym such as pi)"""
    import ast
    x, y = to_sp(a), to_sp(b)
    if op is ast.Add:
        return SpVal(x + y)
    if op is ast.Sub:
        return SpVal(x - y)
    if op is ast.Mult:
        return SpVal(x * y)
    if op is ast.Div:
        return SpVal(x / y)
    if op is ast.Pow:
        return SpVal(sp.Pow(x, y))
    raise Unsupported(f"analytic mode: operator {op.__name__}")
