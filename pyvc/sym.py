"""Symbolic values for pyvc.

A `Sym` wraps a z3 term of sort Int ('i'), Real ('r') or Bool ('b') and overloads
the Python operators with *Python* semantics (floor division, sign of modulo,
true division, int/float promotion).  Concrete Python numbers stay concrete;
`float('inf')` is a concrete extended real.  Whenever Python would need a concrete
truth value (`if`, `and`, `while`, `bool()`, or native library code comparing
elements) `Sym.__bool__` asks the current path (`ctx.PATH`) for a decision, which
forks the symbolic execution (see path.py).

Assumption A1 (DESIGN §2.9): Python/numpy floats are mathematical reals.
"""
from __future__ import annotations

import math
from fractions import Fraction

import z3

from . import ctx

INF = float("inf")


class Unsupported(Exception):
    """Construct outside the supported subset -> the obligation is undecided."""


class PyRaise(Exception):
    """A Python exception raised by the code under verification (symbolically)."""

    def __init__(self, exc_type: str, msg: str = "", value=None):
        super().__init__(f"{exc_type}: {msg}")
        self.exc_type = exc_type
        self.msg = msg
        self.value = value


def is_sym(x):
    return isinstance(x, Sym)


def is_num(x):
    return isinstance(x, (int, float, Fraction, bool)) and not isinstance(x, Sym)


def _is_inf(x):
    return isinstance(x, float) and math.isinf(x)


def _is_nan(x):
    return isinstance(x, float) and math.isnan(x)


def real_const(x):
    """z3 real numeral for a concrete Python number (floats via their shortest repr)."""
    if isinstance(x, bool):
        return z3.RealVal(int(x))
    if isinstance(x, int):
        return z3.RealVal(x)
    if isinstance(x, Fraction):
        return z3.RealVal(str(x.numerator)) / z3.RealVal(str(x.denominator)) if x.denominator != 1 else z3.RealVal(str(x.numerator))
    if isinstance(x, float):
        if math.isinf(x) or math.isnan(x):
            raise Unsupported("infinite/nan constant inside a finite term")
        f = Fraction(repr(float(x)))        # float(): numpy.float64 prints as np.float64(..)
        if f.denominator == 1:
            return z3.RealVal(str(f.numerator))
        return z3.Q(f.numerator, f.denominator)
    import numpy as np
    if isinstance(x, np.floating):
        return real_const(float(x))
    if isinstance(x, np.integer):
        return real_const(int(x))
    raise Unsupported(f"real_const({type(x).__name__})")


def lift(x):
    """Python number or Sym -> Sym."""
    if isinstance(x, Sym):
        return x
    if isinstance(x, bool):
        return Sym(z3.BoolVal(x), "b")
    if isinstance(x, int):
        return Sym(z3.IntVal(x), "i")
    if isinstance(x, (float, Fraction)):
        return Sym(real_const(x), "r")
    import numpy as np
    if isinstance(x, np.bool_):
        return lift(bool(x))
    if isinstance(x, np.integer):
        return lift(int(x))
    if isinstance(x, np.floating):
        return lift(float(x))
    raise Unsupported(f"cannot lift {type(x).__name__} to a symbolic scalar")


def as_int_term(s: "Sym"):
    if s.k == "i":
        return s.t
    if s.k == "b":
        return z3.If(s.t, z3.IntVal(1), z3.IntVal(0))
    raise Unsupported("real used where an integer term is needed")


def as_real_term(s: "Sym"):
    if s.k == "r":
        return s.t
    if s.k == "i":
        return z3.ToReal(s.t)
    return z3.If(s.t, z3.RealVal(1), z3.RealVal(0))


def as_bool_term(s):
    if isinstance(s, bool):
        return z3.BoolVal(s)
    if not isinstance(s, Sym):
        import numpy as np
        if isinstance(s, np.bool_):
            return z3.BoolVal(bool(s))
        if is_num(s):
            return z3.BoolVal(bool(s))
        raise Unsupported(f"truth value of {type(s).__name__}")
    if s.k == "b":
        return s.t
    if s.k == "i":
        return s.t != 0
    return s.t != 0


def _num_pair(a: "Sym", b: "Sym"):
    """Common numeric sort for two Syms."""
    if a.k == "r" or b.k == "r":
        return as_real_term(a), as_real_term(b), "r"
    return as_int_term(a), as_int_term(b), "i"


def _ext_cmp(a, b, op):
    """Comparison when one side is a concrete +-inf and the other a finite Sym."""
    av = a if not isinstance(a, Sym) else 0.0
    bv = b if not isinstance(b, Sym) else 0.0
    return {"<": av < bv, "<=": av <= bv, ">": av > bv, ">=": av >= bv, "==": False, "!=": True}[op]


class Sym:
    __slots__ = ("t", "k", "meta")
    __array_priority__ = 1000  # numpy defers to our reflected operators

    def __init__(self, t, k, meta=None):
        self.t = t
        self.k = k
        self.meta = meta

    # ---- representation
    def __repr__(self):
        return f"Sym<{self.k}:{self.t}>"

    def __hash__(self):
        return hash((self.t.hash(), self.k))

    # ---- truthiness: forks the path
    def __bool__(self):
        if ctx.PATH is None:
            raise Unsupported("truth value of a symbolic term outside a path")
        return ctx.PATH.decide(as_bool_term(self))

    def __index__(self):
        v = concrete_value(self)
        if isinstance(v, int):
            return v
        raise Unsupported("symbolic value used as a native index")

    def __float__(self):
        v = concrete_value(self)
        if v is not None:
            return float(v)
        raise Unsupported("symbolic value converted to a native float")

    def __int__(self):
        v = concrete_value(self)
        if v is not None:
            return int(v)
        raise Unsupported("symbolic value converted to a native int")

    # ---- arithmetic
    def __add__(self, o):
        return add(self, o)

    def __radd__(self, o):
        return add(o, self)

    def __sub__(self, o):
        return sub(self, o)

    def __rsub__(self, o):
        return sub(o, self)

    def __mul__(self, o):
        return mul(self, o)

    def __rmul__(self, o):
        return mul(o, self)

    def __truediv__(self, o):
        return truediv(self, o)

    def __rtruediv__(self, o):
        return truediv(o, self)

    def __floordiv__(self, o):
        return floordiv(self, o)

    def __rfloordiv__(self, o):
        return floordiv(o, self)

    def __mod__(self, o):
        return mod(self, o)

    def __rmod__(self, o):
        return mod(o, self)

    def __divmod__(self, o):
        return floordiv(self, o), mod(self, o)

    def __rdivmod__(self, o):
        return floordiv(o, self), mod(o, self)

    def __pow__(self, o):
        return power(self, o)

    def __rpow__(self, o):
        return power(o, self)

    def __neg__(self):
        if self.k == "b":
            return Sym(-as_int_term(self), "i")
        return Sym(-self.t, self.k)

    def __pos__(self):
        return self

    def __abs__(self):
        if self.k == "b":
            return Sym(as_int_term(self), "i")
        return Sym(z3.If(self.t >= 0, self.t, -self.t), self.k)

    # ---- comparisons
    def __lt__(self, o):
        return compare(self, o, "<")

    def __le__(self, o):
        return compare(self, o, "<=")

    def __gt__(self, o):
        return compare(self, o, ">")

    def __ge__(self, o):
        return compare(self, o, ">=")

    def __eq__(self, o):
        return compare(self, o, "==")

    def __ne__(self, o):
        return compare(self, o, "!=")

    # ---- bool algebra (bitwise operators on bools, as numpy uses them)
    def __and__(self, o):
        return And(self, o)

    def __rand__(self, o):
        return And(o, self)

    def __or__(self, o):
        return Or(self, o)

    def __ror__(self, o):
        return Or(o, self)

    def __invert__(self):
        if self.k == "b":
            return Not(self)
        raise Unsupported("~ on a symbolic integer")

    # ---- numpy object-array ufunc fallbacks (np.exp(obj_array) calls elem.exp())
    def sqrt(self):
        from . import lib
        return lib.m_sqrt(self)

    def exp(self):
        from . import lib
        return lib.m_exp(self)

    def log(self):
        from . import lib
        return lib.m_log(self)

    def conjugate(self):
        return self

    @property
    def real(self):
        return self

    def is_integer(self):
        if self.k in "ib":
            return True
        return Sym(z3.IsInt(self.t), "b")


def concrete_value(s):
    """Python value if the term is a numeral after simplification, else None."""
    if not isinstance(s, Sym):
        return s
    t = z3.simplify(s.t)
    if z3.is_int_value(t):
        return t.as_long()
    if z3.is_rational_value(t):
        f = Fraction(t.numerator_as_long(), t.denominator_as_long())
        return int(f) if s.k == "i" else float(f)
    if z3.is_true(t):
        return True
    if z3.is_false(t):
        return False
    return None


# --------------------------------------------------------------------------
# arithmetic with Python semantics

def _conc(x):
    return not isinstance(x, Sym)


def _decide(cond_sym):
    return bool(cond_sym)


def _spv(x):
    return type(x).__name__ == "SpVal"


def _spop(name, a, b):
    """analytic mode: at least one operand is a sympy-backed value (the other may be a number or a z3-backed Sym such as pi)"""
    import ast as _ast
    from .spval import sp_binop
    return sp_binop({"add": _ast.Add, "sub": _ast.Sub, "mul": _ast.Mult, "div": _ast.Div, "pow": _ast.Pow}[name], a, b)


def add(a, b):
    if _spv(a) or _spv(b):
        return _spop("add", a, b)
    if _conc(a) and _conc(b):
        return a + b
    if _is_inf(a) or _is_inf(b):
        return a if _is_inf(a) else b
    a, b = lift(a), lift(b)
    x, y, k = _num_pair(a, b)
    return Sym(x + y, k)


def sub(a, b):
    if _spv(a) or _spv(b):
        return _spop("sub", a, b)
    if _conc(a) and _conc(b):
        return a - b
    if _is_inf(a):
        return a
    if _is_inf(b):
        return -b
    a, b = lift(a), lift(b)
    x, y, k = _num_pair(a, b)
    return Sym(x - y, k)


def mul(a, b):
    if _spv(a) or _spv(b):
        return _spop("mul", a, b)
    if _conc(a) and _conc(b):
        return a * b
    if _is_inf(a) or _is_inf(b):
        inf, s = (a, b) if _is_inf(a) else (b, a)
        if _decide(compare(s, 0, ">")):
            return inf
        if _decide(compare(s, 0, "<")):
            return -inf
        return float("nan")
    # exact zero / one shortcuts keep terms small (int 0 * x is int 0 in Python too for ints;
    # for floats 0.0 * finite = 0.0 under A1)
    for c, s in ((a, b), (b, a)):
        if _conc(c) and not isinstance(c, bool):
            if c == 1 and isinstance(c, int):
                return s
    a, b = lift(a), lift(b)
    x, y, k = _num_pair(a, b)
    return Sym(x * y, k)


def _zero_check(b, what):
    """Fork on divisor == 0 (ZeroDivisionError path)."""
    if _conc(b):
        if b == 0:
            raise PyRaise("ZeroDivisionError", what)
        return
    if _decide(compare(b, 0, "==")):
        raise PyRaise("ZeroDivisionError", what)


def truediv(a, b):
    if _spv(a) or _spv(b):
        return _spop("div", a, b)
    if _conc(a) and _conc(b):
        import numpy as np
        if type(a).__name__ == "SpVal" or type(b).__name__ == "SpVal":
            return a / b        # analytic mode: a symbolic quotient (no ZeroDivisionError path)
        if isinstance(a, (np.floating, np.ndarray)) or isinstance(b, (np.floating, np.ndarray)):
            return a / b
        if b == 0:
            raise PyRaise("ZeroDivisionError", "division by zero")
        return a / b
    if _is_inf(b):
        return 0.0
    if _is_inf(a):
        if _decide(compare(b, 0, ">")):
            return a
        if _decide(compare(b, 0, "<")):
            return -a
        raise PyRaise("ZeroDivisionError", "inf / 0")
    _zero_check(b, "division by zero")
    a, b = lift(a), lift(b)
    if _conc_zero(a):
        return 0.0
    return Sym(as_real_term(a) / as_real_term(b), "r", meta=("div", a, b))


def _conc_zero(a):
    v = concrete_value(a)
    return v is not None and v == 0


def floordiv(a, b):
    if _conc(a) and _conc(b):
        if b == 0:
            raise PyRaise("ZeroDivisionError", "integer division or modulo by zero")
        return a // b
    if _is_inf(a) or _is_inf(b):
        raise Unsupported("floor division with infinity")
    _zero_check(b, "integer division or modulo by zero")
    a, b = lift(a), lift(b)
    if a.k in "ib" and b.k in "ib":
        x, y = as_int_term(a), as_int_term(b)
        bv = concrete_value(b)
        if bv is not None and bv > 0:
            return Sym(x / y, "i")
        # python floor division: z3 div rounds so that the remainder is >= 0
        return Sym(z3.If(y > 0, x / y, (-x) / (-y)), "i")
    q = as_real_term(a) / as_real_term(b)
    return Sym(z3.ToReal(z3.ToInt(q)), "r")


def mod(a, b):
    if _conc(a) and _conc(b):
        if b == 0:
            raise PyRaise("ZeroDivisionError", "integer division or modulo by zero")
        return a % b
    q = floordiv(a, b)
    return sub(a, mul(b, q))


def power(a, b):
    if _spv(a) or _spv(b):
        return _spop("pow", a, b)
    if _conc(a) and _conc(b):
        try:
            return a ** b
        except ZeroDivisionError:
            raise PyRaise("ZeroDivisionError", "0 to a negative power")
    from . import lib
    return lib.m_pow(a, b)


def compare(a, b, op):
    if _conc(a) and _conc(b):
        try:
            return {"<": lambda: a < b, "<=": lambda: a <= b, ">": lambda: a > b, ">=": lambda: a >= b,
                    "==": lambda: a == b, "!=": lambda: a != b}[op]()
        except TypeError as e:
            raise PyRaise("TypeError", str(e))       # the program's own TypeError (e.g. None > 1), not a checker error
    if a is None or b is None:
        return {"==": False, "!=": True}.get(op, NotImplemented)
    if _is_inf(a) or _is_inf(b):
        return _ext_cmp(a, b, op)
    if _is_nan(a) or _is_nan(b):
        return op == "!="
    if not (is_num(a) or is_sym(a)) or not (is_num(b) or is_sym(b)):
        import numpy as np
        if isinstance(a, (np.integer, np.floating, np.bool_)) or isinstance(b, (np.integer, np.floating, np.bool_)):
            pass
        else:
            return NotImplemented
    a, b = lift(a), lift(b)
    if a.k == "b" and b.k == "b" and op in ("==", "!="):
        t = a.t == b.t
        return Sym(t if op == "==" else z3.Not(t), "b")
    x, y, _ = _num_pair(a, b)
    t = {"<": lambda: x < y, "<=": lambda: x <= y, ">": lambda: x > y, ">=": lambda: x >= y,
         "==": lambda: x == y, "!=": lambda: x != y}[op]()
    return Sym(t, "b")


# --------------------------------------------------------------------------
# boolean connectives usable in contracts (no forking)

def _b(x):
    return as_bool_term(x)


def And(*xs):
    if len(xs) == 1 and isinstance(xs[0], (list, tuple)):
        xs = tuple(xs[0])
    if all(_conc(x) for x in xs):
        return all(bool(x) for x in xs)
    return Sym(z3.And(*[_b(x) for x in xs]), "b")


def Or(*xs):
    if len(xs) == 1 and isinstance(xs[0], (list, tuple)):
        xs = tuple(xs[0])
    if all(_conc(x) for x in xs):
        return any(bool(x) for x in xs)
    return Sym(z3.Or(*[_b(x) for x in xs]), "b")


def Not(x):
    if _conc(x):
        return not bool(x)
    return Sym(z3.Not(_b(x)), "b")


def Implies(a, b):
    if _conc(a) and _conc(b):
        return (not bool(a)) or bool(b)
    return Sym(z3.Implies(_b(a), _b(b)), "b")


def Iff(a, b):
    return Sym(_b(a) == _b(b), "b") if not (_conc(a) and _conc(b)) else bool(a) == bool(b)


def If(c, a, b):
    """Non-forking conditional on scalars."""
    if _conc(c):
        return a if bool(c) else b
    if _is_inf(a) or _is_inf(b) or not (is_num(a) or is_sym(a)) or not (is_num(b) or is_sym(b)):
        # cannot merge -> fork
        return a if bool(c) else b
    a, b = lift(a), lift(b)
    if a.k == "b" and b.k == "b":
        return Sym(z3.If(_b(c), a.t, b.t), "b")
    x, y, k = _num_pair(a, b)
    return Sym(z3.If(_b(c), x, y), k)


def Eq(a, b):
    """Structural equality of values (tuples/lists elementwise) as a formula."""
    if isinstance(a, (tuple, list)) or isinstance(b, (tuple, list)):
        if not isinstance(a, (tuple, list)) or not isinstance(b, (tuple, list)) or len(a) != len(b):
            return False
        return And(*[Eq(x, y) for x, y in zip(a, b)]) if len(a) else True
    r = compare(a, b, "==")
    if r is NotImplemented:
        return a == b
    return r


def smax(*xs):
    if len(xs) == 1:
        xs = tuple(xs[0])
    r = xs[0]
    for x in xs[1:]:
        r = If(compare(x, r, ">"), x, r) if not (_conc(x) and _conc(r)) else max(r, x)
    return r


def smin(*xs):
    if len(xs) == 1:
        xs = tuple(xs[0])
    r = xs[0]
    for x in xs[1:]:
        r = If(compare(x, r, "<"), x, r) if not (_conc(x) and _conc(r)) else min(r, x)
    return r


def to_int_floor(x):
    """math.floor"""
    if _conc(x):
        return math.floor(x)
    if x.k in "ib":
        return Sym(as_int_term(x), "i")
    return Sym(z3.ToInt(x.t), "i")


def to_int_ceil(x):
    if _conc(x):
        return math.ceil(x)
    if x.k in "ib":
        return Sym(as_int_term(x), "i")
    return Sym(-z3.ToInt(-x.t), "i")


def to_int_trunc(x):
    """int(x)"""
    if _conc(x):
        return int(x)
    if x.k in "ib":
        return Sym(as_int_term(x), "i")
    return Sym(z3.If(x.t >= 0, z3.ToInt(x.t), -z3.ToInt(-x.t)), "i")


def to_real(x):
    if _conc(x):
        return float(x)
    return Sym(as_real_term(x), "r")
