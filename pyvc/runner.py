"""Check driver: runs the units of one property, replays refutations, writes evidence.

Exit codes: 0 held (apart from listed known findings) / 1 violation / 2 undecided / 3 checker error.
"""
from __future__ import annotations

import argparse
import hashlib
import importlib
import json
import multiprocessing as mp
import os
import sys
import time
import traceback

ROOT = os.path.dirname(os.path.dirname(os.path.abspath(__file__)))
REPO = os.environ.get("PYVC_REPO", "/repo")


def _env_setup():
    os.environ.setdefault("MPMATH_NOGMPY", "1")
    os.environ.setdefault("SYMPY_GROUND_TYPES", "python")
    os.environ.setdefault("MPLBACKEND", "Agg")
    os.environ.setdefault("MPLCONFIGDIR", os.path.join(ROOT, ".cache", "mpl"))
    os.makedirs(os.environ["MPLCONFIGDIR"], exist_ok=True)
    stubs = os.path.join(ROOT, "stubs")
    for p in (stubs, ROOT):
        if p not in sys.path:
            sys.path.insert(0, p)
    # native replays must import the working tree under test, not an installed copy
    if REPO not in sys.path:
        sys.path.insert(0, REPO)


_INTERP = None


def interp_factory():
    global _INTERP
    from pyvc.interp import Interp
    if _INTERP is None:
        _INTERP = Interp(REPO)
    it = _INTERP
    it.modular = {}
    it.hooks = {}
    it.loop_specs = {}
    it.frames = []
    it.transparent_only = None
    it.assign_hooks = {}
    it.native_hooks = {}          # abstractions installed by one unit never leak into the next
    it.opaque_hooks = {}
    it.private_rng = None
    it.reset_static_state()       # module / class level containers and memo stores back to their state after import
    from pyvc import ctx as _ctx
    _ctx.INTERP = it
    return it


def _run_unit(job):
    modname, idx, case_i = job
    _env_setup()
    from pyvc.path import Explorer, STATS
    t0 = time.time()
    out = {"unit": None, "results": [], "covers": {}, "paths": 0, "error": None, "executed": {}, "stats": {}, "kind": "", "target": ""}
    try:
        mod = importlib.import_module(modname)
        u = all_units(mod)[idx]
        case = u.cases[case_i]
        out["unit"] = u.unit_name(case)
        out["kind"] = type(u).__mro__[1].__name__ if hasattr(u, "target") else "Lemma"
        ag = getattr(u, "alt_group", None)
        out["alt_group"] = ag(case) if callable(ag) else ag
        out["target"] = getattr(u, "target", "")
        for k in STATS:
            STATS[k] = 0
        ex = Explorer(u.make_unit(case, interp_factory), max_paths=u.max_paths)
        res = ex.run()
        out["paths"] = ex.paths
        out["completed"] = ex.completed
        out["covers"] = {k: any(v) for k, v in ex.covers.items()}
        for r in res:
            if r.label in ("unsupported", "uncaught-exception", "path-budget"):
                r.label = f"{out['unit']}::{r.label}"
        out["results"] = [dict(label=r.label, status=r.status, backend=r.backend, time_s=round(r.time_s, 4), model=r.model,
                               detail=r.detail, path=list(r.path)[:64], smt2=(r.smt2 if r.status != "proved" else None)) for r in res]
        out["stats"] = dict(STATS)
        if _INTERP is not None:
            out["executed"] = {k: v for k, v in _INTERP.executed.items()}
    except Exception as e:  # checker failure, never a verdict
        out["error"] = f"{type(e).__name__}: {e}\n{traceback.format_exc()}"
    out["wall_s"] = round(time.time() - t0, 3)
    return out


def _kf_match(f, label):
    import re
    if f.get("obligation") == label:
        return True
    rx = f.get("obligation_regex")
    return bool(rx and re.fullmatch(rx, label))


def all_units(mod):
    """UNITS plus units borrowed from other properties' contract modules (resolved after import to avoid cycles)"""
    if not hasattr(mod, "_ALL_UNITS"):
        late = getattr(mod, "LATE_UNITS", None)
        mod._ALL_UNITS = list(mod.UNITS) + (list(late()) if late else [])
    return mod._ALL_UNITS


def load_known(prop):
    p = os.path.join(ROOT, "known_findings.json")
    if not os.path.exists(p):
        return [], []
    d = json.load(open(p))
    return [f for f in d.get("findings", []) if f["property"] == prop], [f for f in d.get("fixed", []) if f["property"] == prop]


def load_baseline(prop):
    p = os.path.join(ROOT, "baseline", "obligations.json")
    if not os.path.exists(p):
        return {}
    return json.load(open(p)).get(prop, {})


def main(argv=None):
    _env_setup()
    ap = argparse.ArgumentParser()
    ap.add_argument("prop", nargs="?")
    ap.add_argument("--tier", default=os.environ.get("VERIF_TIER", "quick"))
    ap.add_argument("--replay")
    ap.add_argument("--jobs", type=int, default=int(os.environ.get("PYVC_JOBS", "16")))
    ap.add_argument("--only", help="substring filter on unit names (debug; evidence not written)")
    ap.add_argument("--write-baseline", action="store_true")
    ap.add_argument("-v", "--verbose", action="store_true")
    a = ap.parse_args(argv)
    if a.replay:
        return replay_file(a.replay)
    prop = a.prop
    seed = int(os.environ.get("VERIF_SEED", "0") or 0)
    t0 = time.time()
    modname = f"contracts.{prop.lower()}"
    try:
        mod = importlib.import_module(modname)
    except Exception as e:
        print(f"CHECKER-ERROR cannot load {modname}: {e}")
        traceback.print_exc()
        return 3
    jobs = []
    for i, u in enumerate(all_units(mod)):
        if u.tier == "thorough" and a.tier != "thorough":
            continue
        for ci, case in enumerate(u.cases):
            if a.only and a.only not in u.unit_name(case):
                continue
            jobs.append((modname, i, ci))
    outs = []
    if jobs:
        ctxmp = mp.get_context("fork")
        with ctxmp.Pool(min(a.jobs, max(1, len(jobs))), maxtasksperchild=1) as pool:
            for o in pool.imap_unordered(_run_unit, jobs, chunksize=1):
                outs.append(o)
                if a.verbose:
                    bad = [r for r in o["results"] if r["status"] != "proved"]
                    print(f"  unit {o['unit']}: paths={o['paths']} obligations={len(o['results'])} not-proved={len(bad)} {o['wall_s']}s" + (f" ERROR {o['error']}" if o["error"] else ""))
                    for r in bad[:12]:
                        print(f"     {r['status']:9s} {r['label']}  {r['detail'][:200]} model={json.dumps(r['model'], default=str)[:300] if r['model'] else None}")
    outs.sort(key=lambda o: o["unit"] or "")
    # alternatives: units in one alt_group state the same property clause for different admissible designs (e.g. the
    # enumeration order of a bijection); the group holds if one alternative is fully proved, the others are dropped
    groups = {}
    for o in outs:
        if o.get("alt_group"):
            groups.setdefault(o["alt_group"], []).append(o)
    dropped_alts = []
    for gname, members in groups.items():
        good = [o for o in members if not o["error"] and o["results"] and all(r["status"] == "proved" for r in o["results"])]
        keep = good[0] if good else members[0]
        for o in members:
            if o is not keep:
                outs.remove(o)
                dropped_alts.append(o["unit"])
    # bounded stand-ins (native / small-n); run in this process
    bounded = []
    for b in getattr(mod, "BOUNDED", []):
        if getattr(b, "tier", "quick") == "thorough" and a.tier != "thorough":
            continue
        if a.only and a.only not in b.name:
            continue
        tb = time.time()
        try:
            r = b.run(a.tier, seed)
        except Exception as e:
            r = {"name": b.name, "error": f"{type(e).__name__}: {e}\n{traceback.format_exc()}", "violations": [], "evaluations": 0}
        r.setdefault("name", b.name)
        r["wall_s"] = round(time.time() - tb, 2)
        bounded.append(r)
        if a.verbose:
            print(f"  bounded {r['name']}: evals={r.get('evaluations')} violations={len(r.get('violations', []))} {r['wall_s']}s" + (f" ERROR {r['error']}" if r.get("error") else ""))

    # ---------------- aggregate
    known, fixed = load_known(prop)
    baseline = load_baseline(prop)
    ob = {}   # label -> aggregate
    checker_errors = []
    vacuity = []
    executed = {}
    stats = {"z3_queries": 0, "z3_time": 0.0, "cvc5_queries": 0, "cvc5_time": 0.0, "feas_queries": 0}
    backends = {}
    for o in outs:
        if o["error"]:
            checker_errors.append(f"{o['unit']}: {o['error']}")
            continue
        for k, v in o["stats"].items():
            stats[k] = stats.get(k, 0) + v
        executed.update(o["executed"])
        if not o["results"]:
            checker_errors.append(f"{o['unit']}: zero obligations generated")
        all_proved = all(r["status"] == "proved" for r in o["results"])
        if all_proved and o["covers"] and not any(o["covers"].values()):
            vacuity.append(o["unit"])
        if all_proved and not o["covers"] and o.get("completed", 0) == 0:
            vacuity.append(o["unit"])
        for r in o["results"]:
            g = ob.setdefault(r["label"], {"label": r["label"], "unit": o["unit"], "instances": 0, "proved": 0, "refuted": [], "undecided": [], "time_s": 0.0})
            g["instances"] += 1
            g["time_s"] += r["time_s"]
            backends[r["backend"] or "none"] = backends.get(r["backend"] or "none", 0) + 1
            if r["status"] == "proved":
                g["proved"] += 1
            elif r["status"] == "refuted":
                g["refuted"].append(r)
            else:
                g["undecided"].append(r)
    for u in vacuity:
        checker_errors.append(f"{u}: vacuous (no satisfiable path reaches an exit)")

    units_by_name = {}
    for i, u in enumerate(all_units(mod)):
        for case in u.cases:
            units_by_name[u.unit_name(case)] = (u, case)

    violations, known_hits, undecided = [], [], []
    os.makedirs(os.path.join(ROOT, "replays"), exist_ok=True)
    for label, g in sorted(ob.items()):
        if g["refuted"]:
            u, case = units_by_name.get(g["unit"], (None, None))
            confirmed = None
            info = None
            used = None
            for r in g["refuted"][:6]:
                try:
                    rep = u.replay(r["model"] or {}, label.split("::")[-1], case) if u is not None else None
                except Exception as e:
                    rep = None
                    info = {"replay_error": f"{type(e).__name__}: {e}"}
                if rep is not None:
                    v, inf = rep
                    if v:
                        confirmed, info, used = True, inf, r
                        break
                    confirmed, info, used = False, inf, r
            r0 = used or g["refuted"][0]
            kf = next((f for f in known if _kf_match(f, label)), None)
            replay_path = os.path.join("replays", f"{prop}-{hashlib.sha1(label.encode()).hexdigest()[:10]}.json")
            rec = {"property": prop, "obligation": label, "unit": g["unit"], "model": r0["model"], "path": r0["path"],
                   "backend": r0["backend"], "native_replay": info, "confirmed_natively": bool(confirmed),
                   "smt2": r0.get("smt2"), "replay_cmd": f"./check --replay {replay_path}"}
            if kf is not None and (confirmed or kf.get("no_native_replay")):
                known_hits.append((kf, rec))
                continue
            if confirmed:
                json.dump(rec, open(os.path.join(ROOT, replay_path), "w"), indent=1, default=str)
                violations.append((label, replay_path, ""))
            elif baseline.get(label) == "proved":
                rec["note"] = "obligation was proved on the baseline tree and is now refuted; the counter-model did not replay natively"
                json.dump(rec, open(os.path.join(ROOT, replay_path), "w"), indent=1, default=str)
                violations.append((label, replay_path, " no-failing-input-found"))
            else:
                undecided.append((label, "refuted but neither replayed natively nor in the proved baseline", r0))
        elif g["undecided"]:
            r0 = g["undecided"][0]
            kf = next((f for f in known if _kf_match(f, label)), None)
            if kf is not None and kf.get("undecided_ok"):
                known_hits.append((kf, {"obligation": label}))
                continue
            # an obligation the solver could not decide: try the native replay on the relaxed candidate model (or on
            # the replay's default witness); only a natively confirmed failure becomes a violation
            u, case = units_by_name.get(g["unit"], (None, None))
            confirmed, info, used = False, None, r0
            if u is not None:
                for r in g["undecided"][:4]:
                    try:
                        rep = u.replay(r["model"] or {}, label.split("::")[-1], case)
                    except Exception as e:
                        rep = None
                    if rep is not None and rep[0]:
                        confirmed, info, used = True, rep[1], r
                        break
            if confirmed:
                replay_path = os.path.join("replays", f"{prop}-{hashlib.sha1(label.encode()).hexdigest()[:10]}.json")
                rec = {"property": prop, "obligation": label, "unit": g["unit"], "model": used["model"], "path": used["path"],
                       "backend": used["backend"], "native_replay": info, "confirmed_natively": True, "solver_status": "unknown",
                       "smt2": used.get("smt2"), "replay_cmd": f"./check --replay {replay_path}"}
                if kf is not None:
                    known_hits.append((kf, rec))
                    continue
                json.dump(rec, open(os.path.join(ROOT, replay_path), "w"), indent=1, default=str)
                violations.append((label, replay_path, ""))
                continue
            undecided.append((label, r0["detail"] or "solver returned unknown", r0))

    # baseline drift: an obligation proved on the baseline tree that disappeared => the code changed shape
    missing = [l for l, s in baseline.items() if s == "proved" and l not in ob and not a.only
               and (a.tier == "thorough" or not baseline.get("__tier__", {}).get(l) == "thorough")]

    b_viol = []
    b_evals = 0
    for r in bounded:
        if r.get("error"):
            checker_errors.append(f"bounded {r['name']}: {r['error']}")
        b_evals += r.get("evaluations", 0)
        for v in r.get("violations", []):
            kf = next((f for f in known if _kf_match(f, v["obligation"])), None)
            if kf is not None:
                known_hits.append((kf, v))
                continue
            replay_path = os.path.join("replays", f"{prop}-{hashlib.sha1(v['obligation'].encode()).hexdigest()[:10]}.json")
            json.dump({"property": prop, **v, "replay_cmd": f"./check --replay {replay_path}"}, open(os.path.join(ROOT, replay_path), "w"), indent=1, default=str)
            b_viol.append((v["obligation"], replay_path, ""))

    kf_labels = {rec.get("obligation") or kf.get("obligation") for kf, rec in known_hits}
    # obligations of listed known findings are reported separately, never counted as discharged
    n_ob = sum(g["instances"] for l, g in ob.items() if l not in kf_labels)
    n_dis = sum(g["proved"] for l, g in ob.items() if l not in kf_labels)
    n_kf_inst = sum(g["instances"] for l, g in ob.items() if l in kf_labels)
    n_labels = len(ob)
    n_labels_proved = sum(1 for g in ob.values() if g["proved"] == g["instances"])

    # ---------------- print
    seen_kf = set()
    for kf, rec in known_hits:
        key = kf.get("obligation") or kf.get("obligation_regex")
        if key in seen_kf:
            continue
        seen_kf.add(key)
        print(f"KNOWN-FINDING: property={prop} {kf['what']}")
    for label, rp, suffix in violations + b_viol:
        print(f"VIOLATION property={prop} replay={os.path.join(ROOT, rp)}{suffix}")
        print(f"  failed obligation: {label}")
    for label, why, r0 in undecided:
        print(f"UNDECIDED property={prop} obligation={label}: {why[:300]}")
    for l in missing:
        print(f"UNDECIDED property={prop} obligation={l}: proved on the baseline tree but not generated now (code changed shape)")
    for e in checker_errors:
        print(f"CHECKER-ERROR {e[:2000]}")

    code = 0
    if violations or b_viol:
        code = 1
    elif checker_errors:
        code = 3
    elif undecided or missing:
        code = 2

    wall = time.time() - t0
    if not a.only and not os.environ.get("PYVC_REPO"):      # runs against a scratch copy never touch the evidence files
        level = getattr(mod, "LEVEL", "proof")
        samples = []
        for label, g in list(sorted(ob.items()))[:3]:
            samples.append({"obligation": label, "instances": g["instances"], "proved": g["proved"]})
        smt_sample = next((r.get("smt2") for g in ob.values() for r in g["refuted"] + g["undecided"] if r.get("smt2")), None)
        if smt_sample:
            samples.append({"smt2_of_an_open_obligation": smt_sample[:1500]})
        for r in bounded[:3]:
            samples.extend(r.get("samples", [])[:2])
        cov = {
            "obligations": n_ob, "discharged": n_dis,
            "obligation_labels": n_labels, "obligation_labels_proved": n_labels_proved,
            "checker_cmd": f"./check {prop} --tier {a.tier}",
            "trusted_base": list(getattr(mod, "TRUSTED_BASE", [])),
            "units": len(outs), "paths": sum(o["paths"] for o in outs),
            "backends": backends, "solver": {k: (round(v, 3) if isinstance(v, float) else v) for k, v in stats.items()},
            "functions_under_contract": sorted({o["target"] for o in outs if o.get("target")}),
            "function_bodies_executed": {k: v for k, v in sorted(executed.items())},
            "extraction_drops": "type annotations, docstrings, abc/typing machinery; memoising decorators (lru_cache/cache) are modelled with an unbounded store keyed by argument identity / value (maxsize eviction is not modelled); generator functions (yield) are evaluated eagerly into lists (generator expressions are lazy)",
            "undecided": [{"obligation": l, "why": w[:300]} for l, w, _ in undecided],
            "known_findings_hit": sorted(kf_labels), "known_finding_obligation_instances_excluded_from_counts": n_kf_inst,
            "alternatives_dropped": dropped_alts,
            "bounded": [{k: v for k, v in r.items() if k not in ("violations", "samples")} for r in bounded],
            "evaluations": b_evals + n_ob, "distinct_nontrivial": max(2, n_labels + sum(r.get("distinct_nontrivial", 0) for r in bounded)) if (n_labels or bounded) else 0,
            "rule": "one obligation instance per contract clause per feasible path of the real function body; distinct = distinct obligation labels (+ distinct non-trivial cases of each bounded stand-in as counted by it)",
            "samples": samples or [{"note": "no obligations"}],
            "exit_code": code,
        }
        ev = {"property_id": prop, "tier": a.tier, "seed": seed, "level": level, "coverage": cov,
              "assumptions": list(getattr(mod, "ASSUMPTIONS", [])), "wall_s": round(wall, 2), "violations": len(violations) + len(b_viol)}
        os.makedirs(os.path.join(ROOT, "evidence"), exist_ok=True)
        json.dump(ev, open(os.path.join(ROOT, "evidence", f"{prop}.json"), "w"), indent=1, default=str)
    if a.write_baseline and code in (0,):
        os.makedirs(os.path.join(ROOT, "baseline"), exist_ok=True)
        p = os.path.join(ROOT, "baseline", "obligations.json")
        d = json.load(open(p)) if os.path.exists(p) else {}
        cur = d.get(prop, {}) if a.tier != "thorough" else {}
        cur.update({l: ("proved" if g["proved"] == g["instances"] else "open") for l, g in ob.items()})
        d[prop] = cur
        json.dump(d, open(p, "w"), indent=1, sort_keys=True)
    if n_ob == 0 and not bounded and code == 0:
        # vacuity guard: a run that generated no obligation at all proves nothing (empty --only filter, empty contract module)
        print(f"CHECKER-ERROR {prop}: no obligation was generated")
        code = 3
    print(f"{prop} tier={a.tier}: obligations={n_ob} discharged={n_dis} labels={n_labels_proved}/{n_labels} units={len(outs)} "
          f"bounded={len(bounded)} known={len(seen_kf)} violations={len(violations) + len(b_viol)} undecided={len(undecided) + len(missing)} "
          f"errors={len(checker_errors)} wall={wall:.1f}s exit={code}")
    return code


def replay_file(path):
    _env_setup()
    rec = json.load(open(path))
    prop = rec["property"]
    mod = importlib.import_module(f"contracts.{prop.lower()}")
    label = rec["obligation"]
    if rec.get("bounded"):
        for b in getattr(mod, "BOUNDED", []):
            if b.name == rec["bounded"]:
                v, info = b.replay(rec)
                print(json.dumps({"violated": v, "info": info}, default=str, indent=1))
                return 1 if v else 0
    for u in all_units(mod):
        for case in u.cases:
            if u.unit_name(case) == rec.get("unit"):
                rep = u.replay(rec.get("model") or {}, label.split("::")[-1], case)
                print(json.dumps({"obligation": label, "replay": rep}, default=str, indent=1))
                return 1 if (rep and rep[0]) else 0
    print("no unit found for", rec.get("unit"))
    return 3


if __name__ == "__main__":
    sys.exit(main())
