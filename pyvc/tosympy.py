"""z3 term -> sympy expression (structural translation), and the analytic back end.

Analytic obligations have the form "this expression is identically zero on this region".  They are decided by the CAS
(sympy.simplify and friends => `proved`), refuted by a numeric point of the region where the expression is not zero
(=> `refuted`, with that point as the counterexample), and are `undecided` when the CAS cannot reduce the expression
although it vanishes numerically at every sampled point.  sympy's simplifier is part of the trusted base (A4).
"""
from __future__ import annotations

import math
import random
import time

import sympy as sp
import z3

from .sym import Sym, Unsupported


def to_sympy(t, symbols: dict):
    """symbols: name -> sympy Symbol (created on demand as real symbols when missing)"""
    if isinstance(t, Sym):
        t = t.t
    cache = {}

    def rec(e):
        k = e.get_id()
        if k in cache:
            return cache[k]
        r = _rec(e)
        cache[k] = r
        return r

    def _rec(e):
        if z3.is_int_value(e):
            return sp.Integer(e.as_long())
        if z3.is_rational_value(e):
            return sp.Rational(e.numerator_as_long(), e.denominator_as_long())
        if z3.is_algebraic_value(e):
            return sp.nsimplify(e.approx(30).as_decimal(30).rstrip("?"))
        if z3.is_true(e):
            return sp.true
        if z3.is_false(e):
            return sp.false
        if not z3.is_app(e):
            raise Unsupported(f"to_sympy: {e}")
        d = e.decl()
        kind = d.kind()
        ch = [rec(c) for c in e.children()]
        if kind == z3.Z3_OP_UNINTERPRETED:
            name = d.name()
            if not ch:
                if name == "pi_const":
                    return sp.pi
                if name not in symbols:
                    symbols[name] = sp.Symbol(name, real=True)
                return symbols[name]
            return _uf(name, ch)
        if kind == z3.Z3_OP_ADD:
            return sp.Add(*ch)
        if kind == z3.Z3_OP_MUL:
            return sp.Mul(*ch)
        if kind == z3.Z3_OP_SUB:
            r = ch[0]
            for c in ch[1:]:
                r = r - c
            return r
        if kind == z3.Z3_OP_UMINUS:
            return -ch[0]
        if kind in (z3.Z3_OP_DIV, z3.Z3_OP_IDIV):
            if kind == z3.Z3_OP_IDIV:
                return sp.floor(ch[0] / ch[1])
            return ch[0] / ch[1]
        if kind == z3.Z3_OP_POWER:
            return sp.Pow(ch[0], ch[1])
        if kind == z3.Z3_OP_TO_REAL:
            return ch[0]
        if kind == z3.Z3_OP_TO_INT:
            return sp.floor(ch[0])
        if kind == z3.Z3_OP_ITE:
            return sp.Piecewise((ch[1], ch[0]), (ch[2], True))
        if kind == z3.Z3_OP_LE:
            return sp.Le(ch[0], ch[1])
        if kind == z3.Z3_OP_LT:
            return sp.Lt(ch[0], ch[1])
        if kind == z3.Z3_OP_GE:
            return sp.Ge(ch[0], ch[1])
        if kind == z3.Z3_OP_GT:
            return sp.Gt(ch[0], ch[1])
        if kind == z3.Z3_OP_EQ:
            return sp.Eq(ch[0], ch[1])
        if kind == z3.Z3_OP_AND:
            return sp.And(*ch)
        if kind == z3.Z3_OP_OR:
            return sp.Or(*ch)
        if kind == z3.Z3_OP_NOT:
            return sp.Not(ch[0])
        raise Unsupported(f"to_sympy: operator {d.name()}")

    return rec(t)


def _uf(name, ch):
    if name == "exp":
        return sp.exp(ch[0])
    if name == "log":
        return sp.log(ch[0])
    if name == "sqrt":
        return sp.sqrt(ch[0])
    if name.startswith("root"):
        return sp.Pow(ch[0], sp.Rational(1, int(name[4:])))
    if name == "pow":
        return sp.Pow(ch[0], ch[1])
    if name == "erf":
        return sp.erf(ch[0])
    if name == "erfc":
        return sp.erfc(ch[0])
    if name == "gamma":
        return sp.gamma(ch[0])
    if name == "gammaincc":
        return sp.uppergamma(ch[0], ch[1]) / sp.gamma(ch[0])
    if name == "gammainc":
        return sp.lowergamma(ch[0], ch[1]) / sp.gamma(ch[0])
    if name == "exp1":
        return sp.expint(1, ch[0])
    if name == "expi":
        return sp.Ei(ch[0])
    if name == "Phi":
        return (1 + sp.erf(ch[0] / sp.sqrt(2))) / 2
    if name == "cos":
        return sp.cos(ch[0])
    if name == "sin":
        return sp.sin(ch[0])
    return sp.Function(name)(*ch)


class CasTimeout(Exception):
    pass


def timed(fn, seconds=30.0):
    """run a CAS call under a wall-clock guard (SIGALRM; main thread of the worker process) -> result or CasTimeout"""
    import signal

    def _h(sig, frm):
        raise CasTimeout(f"CAS call exceeded {seconds}s")
    old = signal.signal(signal.SIGALRM, _h)
    signal.setitimer(signal.ITIMER_REAL, seconds)
    try:
        return fn()
    finally:
        signal.setitimer(signal.ITIMER_REAL, 0)
        signal.signal(signal.SIGALRM, old)


def snap_float_artifacts(expr):
    """A1 (floats are reals): a rational coefficient with a huge denominator that is within 1e-13 (relative) of a small
    rational is the image of a rounded float operation of the code (e.g. 6 * (1 / 6.0) = 0.9999999999999999); replace
    it by the small rational before asking the CAS."""
    repl = {}
    for r in expr.atoms(sp.Rational):
        if r.q > 10 ** 12:
            c = sp.nsimplify(float(r), rational=True, tolerance=1e-13)
            if c.q <= 10 ** 6 and abs(float(c) - float(r)) <= 1e-13 * max(1.0, abs(float(r))):
                repl[r] = c
    return expr.xreplace(repl) if repl else expr


def is_zero(expr, sampler=None, n_samples=24, tol=1e-8, budget_s=30.0):
    """-> (status, info): status in proved | refuted | undecided"""
    t0 = time.time()
    e = expr
    try:
        e = snap_float_artifacts(sp.expand(expr)) if expr != 0 else expr
    except Exception:
        e = expr
    try:
        if e == 0:
            return "proved", {"method": "structural"}
        for name, f in (("expand", lambda x: sp.expand(x)), ("simplify", lambda x: sp.simplify(x)),
                        ("expand_func+simplify", lambda x: sp.simplify(sp.expand_func(x))),
                        ("powsimp+expand", lambda x: sp.expand(sp.powsimp(sp.expand_power_base(x, force=True), force=True))),
                        ("rewrite(exp)+simplify", lambda x: sp.simplify(x.rewrite(sp.exp)))):
            if time.time() - t0 > budget_s:
                break
            try:
                r = f(e)
            except Exception:
                continue
            if r == 0:
                return "proved", {"method": name}
    except Exception as ex:
        pass
    # numeric probe: a refutation needs a concrete point of the region
    if sampler is None:
        return "undecided", {"why": "CAS could not reduce the expression to 0 and no sampler was given"}
    rng = random.Random(12345)
    worst = None
    ok_pts = 0
    for _ in range(n_samples):
        pt = sampler(rng)
        try:
            v = complex(sp.N(e.subs(pt), 30))
        except Exception:
            continue
        if math.isnan(v.real) or math.isinf(v.real):
            continue
        ok_pts += 1
        scale = 1.0
        if abs(v) > tol * scale and (worst is None or abs(v) > worst[1]):
            worst = ({str(k): float(x) for k, x in pt.items()}, abs(v))
    if worst is not None:
        return "refuted", {"point": worst[0], "residual": worst[1]}
    if ok_pts == 0:
        return "undecided", {"why": "no sample point could be evaluated"}
    return "undecided", {"why": f"CAS could not reduce the expression to 0 (it vanishes numerically at {ok_pts} sampled points)"}
