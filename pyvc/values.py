"""Run-time value kinds of the interpreter that are not plain Python objects."""
from __future__ import annotations

import ast
from fractions import Fraction

import z3

from .sym import Sym, Unsupported, PyRaise, lift, as_int_term, as_real_term, compare, And, is_sym
from . import ctx


class Opaque:
    """Value the interpreter knows nothing about; any use makes the path undecided."""

    def __init__(self, why):
        self.why = why

    def __repr__(self):
        return f"<opaque {self.why}>"

    def _no(self, *a, **k):
        raise Unsupported(f"use of opaque value: {self.why}")

    __call__ = __getitem__ = __iter__ = __add__ = __radd__ = __mul__ = __rmul__ = __bool__ = _no

    def __getattr__(self, name):
        if name.startswith("__") and name.endswith("__"):
            raise AttributeError(name)
        return Opaque(f"{self.why}.{name}")


class Env:
    __slots__ = ("vars", "parent", "kind", "globals_", "nonlocals", "cls_name")

    def __init__(self, parent=None, kind="function"):
        self.vars = {}
        self.parent = parent
        self.kind = kind          # module | function | class | comp
        self.globals_ = set()
        self.nonlocals = set()
        self.cls_name = None

    def module_env(self):
        e = self
        while e.kind != "module":
            e = e.parent
        return e

    def lookup(self, name):
        e = self
        first = True
        while e is not None:
            if e.kind == "class" and not first:
                e = e.parent
                continue
            if name in e.vars and not (e is self and name in self.globals_):
                return e.vars[name]
            first = False
            e = e.parent
        raise KeyError(name)

    def assign(self, name, value):
        if name in self.globals_:
            self.module_env().vars[name] = value
            return
        if name in self.nonlocals:
            e = self.parent
            while e is not None:
                if e.kind in ("function", "comp") and name in e.vars:
                    e.vars[name] = value
                    return
                e = e.parent
            raise Unsupported(f"nonlocal {name} not found")
        if self.kind == "comp":
            # walrus inside a comprehension binds in the enclosing function scope; loop targets are set
            # through assign_local
            e = self.parent
            while e.kind == "comp":
                e = e.parent
            e.vars[name] = value
            return
        self.vars[name] = value

    def assign_local(self, name, value):
        self.vars[name] = value

    def lexical_class(self):
        e = self
        while e is not None:
            if e.cls_name is not None:
                return e.cls_name
            e = e.parent
        return None


class FuncVal:
    def __init__(self, node, env, module, qualname, kind="function"):
        self.node = node
        self.env = env              # defining environment (closure)
        self.module = module
        self.qualname = qualname    # e.g. "Szudzik.projection2d" or "create_x.<locals>.f"
        self.kind = kind            # function | static | classmethod | property | cached_property
        self.defaults = []
        self.kw_defaults = {}
        self.cls = None             # defining ClassVal for methods
        self.dispatch = None        # singledispatch registry: type-name -> FuncVal
        self.dropped = []           # decorators dropped by the extraction
        self.is_generator = False
        self.name = getattr(node, "name", "<lambda>")

    @property
    def fq(self):
        return f"{self.module.name}:{self.qualname}"

    def __repr__(self):
        return f"<func {self.fq}>"


class ClassVal:
    def __init__(self, name, module, bases, qualname):
        self.name = name
        self.module = module
        self.bases = bases
        self.qualname = qualname
        self.ns = {}
        self.is_enum = False
        self.is_exception = False

    @property
    def fq(self):
        return f"{self.module.name}:{self.qualname}"

    def mro(self):
        out = [self]
        for b in self.bases:
            if isinstance(b, ClassVal):
                for c in b.mro():
                    if c not in out:
                        out.append(c)
        return out

    def find(self, name):
        for c in self.mro():
            if name in c.ns:
                return c.ns[name], c
        return None, None

    def is_subclass_of(self, other):
        return other in self.mro()

    def __repr__(self):
        return f"<class {self.fq}>"


class Obj:
    def __init__(self, cls):
        self.cls = cls
        self.fields = {}

    def __repr__(self):
        return f"<{self.cls.name} obj {sorted(self.fields)}>"


class EnumMember:
    def __init__(self, cls, name, value):
        self.cls = cls
        self.name = name
        self.value = value

    def __repr__(self):
        return f"{self.cls.name}.{self.name}"

    def __eq__(self, o):
        return isinstance(o, EnumMember) and o.cls is self.cls and o.name == self.name

    def __hash__(self):
        return hash((self.cls.name, self.name))


class BoundMethod:
    def __init__(self, func, self_obj):
        self.func = func
        self.self_obj = self_obj

    def __repr__(self):
        return f"<bound {self.func.fq}>"


class SuperProxy:
    def __init__(self, obj, after_cls, start_cls=None):
        self.obj = obj
        self.after_cls = after_cls
        self.start_cls = start_cls


class ModuleVal:
    def __init__(self, name, path):
        self.name = name
        self.path = path
        self.env = Env(None, "module")
        self.loaded = False
        self.tree = None
        self.source = None

    def __repr__(self):
        return f"<module {self.name}>"


class PartialVal:
    def __init__(self, func, args, kwargs):
        self.func = func
        self.args = args
        self.kwargs = kwargs


class ExcInstance:
    def __init__(self, type_name, args):
        self.type_name = type_name
        self.args = args


class ExcClass:
    def __init__(self, name, parents=()):
        self.name = name
        self.parents = parents

    def __repr__(self):
        return f"<exc {self.name}>"


EXC_PARENTS = {
    "ZeroDivisionError": ["ArithmeticError"], "OverflowError": ["ArithmeticError"], "ArithmeticError": ["Exception"],
    "IndexError": ["LookupError"], "KeyError": ["LookupError"], "LookupError": ["Exception"],
    "ValueError": ["Exception"], "TypeError": ["Exception"], "NotImplementedError": ["RuntimeError"],
    "RuntimeError": ["Exception"], "StopIteration": ["Exception"], "AttributeError": ["Exception"],
    "AssertionError": ["Exception"], "Exception": ["BaseException"], "BaseException": [],
}


def exc_matches(type_name, handler_name):
    seen = [type_name]
    while seen:
        t = seen.pop()
        if t == handler_name:
            return True
        seen.extend(EXC_PARENTS.get(t, ["Exception"] if t not in ("BaseException",) and t not in EXC_PARENTS else []))
    return False


# --------------------------------------------------------------------------
# symbolic-length sequences

class SymSeq:
    """A numpy-array-like / list-like sequence of symbolic length.

    view: element i (0 <= i < length) is Select(arr, offset + i).  Arrays are values
    (numpy arrays are only re-bound in the code under contract); in-place element
    assignment produces a new array term stored in the same SymSeq object.
    """

    def __init__(self, arr, length, kind="r", offset=0, name="seq"):
        self.arr = arr
        self.length = length        # Sym int or int
        self.kind = kind
        self.offset = offset        # Sym int or int
        self.name = name

    def _idx(self, i):
        from .sym import add
        return add(self.offset, i)

    def norm_index(self, i):
        """Python index normalisation with bounds check (forks to IndexError)."""
        from .sym import add, Or
        n = self.length
        if not is_sym(i) and isinstance(i, int) and i < 0:
            j = add(n, i)
            ok = compare(j, 0, ">=")
        elif is_sym(i):
            neg = compare(i, 0, "<")
            if bool(neg):
                j = add(n, i)
                ok = compare(j, 0, ">=")
            else:
                j = i
                ok = compare(j, n, "<")
        else:
            j = i
            ok = compare(j, n, "<")
        if not bool(ok):
            raise PyRaise("IndexError", "index out of bounds")
        return j

    def get(self, i):
        j = self.norm_index(i)
        return self.raw(j)

    def raw(self, j):
        """Element at normalised index j, no bounds check."""
        k = lift(self._idx(j))
        return Sym(z3.Select(self.arr, as_int_term(k)), self.kind)

    def set(self, i, v):
        j = self.norm_index(i)
        k = lift(self._idx(j))
        v = lift(v)
        vt = as_real_term(v) if self.kind == "r" else as_int_term(v)
        self.arr = z3.Store(self.arr, as_int_term(k), vt)

    def slice(self, lo, hi):
        """seq[lo:hi] with concrete-or-symbolic bounds already normalised to 0 <= lo <= hi <= len."""
        from .sym import add, sub
        return SymSeq(self.arr, sub(hi, lo), self.kind, add(self.offset, lo), self.name)

    @property
    def size(self):
        return self.length

    @property
    def shape(self):
        return (self.length,)

    def __len__(self):
        raise Unsupported("native len() of a symbolic-length sequence")


def model_value(model, v):
    """Evaluate an input value (Sym / tuple / list / Obj / SymSeq) in a z3 model -> plain Python."""
    if isinstance(v, Sym):
        t = model.eval(v.t, model_completion=True)
        if z3.is_int_value(t):
            return t.as_long()
        if z3.is_rational_value(t):
            return {"num": str(t.numerator_as_long()), "den": str(t.denominator_as_long()),
                    "float": float(Fraction(t.numerator_as_long(), t.denominator_as_long()))}
        if z3.is_algebraic_value(t):
            a = t.approx(20)
            return {"float": float(Fraction(a.numerator_as_long(), a.denominator_as_long())), "algebraic": str(t)}
        if z3.is_true(t):
            return True
        if z3.is_false(t):
            return False
        return str(t)
    if isinstance(v, (tuple, list)):
        return [model_value(model, x) for x in v]
    if isinstance(v, dict):
        return {k: model_value(model, x) for k, x in v.items()}
    if isinstance(v, Obj):
        return {"__class__": v.cls.fq, **{k: model_value(model, x) for k, x in v.fields.items()}}
    if isinstance(v, SymSeq):
        n = model_value(model, lift(v.length))
        if isinstance(n, int) and 0 <= n <= 64:
            return [model_value(model, v.raw(i)) for i in range(n)]
        return {"length": n}
    import numpy as np
    if isinstance(v, np.ndarray):
        return [model_value(model, x) for x in v.tolist()]
    if isinstance(v, (int, float, str, bool)) or v is None:
        return v
    return repr(v)
