"""Tree-walking interpreter for the Python subset used by rpylib, over symbolic values.

The interpreter reads the real source files under the repository root on every run
and executes the `ast` of the function under verification.  What it deliberately
does NOT do (reported as `dropped` in the evidence): generator functions are evaluated
eagerly into lists, type annotations and docstrings are ignored, `abc`/`typing`
machinery is ignored.  Memoising decorators used as `@lru_cache(...)` / `@cache` on a
`def` are modelled (run_memoised: unbounded store, no eviction).
"""
from __future__ import annotations

import ast
import hashlib
import os
import sys

import numpy as np

from . import ctx
from .sym import (Sym, Unsupported, PyRaise, is_sym, is_num, add, sub, mul, truediv, floordiv, mod, power, compare,
                  And, Or, Not, If, lift, concrete_value, to_int_trunc, to_real, as_bool_term)
from .values import (Opaque, Env, FuncVal, ClassVal, Obj, EnumMember, BoundMethod, SuperProxy, ModuleVal, PartialVal,
                     ExcInstance, ExcClass, exc_matches, SymSeq)
from .path import PathEnd

sys.setrecursionlimit(20000)


class _Return(Exception):
    def __init__(self, value):
        self.value = value


class _Break(Exception):
    pass


class _Continue(Exception):
    pass


class Frame:
    def __init__(self, func, env):
        self.func = func
        self.env = env
        self.yields = None
        self.loop_counter = 0


class LoopSpec:
    """Inductive cut of the k-th loop (source order) of a function.

    invariant(L, g): formula/list over the frame locals `L` (attribute access) and the ghost dict `g`
    decreases(L): optional integer measure
    havoc: optional {name: shape-fn(path, old_value) -> new value} overriding the default havoc
    extra_modified: names to havoc although not syntactically assigned
    ghost_step(L, g): executed at the end of each iteration (before re-checking the invariant)
    index: name of the ghost loop index made available as L.<index> for `for` loops (default "_i")
    """

    def __init__(self, invariant, decreases=None, havoc=None, extra_modified=(), ghost_step=None, index="_i",
                 label=None, keep=()):
        self.invariant = invariant
        self.decreases = decreases
        self.havoc = havoc or {}
        self.extra_modified = tuple(extra_modified)
        self.ghost_step = ghost_step
        self.index = index
        self.label = label
        self.keep = tuple(keep)


class Locals:
    """Attribute view of a frame's local variables for contract code."""

    def __init__(self, env, frame=None):
        object.__setattr__(self, "_env", env)
        object.__setattr__(self, "_frame", frame)

    def __getattr__(self, name):
        try:
            return self._env.lookup(name)
        except KeyError:
            raise AttributeError(name)

    def __setattr__(self, name, value):
        self._env.assign(name, value)

    def __contains__(self, name):
        try:
            self._env.lookup(name)
            return True
        except KeyError:
            return False


BINOPS = {
    ast.Add: add, ast.Sub: sub, ast.Mult: mul, ast.Div: truediv, ast.FloorDiv: floordiv, ast.Mod: mod, ast.Pow: power,
}
DUNDER = {ast.Add: "add", ast.Sub: "sub", ast.Mult: "mul", ast.Div: "truediv", ast.FloorDiv: "floordiv",
          ast.Mod: "mod", ast.Pow: "pow", ast.MatMult: "matmul", ast.BitAnd: "and", ast.BitOr: "or"}
CMPOPS = {ast.Lt: "<", ast.LtE: "<=", ast.Gt: ">", ast.GtE: ">=", ast.Eq: "==", ast.NotEq: "!="}


def _scalar(x):
    return is_sym(x) or isinstance(x, (int, float, bool, np.integer, np.floating, np.bool_)) or x is None


class Interp:
    def __init__(self, repo_root="/repo"):
        self.repo_root = repo_root
        self.modules: dict[str, ModuleVal] = {}
        self.modular: dict[str, object] = {}      # fq -> contract object with .modular_call(interp, f, bound)
        self.hooks: dict[str, object] = {}        # fq -> callable(interp, f, bound) replacing the body
        self.loop_specs: dict[tuple, LoopSpec] = {}
        self.frames: list[Frame] = []
        self.executed: dict[str, dict] = {}       # fq -> info (hash, dropped) of every function body executed
        self.transparent_only: set | None = None  # if set: calling an rpylib function outside it is Unsupported
        self.max_unroll = 400
        self.assign_hooks: dict[tuple, object] = {}  # (fq, variable) -> callable(L, vc): proof hints after an assignment
        from . import lib
        self.lib = lib
        self.builtins = lib.make_builtins(self)
        self.externals = lib.make_externals(self)

    # ------------------------------------------------------------------ modules
    def module_path(self, name):
        p = os.path.join(self.repo_root, *name.split("."))
        if os.path.isdir(p):
            return os.path.join(p, "__init__.py"), True
        return p + ".py", False

    def load_module(self, name) -> ModuleVal:
        if name in self.modules:
            return self.modules[name]
        path, is_pkg = self.module_path(name)
        if not os.path.exists(path):
            if is_pkg:      # namespace package (directory without __init__.py): an empty module whose attributes are sub-modules
                m = ModuleVal(name, path)
                m.is_pkg, m.loaded, m.source = True, True, ""
                m.env.vars["__name__"] = name
                self.modules[name] = m
                return m
            raise Unsupported(f"module {name} not found under {self.repo_root}")
        m = ModuleVal(name, path)
        m.is_pkg = is_pkg
        self.modules[name] = m
        m.source = open(path, encoding="utf-8").read()
        m.tree = ast.parse(m.source)
        m.env.vars["__name__"] = name
        saved = ctx.PATH
        for st in m.tree.body:
            try:
                self.exec_stmt(st, m.env, m)
            except (Unsupported, PyRaise) as e:
                for n in ast.walk(st):
                    if isinstance(n, ast.Name) and isinstance(n.ctx, ast.Store):
                        m.env.vars[n.id] = Opaque(f"{name}.{n.id}: {e}")
        m.loaded = True
        self.snapshot_static_state(m)
        return m

    # module-level and class-level mutable containers (a class attribute used as a memo, a module dict of results, a default
    # argument) are part of the program state: every path must start from the state the import left, not from what the
    # previous path (or unit) of this worker process wrote into them
    def snapshot_static_state(self, m):
        import collections
        snaps = self.__dict__.setdefault("static_snapshots", [])
        kinds = (dict, list, set, collections.deque, np.ndarray)

        def snap(holder, key, v):
            if isinstance(v, kinds) and not any(s[2] is v for s in snaps):
                try:
                    import copy as _c
                    snaps.append((holder, key, v, _c.copy(v)))
                except Exception:
                    pass
        for k, v in list(m.env.vars.items()):
            snap(m.env.vars, k, v)
            if isinstance(v, ClassVal):
                for ck, cv in list(v.ns.items()):
                    snap(v.ns, ck, cv)
                    if isinstance(cv, FuncVal):
                        for i, dv in enumerate(getattr(cv, "defaults", []) or []):
                            snap(cv.defaults, i, dv)
            if isinstance(v, FuncVal):
                for i, dv in enumerate(getattr(v, "defaults", []) or []):
                    snap(v.defaults, i, dv)

    def reset_static_state(self):
        import collections
        for holder, key, obj, pristine in self.__dict__.get("static_snapshots", []):
            try:
                if isinstance(obj, dict):
                    if obj != pristine:
                        obj.clear(); obj.update(pristine)
                elif isinstance(obj, list):
                    if obj != pristine:
                        obj[:] = pristine
                elif isinstance(obj, set):
                    if obj != pristine:
                        obj.clear(); obj.update(pristine)
                elif isinstance(obj, collections.deque):
                    if list(obj) != list(pristine):
                        obj.clear(); obj.extend(pristine)
                elif isinstance(obj, np.ndarray):
                    if obj.shape == pristine.shape:
                        obj[...] = pristine
                holder[key] = obj          # a rebound name goes back to the original container
            except Exception:
                pass
        self.memo_store = {}

    def resolve_import(self, module: ModuleVal, modname, level):
        if level:
            parts = module.name.split(".")
            if not getattr(module, "is_pkg", False):
                parts = parts[:-1]
            if level > 1:
                parts = parts[: -(level - 1)]
            full = ".".join(parts + ([modname] if modname else []))
        else:
            full = modname
        return full

    def import_module(self, full):
        root = full.split(".")[0]
        if root == "rpylib":
            return self.load_module(full)
        if full in self.externals:
            return self.externals[full]
        return Opaque(f"module {full}")

    def get_function(self, fq) -> FuncVal:
        """'rpylib.distribution.pairing:Szudzik.projection2d' -> FuncVal (methods unbound)."""
        modname, qual = fq.split(":")
        m = self.load_module(modname)
        parts = qual.split(".")
        try:
            v = m.env.lookup(parts[0])
        except KeyError:
            raise Unsupported(f"{fq}: name {parts[0]} not found (renamed or removed?)")
        for p in parts[1:]:
            if isinstance(v, ClassVal):
                if p.startswith("__") and not p.endswith("__"):
                    p = f"_{v.name.lstrip('_')}{p}"
                w, _ = v.find(p)
                if w is None:
                    raise Unsupported(f"{fq}: {p} not found")
                v = w
            else:
                raise Unsupported(f"{fq}: cannot descend into {v!r}")
        return v

    def get_class(self, fq) -> ClassVal:
        v = self.get_function(fq)
        if not isinstance(v, ClassVal):
            raise Unsupported(f"{fq} is not a class")
        return v

    # ------------------------------------------------------------------ statements
    def exec_block(self, stmts, env, module):
        for st in stmts:
            self.exec_stmt(st, env, module)

    def exec_stmt(self, st, env, module):
        m = getattr(self, "s_" + type(st).__name__, None)
        if m is None:
            raise Unsupported(f"statement {type(st).__name__} (line {getattr(st, 'lineno', '?')} of {module.name})")
        return m(st, env, module)

    def s_Pass(self, st, env, module):
        pass

    def s_Expr(self, st, env, module):
        if isinstance(st.value, ast.Constant):
            return  # docstring
        self.eval(st.value, env, module)

    def s_Import(self, st, env, module):
        for a in st.names:
            full = a.name
            if a.asname:
                env.assign(a.asname, self.import_module(full))
            else:
                root = full.split(".")[0]
                if root != "rpylib":
                    env.assign(root, self.import_module(root))
                else:
                    # `import rpylib.a.b` binds the top-level package; sub-modules resolve through attribute access
                    self.import_module(full)
                    try:
                        env.assign(root, self.import_module(root))
                    except Unsupported:
                        env.assign(root, self.import_module(full))

    def s_ImportFrom(self, st, env, module):
        full = self.resolve_import(module, st.module, st.level)
        if len(st.names) == 1 and st.names[0].name == "*":
            if full.split(".")[0] == "rpylib":
                m = self.load_module(full)
                names = m.env.vars.get("__all__") or [k for k in m.env.vars if not k.startswith("_")]
                for k in names:
                    env.assign(k, m.env.vars[k])
                return
            raise Unsupported(f"star import from {full}")
        for a in st.names:
            name = a.asname or a.name
            if full.split(".")[0] == "rpylib":
                # submodule or attribute
                try:
                    path, _ = self.module_path(full + "." + a.name)
                    if os.path.exists(path):
                        env.assign(name, self.load_module(full + "." + a.name))
                        continue
                    m = self.load_module(full)
                    env.assign(name, m.env.lookup(a.name))
                except (KeyError, Unsupported) as e:
                    env.assign(name, Opaque(f"{full}.{a.name}: {e}"))
            else:
                ext = self.externals.get(full)
                if ext is None:
                    env.assign(name, Opaque(f"{full}.{a.name}"))
                else:
                    env.assign(name, self.getattr(ext, a.name))

    def s_Global(self, st, env, module):
        env.globals_.update(st.names)

    def s_Nonlocal(self, st, env, module):
        env.nonlocals.update(st.names)

    def s_FunctionDef(self, st, env, module):
        f = self.make_function(st, env, module)
        # singledispatch registration:  @name.register
        for d in st.decorator_list:
            if isinstance(d, ast.Attribute) and d.attr == "register" and isinstance(d.value, ast.Name):
                try:
                    base = env.lookup(d.value.id)
                except KeyError:
                    raise Unsupported(f"register on unknown {d.value.id}")
                if not isinstance(base, FuncVal):
                    raise Unsupported("register on a non-function")
                # dispatch on the annotation of the first non-self parameter
                params = st.args.args
                idx = 1 if (env.kind == "class") else 0
                ann = params[idx].annotation
                tname = ast.unparse(ann) if ann is not None else "object"
                if base.dispatch is None:
                    base.dispatch = {}
                base.dispatch[tname] = f
                f.qualname = f"{base.qualname}.register[{tname}]"
                if st.name != "_" and st.name != base.name:
                    env.assign(st.name, f)
                return
        env.assign(st.name, f)

    s_AsyncFunctionDef = None

    def make_function(self, st, env, module, name=None):
        qual = self.qualname_for(env, name or getattr(st, "name", "<lambda>"))
        f = FuncVal(st, env, module, qual)
        args = st.args
        f.defaults = [self.eval(d, env, module) for d in args.defaults]
        f.kw_defaults = {a.arg: self.eval(d, env, module) for a, d in zip(args.kwonlyargs, args.kw_defaults) if d is not None}
        if isinstance(st, ast.FunctionDef):
            f.is_generator = any(isinstance(n, (ast.Yield, ast.YieldFrom)) for n in self.walk_own(st))
            for d in st.decorator_list:
                dn = ast.unparse(d)
                base = dn.split("(")[0]
                if base in ("staticmethod",):
                    f.kind = "static"
                elif base in ("classmethod",):
                    f.kind = "classmethod"
                elif base in ("property",):
                    f.kind = "property"
                elif base in ("cached_property", "functools.cached_property"):
                    f.kind = "cached_property"
                elif base in ("lru_cache", "cache", "functools.lru_cache", "functools.cache"):
                    f.memoised = dn          # modelled in run_memoised: same arguments -> the stored result (a stale entry is visible)
                elif base in ("abc.abstractmethod", "abstractmethod"):
                    f.dropped.append(dn)
                elif base in ("singledispatchmethod", "singledispatch", "functools.singledispatch"):
                    f.dispatch = {}
                elif base.endswith(".register"):
                    pass
                elif base.endswith(".setter"):
                    raise Unsupported("property setter")
                else:
                    f.decorators = getattr(f, "decorators", []) + [d]
        return f

    @staticmethod
    def walk_own(fnode):
        """ast.walk that does not descend into nested function/class definitions."""
        stack = list(fnode.body)
        while stack:
            n = stack.pop()
            yield n
            for c in ast.iter_child_nodes(n):
                if isinstance(c, (ast.FunctionDef, ast.Lambda, ast.ClassDef, ast.AsyncFunctionDef)):
                    continue
                stack.append(c)

    def qualname_for(self, env, name):
        parts = [name]
        e = env
        while e is not None and e.kind != "module":
            q = getattr(e, "qual", None) if hasattr(e, "qual") else None
            e = e.parent
        # simple scheme: environments carry their qual prefix in vars['__qual__']
        prefix = self._qual_prefix(env)
        return prefix + name

    def _qual_prefix(self, env):
        e = env
        while e is not None:
            if "__qual__" in e.vars:
                return e.vars["__qual__"]
            e = e.parent
        return ""

    def s_ClassDef(self, st, env, module):
        bases = []
        is_enum = False
        int_enum = False          # IntEnum members behave as ints: kept as plain ints
        is_exc = False
        for b in st.bases:
            try:
                bv = self.eval(b, env, module)
            except Unsupported:
                bv = Opaque(ast.unparse(b))
            bn = ast.unparse(b)
            if bn in ("IntEnum", "enum.IntEnum"):
                int_enum = True
            elif bn in ("Enum", "enum.Enum"):
                is_enum = True
            if isinstance(bv, ExcClass):
                is_exc = True
            bases.append(bv)
        cls = ClassVal(st.name, module, bases, self._qual_prefix(env) + st.name)
        cls.is_enum = (is_enum or any(isinstance(b, ClassVal) and b.is_enum for b in bases)) and not int_enum
        cls.is_exception = is_exc or any(isinstance(b, ClassVal) and b.is_exception for b in bases)
        cenv = Env(env, "class")
        cenv.cls_name = st.name
        cenv.vars["__qual__"] = cls.qualname + "."
        self.exec_block(st.body, cenv, module)
        for k, v in cenv.vars.items():
            if k == "__qual__":
                continue
            if isinstance(v, FuncVal) and v.cls is None and v.env is cenv:
                v.cls = cls
                if v.dispatch:
                    for g in v.dispatch.values():
                        g.cls = cls
            if cls.is_enum and not k.startswith("_") and not isinstance(v, (FuncVal, ClassVal)):
                v = EnumMember(cls, k, v)
            if k.startswith("__") and not k.endswith("__"):
                k = f"_{st.name.lstrip('_')}{k}"       # private name mangling
            cls.ns[k] = v
        if st.decorator_list:
            for d in st.decorator_list:
                dn = ast.unparse(d)
                if dn.startswith("dataclass"):
                    raise Unsupported("dataclass")
                deco = self.eval(d, env, module)
                r = self.call(deco, [cls], {})
                if r is not None:
                    cls = r
        env.assign(st.name, cls)

    def s_Return(self, st, env, module):
        raise _Return(self.eval(st.value, env, module) if st.value is not None else None)

    def s_Assign(self, st, env, module):
        v = self.eval(st.value, env, module)
        for t in st.targets:
            self.assign_target(t, v, env, module)
        if self.assign_hooks and self.frames:
            fq = self.frames[-1].func.fq
            for t in st.targets:
                for n in ast.walk(t):
                    if isinstance(n, ast.Name) and (fq, n.id) in self.assign_hooks:
                        from .contract import VC
                        self.assign_hooks[(fq, n.id)](Locals(env), VC(ctx.PATH, self))

    def s_AnnAssign(self, st, env, module):
        if st.value is not None:
            self.assign_target(st.target, self.eval(st.value, env, module), env, module)

    def s_AugAssign(self, st, env, module):
        t = st.target
        # evaluate target as load
        load = ast.copy_location(self._as_load(t), t)
        cur = self.eval(load, env, module)
        rhs = self.eval(st.value, env, module)
        # in-place dunder on objects
        if isinstance(cur, Obj):
            name = "__i" + DUNDER[type(st.op)] + "__"
            meth, _ = cur.cls.find(name)
            if meth is not None:
                v = self.call_function(meth, [cur, rhs], {})
                self.assign_target(t, v, env, module)
                return
        if isinstance(cur, list) and isinstance(st.op, ast.Add):
            cur.extend(self.iterate(rhs))
            return
        v = self.binop(type(st.op), cur, rhs)
        if isinstance(cur, np.ndarray) and isinstance(v, np.ndarray) and v.shape == cur.shape:
            # numpy's augmented assignment works IN PLACE: every alias / view of the array sees the update
            ok = cur.dtype == object or (v.dtype != object and not (cur.dtype.kind in "iub" and v.dtype.kind in "fc"))
            if ok and cur.flags.writeable:
                cur[...] = v
                if not isinstance(t, ast.Name):
                    self.assign_target(t, cur, env, module)
                return
        self.assign_target(t, v, env, module)

    @staticmethod
    def _as_load(t):
        import copy
        n = copy.copy(t)
        n.ctx = ast.Load()
        return n

    def assign_target(self, t, v, env, module):
        if isinstance(t, ast.Name):
            env.assign(t.id, v)
        elif isinstance(t, (ast.Tuple, ast.List)):
            vals = list(self.iterate(v))
            star = [i for i, e in enumerate(t.elts) if isinstance(e, ast.Starred)]
            if star:
                i = star[0]
                after = len(t.elts) - i - 1
                if len(vals) < len(t.elts) - 1:
                    raise PyRaise("ValueError", "not enough values to unpack")
                for e, x in zip(t.elts[:i], vals[:i]):
                    self.assign_target(e, x, env, module)
                self.assign_target(t.elts[i].value, vals[i: len(vals) - after], env, module)
                for e, x in zip(t.elts[i + 1:], vals[len(vals) - after:]):
                    self.assign_target(e, x, env, module)
            else:
                if len(vals) != len(t.elts):
                    raise PyRaise("ValueError", f"cannot unpack {len(vals)} values into {len(t.elts)}")
                for e, x in zip(t.elts, vals):
                    self.assign_target(e, x, env, module)
        elif isinstance(t, ast.Attribute):
            o = self.eval(t.value, env, module)
            self.setattr(o, self.mangle(t.attr, env), v)
        elif isinstance(t, ast.Subscript):
            o = self.eval(t.value, env, module)
            idx = self.eval_index(t.slice, env, module)
            self.setitem(o, idx, v)
        else:
            raise Unsupported(f"assignment target {type(t).__name__}")

    def s_If(self, st, env, module):
        if self.truth(self.eval(st.test, env, module)):
            self.exec_block(st.body, env, module)
        else:
            self.exec_block(st.orelse, env, module)

    def s_Assert(self, st, env, module):
        if not self.truth(self.eval(st.test, env, module)):
            raise PyRaise("AssertionError", ast.unparse(st.test))

    def s_Raise(self, st, env, module):
        if st.exc is None:
            raise self._current_exc
        v = self.eval(st.exc, env, module)
        if isinstance(v, ExcClass):
            raise PyRaise(v.name, "")
        if isinstance(v, ExcInstance):
            raise PyRaise(v.type_name, " ".join(str(a) for a in v.args), v)
        if isinstance(v, ClassVal) and v.is_exception:
            raise PyRaise(v.name, "")
        if isinstance(v, Obj) and v.cls.is_exception:
            raise PyRaise(v.cls.name, "", v)
        raise Unsupported(f"raise of {v!r}")

    def s_Try(self, st, env, module):
        try:
            try:
                self.exec_block(st.body, env, module)
            except PyRaise as e:
                for h in st.handlers:
                    names = []
                    if h.type is None:
                        names = ["BaseException"]
                    elif isinstance(h.type, ast.Tuple):
                        names = [ast.unparse(x).split(".")[-1] for x in h.type.elts]
                    else:
                        names = [ast.unparse(h.type).split(".")[-1]]
                    if any(exc_matches(e.exc_type, n) for n in names):
                        if h.name:
                            env.assign(h.name, e.value or ExcInstance(e.exc_type, (e.msg,)))
                        saved = getattr(self, "_current_exc", None)
                        self._current_exc = e
                        try:
                            self.exec_block(h.body, env, module)
                        finally:
                            self._current_exc = saved
                        break
                else:
                    raise
            else:
                self.exec_block(st.orelse, env, module)
        finally:
            if st.finalbody:
                self.exec_block(st.finalbody, env, module)

    def s_Delete(self, st, env, module):
        for t in st.targets:
            if isinstance(t, ast.Name):
                env.vars.pop(t.id, None)
            elif isinstance(t, ast.Subscript):
                o = self.eval(t.value, env, module)
                idx = self.eval_index(t.slice, env, module)
                del o[idx]
            else:
                raise Unsupported("del target")

    def s_Break(self, st, env, module):
        raise _Break()

    def s_Continue(self, st, env, module):
        raise _Continue()

    def s_With(self, st, env, module):
        """context managers: interpreter objects through their __enter__/__exit__ methods, native objects (incl. the
        abstractions a contract installs for a library class) through the Python protocol; exceptions are re-raised after
        __exit__ (no suppression modelled)"""
        managers = []
        for item in st.items:
            cm = self.eval(item.context_expr, env, module)
            if isinstance(cm, Obj):
                val = self.call(self.getattr(cm, "__enter__"), [], {})
            elif hasattr(cm, "__enter__"):
                val = cm.__enter__()
            else:
                raise Unsupported(f"with statement on {type(cm).__name__}")
            managers.append(cm)
            if item.optional_vars is not None:
                self.assign_target(item.optional_vars, val, env, module)
        try:
            self.exec_block(st.body, env, module)
        finally:
            for cm in reversed(managers):
                if isinstance(cm, Obj):
                    self.call(self.getattr(cm, "__exit__"), [None, None, None], {})
                else:
                    cm.__exit__(None, None, None)

    # ---- loops
    def _loop_spec(self, node):
        if not self.frames:
            return None, None
        fr = self.frames[-1]
        loops = getattr(fr.func, "_loops", None)
        if loops is None:
            loops = [n for n in ast.walk(fr.func.node) if isinstance(n, (ast.For, ast.While))]
            loops.sort(key=lambda n: (n.lineno, n.col_offset))
            fr.func._loops = loops
        try:
            k = loops.index(node)
        except ValueError:
            return None, None
        return self.loop_specs.get((fr.func.fq, k)), k

    def s_While(self, st, env, module):
        spec, k = self._loop_spec(st)
        if spec is not None:
            return self.cut_loop(st, env, module, spec, k, None)
        n = 0
        while self.truth(self.eval(st.test, env, module)):
            n += 1
            if n > self.max_unroll:
                raise Unsupported(f"while loop at line {st.lineno} of {module.name} unrolled more than {self.max_unroll} times (needs an invariant)")
            try:
                self.exec_block(st.body, env, module)
            except _Break:
                break
            except _Continue:
                continue
        else:
            self.exec_block(st.orelse, env, module)

    def s_For(self, st, env, module):
        spec, k = self._loop_spec(st)
        it = self.eval(st.iter, env, module)
        if spec is not None:
            return self.cut_loop(st, env, module, spec, k, it)
        n = 0
        for x in self.iterate(it):
            n += 1
            if n > self.max_unroll * 25:
                raise Unsupported("for loop too long to unroll")
            self.assign_target(st.target, x, env, module)
            try:
                self.exec_block(st.body, env, module)
            except _Break:
                break
            except _Continue:
                continue
        else:
            self.exec_block(st.orelse, env, module)

    def assigned_names(self, stmts):
        names, attrs = [], []
        for st in stmts:
            for n in ast.walk(st):
                if isinstance(n, ast.Name) and isinstance(n.ctx, ast.Store) and n.id not in names:
                    names.append(n.id)
                elif isinstance(n, ast.Attribute) and isinstance(n.ctx, ast.Store):
                    attrs.append(n)
                elif isinstance(n, ast.Subscript) and isinstance(n.ctx, ast.Store) and isinstance(n.value, ast.Name):
                    if n.value.id not in names:
                        names.append(n.value.id)
        return names, attrs

    def havoc_like(self, path, name, v):
        if isinstance(v, Sym):
            return path.fresh(name, v.k)
        if isinstance(v, bool):
            return path.fresh(name, "b")
        if isinstance(v, (int, np.integer)):
            return path.fresh(name, "i")
        if isinstance(v, (float, np.floating)):
            return path.fresh(name, "r")
        if isinstance(v, tuple):
            return tuple(self.havoc_like(path, f"{name}_{i}", x) for i, x in enumerate(v))
        if isinstance(v, SymSeq):
            import z3
            self_len = path.fresh(name + "_len", "i")
            path.assume(compare(self_len, 0, ">="))
            arr = z3.Array(f"{name}!arr{path.fresh_ctr}", z3.IntSort(), z3.RealSort() if v.kind == "r" else z3.IntSort())
            return SymSeq(arr, self_len, v.kind, 0, name)
        if v is None:
            return None
        raise Unsupported(f"cannot havoc {name} of type {type(v).__name__}; give a havoc shape in the loop spec")

    def cut_loop(self, st, env, module, spec: LoopSpec, k, iterable):
        """Inductive treatment of a loop: establish / (havoc, assume, body, preserve) / (havoc, assume, exit)."""
        path = ctx.PATH
        fr = self.frames[-1]
        fq = fr.func.fq
        lab = spec.label or f"{fq}#loop{k}"
        L = Locals(env, fr)
        g = path.ghost
        is_for = isinstance(st, ast.For)
        n_iter = None
        if is_for:
            n_iter = self.length_of(iterable)
            env.assign_local(spec.index, 0)
        inv0 = spec.invariant(L, g)
        path.check(f"{lab}.establish", inv0)
        names, attrs = self.assigned_names(st.body)
        if is_for:
            tn, _ = self.assigned_names([ast.Assign(targets=[st.target], value=ast.Constant(0))])
            names = [n for n in names if n not in tn] + []
        names = [n for n in names if n not in spec.keep] + [n for n in spec.extra_modified if n not in names]
        choice = path.choose(2)
        # havoc
        for n in names:
            try:
                cur = env.lookup(n)
            except KeyError:
                cur = None
                if n not in spec.havoc:
                    continue  # variable first assigned inside the body: no value to havoc
            if n in spec.havoc:
                env.assign(n, spec.havoc[n](path, cur))
            else:
                env.assign(n, self.havoc_like(path, n, cur))
        for a in attrs:
            key = ast.unparse(a)
            if key in spec.havoc:
                o = self.eval(a.value, env, module)
                self.setattr(o, self.mangle(a.attr, env), spec.havoc[key](path, self.getattr(o, self.mangle(a.attr, env))))
            elif key not in spec.keep:
                o = self.eval(a.value, env, module)
                cur = self.getattr(o, self.mangle(a.attr, env))
                self.setattr(o, self.mangle(a.attr, env), self.havoc_like(path, a.attr, cur))
        if "__ghost__" in spec.havoc:
            spec.havoc["__ghost__"](path, g)
        if is_for:
            i = path.fresh(spec.index, "i")
            path.assume(compare(i, 0, ">="))
            path.assume(compare(i, n_iter, "<="))
            env.assign_local(spec.index, i)
        path.assume(spec.invariant(L, g))
        if choice == 0:
            # arbitrary iteration
            if is_for:
                if not self.truth(compare(i, n_iter, "<")):
                    raise PathEnd("loop: no further iteration")
                self.assign_target(st.target, self.element_at(iterable, i), env, module)
            else:
                if not self.truth(self.eval(st.test, env, module)):
                    raise PathEnd("loop: guard false")
            measure0 = spec.decreases(L) if spec.decreases else None
            try:
                self.exec_block(st.body, env, module)
            except _Break:
                return  # a real exit from an arbitrary iteration: continue after the loop
            except _Continue:
                pass
            if is_for:
                env.assign_local(spec.index, add(i, 1))
            if spec.ghost_step:
                spec.ghost_step(L, g)
            path.check(f"{lab}.preserve", spec.invariant(L, g))
            if spec.decreases:
                m1 = spec.decreases(L)
                path.check(f"{lab}.decreases", And(compare(m1, measure0, "<"), compare(measure0, 0, ">=")))
            raise PathEnd("loop cut")
        else:
            if is_for:
                path.assume(compare(i, n_iter, "=="))
            else:
                if self.truth(self.eval(st.test, env, module)):
                    raise PathEnd("loop: guard still true")
            self.exec_block(st.orelse, env, module)

    # ------------------------------------------------------------------ helpers on values
    def truth(self, v):
        if isinstance(v, Sym):
            return bool(v)
        if isinstance(v, (bool, int, float, str)) or v is None:
            return bool(v)
        if isinstance(v, Obj):
            m, _ = v.cls.find("__bool__")
            if m is not None:
                return self.truth(self.call_function(m, [v], {}))
            m, _ = v.cls.find("__len__")
            if m is not None:
                return self.truth(compare(self.call_function(m, [v], {}), 0, "!="))
            return True
        if isinstance(v, SymSeq):
            raise PyRaise("ValueError", "truth value of an array is ambiguous")
        if isinstance(v, np.ndarray):
            if v.size > 1:
                raise PyRaise("ValueError", "The truth value of an array with more than one element is ambiguous")
            if v.size == 0:
                return False
            return self.truth(v.reshape(-1)[0])
        if isinstance(v, Opaque):
            raise Unsupported(f"truth of {v}")
        try:
            return bool(v)
        except Exception as e:
            raise Unsupported(f"truth of {type(v).__name__}: {e}")

    def length_of(self, v):
        if isinstance(v, SymSeq):
            return v.length
        if isinstance(v, self.lib.SymRange):
            return v.length()
        if isinstance(v, self.lib.SymZip):
            return v.length()
        if isinstance(v, self.lib.SymEnumerate):
            return self.length_of(v.inner)
        if isinstance(v, Obj):
            m, _ = v.cls.find("__len__")
            if m is None:
                raise PyRaise("TypeError", f"object of type {v.cls.name} has no len()")
            return self.call_function(m, [v], {})
        try:
            return len(v)
        except TypeError:
            return len(list(v))

    def element_at(self, v, i):
        if isinstance(v, SymSeq):
            return v.raw(i)
        if isinstance(v, (self.lib.SymRange, self.lib.SymZip, self.lib.SymEnumerate)):
            return v.at(self, i)
        return self.getitem(v, i)

    def iterate(self, v):
        if isinstance(v, (list, tuple, range, str, dict, set, frozenset)):
            return iter(v)
        if isinstance(v, np.ndarray):
            if v.ndim == 0:
                raise PyRaise("TypeError", "iteration over a 0-d array / numpy scalar")
            return iter(v) if v.ndim != 1 else iter(v.tolist() if v.dtype == object else list(v))
        if isinstance(v, Obj):
            m, _ = v.cls.find("__iter__")
            if m is None:
                gi, _ = v.cls.find("__getitem__")
                if gi is None:
                    raise PyRaise("TypeError", f"{v.cls.name} object is not iterable")
                n = self.length_of(v)
                nv = concrete_value(n)
                if nv is None:
                    raise Unsupported("iteration over object of symbolic length")
                return iter([self.call_function(gi, [v, i], {}) for i in range(nv)])
            return iter(self.iterate(self.call_function(m, [v], {})))
        if isinstance(v, SymSeq):
            n = concrete_value(v.length)
            if n is None:
                raise Unsupported(f"iteration over a sequence of symbolic length ({v.name}) needs a loop invariant")
            return iter([v.raw(i) for i in range(n)])
        if isinstance(v, (self.lib.SymRange, self.lib.SymZip, self.lib.SymEnumerate)):
            n = concrete_value(v.length())
            if n is None:
                raise Unsupported("iteration over a symbolic-length range/zip needs a loop invariant")
            return iter([v.at(self, i) for i in range(n)])
        if isinstance(v, Opaque):
            raise Unsupported(f"iteration over {v}")
        if isinstance(v, Sym):
            raise PyRaise("TypeError", "symbolic scalar is not iterable")
        try:
            return iter(v)
        except TypeError as e:
            raise PyRaise("TypeError", str(e))

    def mangle(self, attr, env):
        if attr.startswith("__") and not attr.endswith("__"):
            c = env.lexical_class()
            if c:
                return f"_{c.lstrip('_')}{attr}"
        return attr

    # ---- attribute access
    def getattr(self, o, name):
        if isinstance(o, Obj):
            if name in o.fields:
                return o.fields[name]
            if name == "__class__":
                return o.cls
            if name == "__dict__":
                return o.fields
            v, c = o.cls.find(name)
            if c is None and name == "__setattr__":
                return self.lib.Model(lambda interp, k, val: interp.setattr(o, k, val), "object.__setattr__")
            if c is None:
                ga, _ = o.cls.find("__getattr__")
                if ga is not None:
                    return self.call_function(ga, [o, name], {})
                raise PyRaise("AttributeError", f"{o.cls.name} object has no attribute {name}")
            return self.bind(v, o, c)
        if isinstance(o, ClassVal):
            if name == "__name__":
                return o.name
            v, c = o.find(name)
            if c is None:
                if name == "__new__":
                    return self.lib.ObjectNew(self)
                raise PyRaise("AttributeError", f"class {o.name} has no attribute {name}")
            if isinstance(v, FuncVal) and v.kind == "classmethod":
                return BoundMethod(v, o)
            return v
        if isinstance(o, ModuleVal):
            try:
                return o.env.lookup(name)
            except KeyError:
                # sub-module access
                try:
                    return self.load_module(o.name + "." + name)
                except Unsupported:
                    raise PyRaise("AttributeError", f"module {o.name} has no attribute {name}")
        if isinstance(o, SuperProxy):
            mro = o.obj.cls.mro() if isinstance(o.obj, Obj) else o.obj.mro()
            i = mro.index(o.after_cls)
            for c in mro[i + 1:]:
                if name in c.ns:
                    return self.bind(c.ns[name], o.obj, c)
            if name == "__init__":
                return self.lib.NOOP
            raise PyRaise("AttributeError", f"super has no {name}")
        if isinstance(o, EnumMember):
            if name in ("name", "value"):
                return getattr(o, name)
            v, c = o.cls.find(name)
            if c is not None:
                return self.bind(v, o, c)
            raise PyRaise("AttributeError", name)
        if isinstance(o, self.lib.LibModule):
            return o.get(name)
        if isinstance(o, SymSeq):
            return self.lib.symseq_attr(self, o, name)
        if isinstance(o, Sym):
            return self.lib.sym_attr(self, o, name)
        if isinstance(o, BoundMethod):
            if name == "__func__":
                return o.func
            if name == "__self__":
                return o.self_obj
        if isinstance(o, FuncVal):
            if name == "__name__":
                return o.name
            if name == "register":
                raise Unsupported("dynamic singledispatch register")
        if isinstance(o, Opaque):
            return getattr(o, name)
        if isinstance(o, ExcInstance):
            if name == "args":
                return o.args
        if isinstance(o, PartialVal):
            if name == "func":
                return o.func
        # native python objects
        if isinstance(o, np.ndarray):
            return self.lib.ndarray_attr(self, o, name)
        if isinstance(o, (list, tuple, dict, set, str, range, float, int, frozenset, bytes, complex)) or type(o).__module__ in ("collections", "fractions", "builtins", "numpy", "itertools"):
            try:
                return getattr(o, name)
            except AttributeError as e:
                raise PyRaise("AttributeError", str(e))
        if type(o).__module__.startswith("numpy.random") or type(o).__name__ == "Random":
            # a generator OBJECT (np.random.Generator / RandomState / random.Random): never run natively (the result would be
            # a concrete random number inside a symbolic run); a contract may install a ledger callback
            cb = getattr(self, "private_rng", None)
            if cb is None:
                raise Unsupported(f"random draw from a generator object ({type(o).__name__}.{name})")
            return self.lib.Model(lambda interp, *a, **k: cb(o, name, a, k), f"{type(o).__name__}.{name}")
        if type(o).__name__ in ("SpVal", "SpBool") or type(o).__module__.startswith(("scipy.stats", "contracts.")):
            try:
                return getattr(o, name)
            except AttributeError as e:
                raise PyRaise("AttributeError", str(e))
        raise Unsupported(f"attribute {name} of {type(o).__name__}")

    def bind(self, v, o, c):
        if isinstance(v, FuncVal):
            if v.kind == "static":
                return v
            if v.kind == "classmethod":
                return BoundMethod(v, o.cls if isinstance(o, Obj) else o)
            if v.kind == "property":
                return self.call_function(v, [o], {})
            if v.kind == "cached_property":
                r = self.call_function(v, [o], {})
                if isinstance(o, Obj):
                    o.fields[v.name] = r
                return r
            return BoundMethod(v, o)
        if isinstance(v, self.lib.Descriptor):
            return v.get(self, o)
        return v

    def setattr(self, o, name, v):
        if isinstance(o, Obj):
            d, c = o.cls.find(name)
            if isinstance(d, self.lib.Descriptor):
                d.set(self, o, v)
                return
            sa, _ = o.cls.find("__setattr__")
            if sa is not None:
                self.call_function(sa, [o, name, v], {})
                return
            o.fields[name] = v
            return
        if isinstance(o, ClassVal):
            o.ns[name] = v
            return
        if isinstance(o, ModuleVal):
            o.env.vars[name] = v
            return
        if isinstance(o, FuncVal):
            setattr(o, "attr_" + name, v)
            return
        raise Unsupported(f"setattr on {type(o).__name__}")

    # ---- subscripts
    def eval_index(self, node, env, module):
        if isinstance(node, ast.Slice):
            return slice(self.eval(node.lower, env, module) if node.lower else None,
                         self.eval(node.upper, env, module) if node.upper else None,
                         self.eval(node.step, env, module) if node.step else None)
        if isinstance(node, ast.Tuple):
            return tuple(self.eval_index(e, env, module) for e in node.elts)
        return self.eval(node, env, module)

    def getitem(self, o, idx):
        if isinstance(o, Obj):
            m, _ = o.cls.find("__getitem__")
            if m is None:
                raise PyRaise("TypeError", f"{o.cls.name} is not subscriptable")
            return self.call_function(m, [o, idx], {})
        if isinstance(o, SymSeq):
            return self.lib.symseq_getitem(self, o, idx)
        if isinstance(o, EnumMember):
            raise PyRaise("TypeError", "enum member not subscriptable")
        if isinstance(o, ClassVal):
            if o.is_enum:
                return o.ns[idx]
            return o  # typing generic
        if isinstance(o, Opaque):
            raise Unsupported(f"subscript of {o}")
        if isinstance(o, (self.lib.LibModule, self.lib.TypingThing)):
            return o
        if isinstance(idx, Obj):
            # e.g. axis[Coordinate1D]: numpy would call __index__
            m, _ = idx.cls.find("__index__")
            if m is None:
                raise PyRaise("TypeError", f"indices must be integers, not {idx.cls.name}")
            idx = self.call_function(m, [idx], {})
        if isinstance(o, dict) and isinstance(idx, tuple) and _symbolic_key(idx):
            k_found = self.dict_find_symbolic(o, idx)
            if k_found is not None:
                return o[k_found]
            raise PyRaise("KeyError", "tuple key with symbolic entries")
        if isinstance(idx, slice) and any(is_sym(x) for x in (idx.start, idx.stop, idx.step)):
            s = [concrete_value(x) if is_sym(x) else x for x in (idx.start, idx.stop, idx.step)]
            if any(x is None and y is not None for x, y in zip(s, (idx.start, idx.stop, idx.step))):
                raise Unsupported("symbolic slice bounds on a concrete sequence")
            idx = slice(*s)
        if is_sym(idx):
            c = concrete_value(idx)
            if c is not None:
                idx = c
            else:
                # fork over the feasible positions of a concrete-length container
                if isinstance(o, (list, tuple)) or (isinstance(o, np.ndarray) and o.ndim == 1):
                    n = len(o)
                    for i in range(n):
                        if self.truth(compare(idx, i, "==")):
                            return o[i]
                    for i in range(1, n + 1):
                        if self.truth(compare(idx, -i, "==")):
                            return o[-i]
                    raise PyRaise("IndexError", "index out of range")
                if isinstance(o, dict):
                    k_found = self.dict_find_symbolic(o, idx)
                    if k_found is not None:
                        return o[k_found]
                    raise PyRaise("KeyError", "symbolic key")
                raise Unsupported(f"symbolic index into {type(o).__name__}")
        if isinstance(idx, tuple) and any(isinstance(x, np.ndarray) and x.dtype == object for x in idx):
            # a[..., mask] / a[:, mask] with a boolean mask of symbolic entries: every entry is decided (forks), then numpy indexes
            idx = tuple(np.array([self.truth(e) if is_sym(e) else bool(e) for e in x.tolist()], dtype=bool)
                        if (isinstance(x, np.ndarray) and x.dtype == object and x.ndim == 1) else x for x in idx)
        if isinstance(idx, tuple) and any(is_sym(x) for x in idx):
            raise Unsupported("symbolic multi-index")
        if isinstance(idx, np.ndarray) and idx.dtype == object:
            # boolean mask / index array with symbolic entries
            return self.lib.fancy_index(self, o, idx)
        try:
            r = o[idx]
            if isinstance(r, np.ndarray) and r.ndim == 0 and r.dtype == object:
                return r[()]       # float arrays yield scalars here; object arrays model float arrays
            return r
        except IndexError as e:
            raise PyRaise("IndexError", str(e))
        except KeyError as e:
            raise PyRaise("KeyError", str(e))
        except TypeError as e:
            raise PyRaise("TypeError", str(e))

    def setitem(self, o, idx, v):
        if isinstance(o, dict) and isinstance(idx, tuple) and _symbolic_key(idx):
            k_found = self.dict_find_symbolic(o, idx)
            o[k_found if k_found is not None else _KeyBox(idx)] = v
            return
        if isinstance(o, Obj):
            m, _ = o.cls.find("__setitem__")
            if m is None:
                raise PyRaise("TypeError", "no __setitem__")
            self.call_function(m, [o, idx, v], {})
            return
        if isinstance(o, SymSeq):
            if isinstance(idx, slice):
                raise Unsupported("slice assignment on symbolic sequence")
            o.set(idx, v)
            return
        if isinstance(idx, np.ndarray) and idx.dtype == object and isinstance(o, np.ndarray) and idx.shape == o.shape:
            # boolean-mask assignment with a symbolic mask: elementwise if-then-else (no fork)
            if o.dtype != object:
                raise Unsupported("symbolic mask assignment into a native array")
            vals = np.broadcast_to(np.asarray(v, dtype=object), o.shape) if isinstance(v, np.ndarray) and v.shape == o.shape else None
            flat_o, flat_m = o.reshape(-1), idx.reshape(-1)
            for i in range(flat_o.size):
                newv = v if vals is None else vals.reshape(-1)[i]
                flat_o[i] = If(flat_m[i], newv, flat_o[i])
            return
        if is_sym(idx):
            c = concrete_value(idx)
            if c is None:
                if isinstance(o, (list, np.ndarray)):
                    n = len(o)
                    for i in range(n):
                        if self.truth(compare(idx, i, "==")):
                            self.setitem(o, i, v)
                            return
                    for i in range(1, n + 1):
                        if self.truth(compare(idx, -i, "==")):
                            self.setitem(o, -i, v)
                            return
                    raise PyRaise("IndexError", "assignment index out of range")
                if isinstance(o, dict):
                    # a dict entry under a symbolic key (same-term policy, see `contains`): replaces the entry stored under
                    # the same term, otherwise a new entry
                    k_found = self.dict_find_symbolic(o, idx)
                    o[k_found if k_found is not None else _KeyBox(idx)] = v
                    return
                raise Unsupported("symbolic index assignment")
            idx = c
        if isinstance(o, np.ndarray) and o.dtype != object and self.lib.contains_sym(v):
            raise Unsupported("storing a symbolic value into a native float array (array must be created through the numpy model)")
        try:
            o[idx] = v
        except (IndexError, KeyError, TypeError, ValueError) as e:
            raise PyRaise(type(e).__name__, str(e))

    # ------------------------------------------------------------------ expressions
    def eval(self, node, env, module):
        m = getattr(self, "e_" + type(node).__name__, None)
        if m is None:
            raise Unsupported(f"expression {type(node).__name__}")
        return m(node, env, module)

    def e_Constant(self, node, env, module):
        return node.value

    def e_Name(self, node, env, module):
        try:
            return env.lookup(node.id)
        except KeyError:
            if node.id in self.builtins:
                return self.builtins[node.id]
            raise Unsupported(f"unknown name {node.id} in {module.name}")

    def e_Tuple(self, node, env, module):
        return tuple(self._elts(node.elts, env, module))

    def e_List(self, node, env, module):
        return list(self._elts(node.elts, env, module))

    def e_Set(self, node, env, module):
        return set(self._elts(node.elts, env, module))

    def _elts(self, elts, env, module):
        out = []
        for e in elts:
            if isinstance(e, ast.Starred):
                out.extend(self.iterate(self.eval(e.value, env, module)))
            else:
                out.append(self.eval(e, env, module))
        return out

    def e_Dict(self, node, env, module):
        d = {}
        for k, v in zip(node.keys, node.values):
            if k is None:
                d.update(self.eval(v, env, module))
            else:
                d[self.eval(k, env, module)] = self.eval(v, env, module)
        return d

    def e_JoinedStr(self, node, env, module):
        parts = []
        for v in node.values:
            if isinstance(v, ast.Constant):
                parts.append(str(v.value))
            else:
                try:
                    x = self.eval(v.value, env, module)
                    parts.append(str(x) if not is_sym(x) else "<sym>")
                except (Unsupported, PyRaise):
                    parts.append("<?>")
        return "".join(parts)

    def e_FormattedValue(self, node, env, module):
        return str(self.eval(node.value, env, module))

    def e_Attribute(self, node, env, module):
        o = self.eval(node.value, env, module)
        return self.getattr(o, self.mangle(node.attr, env))

    def e_Subscript(self, node, env, module):
        o = self.eval(node.value, env, module)
        idx = self.eval_index(node.slice, env, module)
        return self.getitem(o, idx)

    def e_Starred(self, node, env, module):
        raise Unsupported("starred expression outside call/list")

    def e_UnaryOp(self, node, env, module):
        v = self.eval(node.operand, env, module)
        if isinstance(node.op, ast.Not):
            if isinstance(v, Sym):
                return Not(v)
            return not self.truth(v)
        if isinstance(node.op, ast.USub):
            if isinstance(v, Obj):
                m, _ = v.cls.find("__neg__")
                if m is None:
                    raise PyRaise("TypeError", "bad operand for unary -")
                return self.call_function(m, [v], {})
            if isinstance(v, SymSeq):
                return self.lib.symseq_map(self, v, lambda x: -x)
            return -v
        if isinstance(node.op, ast.UAdd):
            return +v
        if isinstance(node.op, ast.Invert):
            return ~v
        raise Unsupported("unary op")

    def e_BinOp(self, node, env, module):
        a = self.eval(node.left, env, module)
        b = self.eval(node.right, env, module)
        return self.binop(type(node.op), a, b)

    def binop(self, op, a, b):
        if isinstance(a, Obj) or isinstance(b, Obj):
            return self.obj_binop(op, a, b)
        if isinstance(a, Opaque) or isinstance(b, Opaque):
            raise Unsupported(f"arithmetic on opaque value {a if isinstance(a, Opaque) else b}")
        if isinstance(a, SymSeq) or isinstance(b, SymSeq):
            return self.lib.symseq_binop(self, op, a, b)
        if isinstance(a, np.ndarray) or isinstance(b, np.ndarray):
            return self.lib.np_binop(self, op, a, b)
        if type(a).__name__ == "SpVal" or type(b).__name__ == "SpVal":
            from .spval import sp_binop
            return sp_binop(op, a, b)
        if _scalar(a) and _scalar(b) and a is not None and b is not None:
            f = BINOPS.get(op)
            if f is None:
                if op is ast.BitAnd:
                    return And(a, b) if (is_sym(a) or is_sym(b)) else a & b
                if op is ast.BitOr:
                    return Or(a, b) if (is_sym(a) or is_sym(b)) else a | b
                raise Unsupported(f"operator {op.__name__}")
            return f(a, b)
        # native containers: list + list, tuple + tuple, str % x, list * int ...
        import operator
        nat = {ast.Add: operator.add, ast.Sub: operator.sub, ast.Mult: operator.mul, ast.Mod: operator.mod,
               ast.BitOr: operator.or_, ast.BitAnd: operator.and_, ast.Div: operator.truediv,
               ast.FloorDiv: operator.floordiv, ast.Pow: operator.pow, ast.MatMult: operator.matmul}.get(op)
        if nat is None:
            raise Unsupported(f"operator {op.__name__}")
        if (is_sym(a) and isinstance(b, (list, tuple)) or is_sym(b) and isinstance(a, (list, tuple))) and op in (ast.Sub, ast.Div, ast.FloorDiv, ast.Pow, ast.Add):
            # a Python list / tuple and a number: no such operator whatever the number is (a program type error, not an engine limit)
            raise PyRaise("TypeError", f"unsupported operand type(s) for {op.__name__}: '{type(a).__name__}' and '{type(b).__name__}'")
        if is_sym(a) or is_sym(b):
            # e.g. [x] * symbolic_int
            ca, cb = concrete_value(a) if is_sym(a) else a, concrete_value(b) if is_sym(b) else b
            if ca is None or cb is None:
                raise Unsupported(f"{op.__name__} between {type(a).__name__} and {type(b).__name__}")
            a, b = ca, cb
        try:
            return nat(a, b)
        except TypeError as e:
            raise PyRaise("TypeError", str(e))
        except ZeroDivisionError as e:
            raise PyRaise("ZeroDivisionError", str(e))

    def obj_binop(self, op, a, b):
        name = DUNDER.get(op)
        if name is None:
            raise Unsupported("operator on object")
        if isinstance(a, Obj):
            m, _ = a.cls.find(f"__{name}__")
            if m is not None:
                r = self.call_function(m, [a, b], {})
                if r is not NotImplemented:
                    return r
        if isinstance(b, Obj):
            m, _ = b.cls.find(f"__r{name}__")
            if m is not None:
                return self.call_function(m, [b, a], {})
        raise PyRaise("TypeError", f"unsupported operand types for {name}")

    def e_BoolOp(self, node, env, module):
        is_and = isinstance(node.op, ast.And)
        # merge purely-scalar symbolic operands without forking when every operand is boolean-valued
        v = None
        for i, e in enumerate(node.values):
            v = self.eval(e, env, module)
            last = i == len(node.values) - 1
            if last:
                return v
            t = self.truth(v)
            if is_and and not t:
                return v if not is_sym(v) else False
            if (not is_and) and t:
                return v if not is_sym(v) else True
        return v

    def e_Compare(self, node, env, module):
        left = self.eval(node.left, env, module)
        result = True
        for op, rn in zip(node.ops, node.comparators):
            right = self.eval(rn, env, module)
            r = self.compare_op(op, left, right)
            if len(node.ops) == 1:
                return r
            if is_sym(r) or is_sym(result):
                result = And(result, r)
                # Python short-circuits; evaluating the remaining comparators has no side effects in the subset
            else:
                if not self.truth(r):
                    return False
            left = right
        return result

    def compare_op(self, op, a, b):
        t = type(op)
        if t in (ast.Is, ast.IsNot):
            if isinstance(a, EnumMember) and isinstance(b, EnumMember):
                r = a == b
            else:
                r = a is b
            return r if t is ast.Is else not r
        if t in (ast.In, ast.NotIn):
            r = self.contains(b, a)
            return r if t is ast.In else (Not(r) if is_sym(r) else not r)
        o = CMPOPS[t]
        if isinstance(a, Obj) or isinstance(b, Obj):
            names = {"<": ("__lt__", "__gt__"), "<=": ("__le__", "__ge__"), ">": ("__gt__", "__lt__"),
                     ">=": ("__ge__", "__le__"), "==": ("__eq__", "__eq__"), "!=": ("__ne__", "__ne__")}[o]
            if isinstance(a, Obj):
                m, _ = a.cls.find(names[0])
                if m is not None:
                    return self.call_function(m, [a, b], {})
            if isinstance(b, Obj):
                m, _ = b.cls.find(names[1])
                if m is not None:
                    return self.call_function(m, [b, a], {})
            if o == "==":
                return a is b
            if o == "!=":
                for x, y in ((a, b), (b, a)):
                    if isinstance(x, Obj):
                        m, _ = x.cls.find("__eq__")
                        if m is not None:
                            r = self.call_function(m, [x, y], {})
                            return Not(r) if is_sym(r) else not r
                return a is not b
            raise PyRaise("TypeError", f"{o} not supported between objects")
        if isinstance(a, SymSeq) or isinstance(b, SymSeq):
            return self.lib.symseq_compare(self, o, a, b)
        if isinstance(a, np.ndarray) or isinstance(b, np.ndarray):
            return self.lib.np_compare(self, o, a, b)
        if _scalar(a) and _scalar(b):
            r = compare(a, b, o)
            if r is NotImplemented:
                raise PyRaise("TypeError", f"{o} not supported")
            return r
        if isinstance(a, (tuple, list)) and isinstance(b, (tuple, list)) and (self.lib.contains_sym(a) or self.lib.contains_sym(b)):
            if o in ("==", "!="):
                if type(a) is not type(b) or len(a) != len(b):
                    return o == "!="
                r = And(*[self.compare_op(ast.Eq(), x, y) for x, y in zip(a, b)]) if a else True
                return r if o == "==" else (Not(r) if is_sym(r) else not r)
            raise Unsupported("ordering of symbolic tuples")
        import operator
        f = {"<": operator.lt, "<=": operator.le, ">": operator.gt, ">=": operator.ge, "==": operator.eq, "!=": operator.ne}[o]
        try:
            return f(a, b)
        except TypeError as e:
            raise PyRaise("TypeError", str(e))

    def dict_find_symbolic(self, o, key):
        """the stored key of dict `o` equal to `key` (a key with symbolic parts), as CPython's lookup by VALUE sees it: the same
        terms match at once; otherwise every stored key of the same shape is compared part by part and the path FORKS on
        the equality when it is not decided (two different terms that may be equal are both explored)"""
        box = _KeyBox(key)
        if box in o:
            return box
        parts = box.parts
        for k2 in list(o.keys()):
            kp = k2.parts if isinstance(k2, _KeyBox) else _key_parts(k2)
            if len(kp) != len(parts) or any(a[0] == "t" and (b[0] != "t" or a[1] != b[1]) for a, b in zip(parts, kp)) or any((a[0] == "t") != (b[0] == "t") for a, b in zip(parts, kp)):
                continue
            conds = []
            ok = True
            for a, b in zip(parts, kp):
                if a[0] == "t":
                    continue
                va = Sym(a[2], a[1]) if a[0] == "s" else a[1]
                vb = Sym(b[2], b[1]) if b[0] == "s" else b[1]
                if a[0] == "c" and b[0] == "c":
                    if va != vb:
                        ok = False
                        break
                    continue
                try:
                    conds.append(compare(va, vb, "=="))
                except Exception:
                    ok = False
                    break
            if ok and (not conds or self.truth(And(*conds))):
                return k2
        return None

    def contains(self, container, x):
        if isinstance(container, Obj):
            m, _ = container.cls.find("__contains__")
            if m is not None:
                return self.call_function(m, [container, x], {})
            return Or(*[self.compare_op(ast.Eq(), y, x) for y in self.iterate(container)]) if True else False
        if isinstance(container, dict):
            if _symbolic_key(x):
                # CPython hashes the key: here a symbolic key matches an entry stored under the SAME term only (as for the
                # memoising decorators: two different terms that might be equal count as different keys, never a guessed hit)
                return self.dict_find_symbolic(container, x) is not None
            return x in container
        if isinstance(container, (list, tuple, set, frozenset, np.ndarray, range)) or True:
            if isinstance(container, str):
                return x in container
            items = list(self.iterate(container))
            if not is_sym(x) and not self.lib.contains_sym(items) and not isinstance(x, (Obj,)) and not any(isinstance(i, Obj) for i in items):
                try:
                    if isinstance(container, np.ndarray):
                        return bool(np.any(container == x))
                    return x in container
                except Exception:
                    pass
            rs = [self.compare_op(ast.Eq(), y, x) for y in items]
            if not rs:
                return False
            return Or(*rs)

    def e_IfExp(self, node, env, module):
        c = self.eval(node.test, env, module)
        if is_sym(c):
            # try a non-forking merge when both arms are scalar and side-effect free
            if self.truth(c):
                return self.eval(node.body, env, module)
            return self.eval(node.orelse, env, module)
        if self.truth(c):
            return self.eval(node.body, env, module)
        return self.eval(node.orelse, env, module)

    def e_NamedExpr(self, node, env, module):
        v = self.eval(node.value, env, module)
        env.assign(node.target.id, v)
        return v

    def e_Lambda(self, node, env, module):
        return self.make_function(node, env, module, "<lambda>")

    def _comp(self, node, env, module, emit):
        cenv = Env(env, "comp")

        def rec(i):
            if i == len(node.generators):
                emit(cenv)
                return
            g = node.generators[i]
            it = self.eval(g.iter, cenv if i else env, module)
            for x in self.iterate(it):
                self._assign_comp_target(g.target, x, cenv, module)
                if all(self.truth(self.eval(c, cenv, module)) for c in g.ifs):
                    rec(i + 1)
        rec(0)

    def _assign_comp_target(self, t, v, cenv, module):
        if isinstance(t, ast.Name):
            cenv.assign_local(t.id, v)
        elif isinstance(t, (ast.Tuple, ast.List)):
            vals = list(self.iterate(v))
            if len(vals) != len(t.elts):
                raise PyRaise("ValueError", "unpack")
            for e, x in zip(t.elts, vals):
                self._assign_comp_target(e, x, cenv, module)
        else:
            raise Unsupported("comprehension target")

    def e_ListComp(self, node, env, module):
        out = []
        self._comp(node, env, module, lambda ce: out.append(self.eval(node.elt, ce, module)))
        return out

    def e_GeneratorExp(self, node, env, module):
        # lazy, single-use (any()/all()/next() stop early, as in CPython; side effects such as walrus bindings match)
        return self.lib.LazyGen(self._comp_iter(node, env, module))

    def _comp_iter(self, node, env, module):
        cenv = Env(env, "comp")

        def rec(i):
            if i == len(node.generators):
                yield self.eval(node.elt, cenv, module)
                return
            g = node.generators[i]
            it = self.eval(g.iter, cenv if i else env, module)
            for x in self.iterate(it):
                self._assign_comp_target(g.target, x, cenv, module)
                if all(self.truth(self.eval(c, cenv, module)) for c in g.ifs):
                    yield from rec(i + 1)
        return rec(0)

    def e_SetComp(self, node, env, module):
        out = []
        self._comp(node, env, module, lambda ce: out.append(self.eval(node.elt, ce, module)))
        return set(out)

    def e_DictComp(self, node, env, module):
        out = {}

        def emit(ce):
            out[self.eval(node.key, ce, module)] = self.eval(node.value, ce, module)
        self._comp(node, env, module, emit)
        return out

    def e_Yield(self, node, env, module):
        fr = self.frames[-1]
        fr.yields.append(self.eval(node.value, env, module) if node.value else None)
        return None

    def e_YieldFrom(self, node, env, module):
        fr = self.frames[-1]
        fr.yields.extend(self.iterate(self.eval(node.value, env, module)))
        return None

    def e_Slice(self, node, env, module):
        return self.eval_index(node, env, module)

    # ---- calls
    def e_Call(self, node, env, module):
        # zero-arg super()
        if isinstance(node.func, ast.Name) and node.func.id == "super" and not node.args:
            fr = self.frames[-1]
            self_name = fr.func.node.args.args[0].arg
            return SuperProxy(fr.env.lookup(self_name), fr.func.cls)
        f = self.eval(node.func, env, module)
        args = []
        for a in node.args:
            if isinstance(a, ast.Starred):
                args.extend(self.iterate(self.eval(a.value, env, module)))
            else:
                args.append(self.eval(a, env, module))
        kwargs = {}
        for k in node.keywords:
            if k.arg is None:
                kwargs.update(self.eval(k.value, env, module))
            else:
                kwargs[k.arg] = self.eval(k.value, env, module)
        return self.call(f, args, kwargs)

    def call(self, f, args, kwargs):
        if isinstance(f, FuncVal):
            return self.call_function(f, args, kwargs)
        if isinstance(f, BoundMethod):
            return self.call_function(f.func, [f.self_obj] + list(args), kwargs)
        if isinstance(f, ClassVal):
            return self.instantiate(f, args, kwargs)
        if isinstance(f, PartialVal):
            return self.call(f.func, list(f.args) + list(args), {**f.kwargs, **kwargs})
        if isinstance(f, Obj):
            m, _ = f.cls.find("__call__")
            if m is None:
                raise PyRaise("TypeError", f"{f.cls.name} object is not callable")
            return self.call_function(m, [f] + list(args), kwargs)
        if isinstance(f, ExcClass):
            return ExcInstance(f.name, tuple(args))
        if isinstance(f, Opaque):
            oh = getattr(self, "opaque_hooks", None)
            if oh and str(f.why) in oh:
                return oh[str(f.why)](self, *args, **kwargs)     # contract-supplied abstraction of an unmodelled library call
            if str(f.why).startswith(("logging.", "warnings.warn")):
                return None     # logging has no effect on any value the program computes
            raise Unsupported(f"call of {f}")
        if isinstance(f, self.lib.Model):
            return f(self, *args, **kwargs)
        if callable(f):
            return self.lib.native_call(self, f, args, kwargs)
        raise PyRaise("TypeError", f"{type(f).__name__} object is not callable")

    def instantiate(self, cls: ClassVal, args, kwargs):
        if cls.is_exception:
            return ExcInstance(cls.name, tuple(args))
        if cls.is_enum:
            for v in cls.ns.values():
                if isinstance(v, EnumMember) and v.value == args[0]:
                    return v
            raise PyRaise("ValueError", "not a valid enum value")
        new, nc = cls.find("__new__")
        if new is not None:
            o = self.call_function(new, [cls] + list(args), kwargs)
            if not (isinstance(o, Obj) and o.cls.is_subclass_of(cls)):
                return o
        else:
            o = Obj(cls)
        init, _ = cls.find("__init__")
        if init is not None:
            self.call_function(init, [o] + list(args), kwargs)
        elif args or kwargs:
            raise PyRaise("TypeError", f"{cls.name}() takes no arguments")
        return o

    def bind_args(self, f: FuncVal, args, kwargs):
        a = f.node.args
        params = [p.arg for p in a.posonlyargs + a.args]
        bound = {}
        args = list(args)
        if len(args) > len(params) and a.vararg is None:
            raise PyRaise("TypeError", f"{f.qualname}() takes {len(params)} positional arguments but {len(args)} were given")
        for p, v in zip(params, args):
            bound[p] = v
        if a.vararg is not None:
            bound[a.vararg.arg] = tuple(args[len(params):])
        kwargs = dict(kwargs)
        nd = len(f.defaults)
        for i, p in enumerate(params):
            if p in bound:
                if p in kwargs:
                    raise PyRaise("TypeError", f"{f.qualname}() got multiple values for argument {p}")
                continue
            if p in kwargs:
                bound[p] = kwargs.pop(p)
            else:
                j = i - (len(params) - nd)
                if j >= 0:
                    bound[p] = f.defaults[j]
                else:
                    raise PyRaise("TypeError", f"{f.qualname}() missing required argument {p}")
        for p in a.kwonlyargs:
            if p.arg in kwargs:
                bound[p.arg] = kwargs.pop(p.arg)
            elif p.arg in f.kw_defaults:
                bound[p.arg] = f.kw_defaults[p.arg]
            else:
                raise PyRaise("TypeError", f"missing keyword-only argument {p.arg}")
        if a.kwarg is not None:
            bound[a.kwarg.arg] = kwargs
        elif kwargs:
            raise PyRaise("TypeError", f"{f.qualname}() got an unexpected keyword argument {next(iter(kwargs))}")
        return bound

    def dispatch_type_names(self, v):
        """Names under which a value matches a singledispatch annotation."""
        if isinstance(v, Obj):
            return [c.name for c in v.cls.mro()]
        if isinstance(v, Sym):
            return {"r": ["float"], "i": ["int"], "b": ["bool", "int"]}[v.k]
        if isinstance(v, bool):
            return ["bool", "int"]
        if isinstance(v, int):
            return ["int"]
        if isinstance(v, float):       # includes numpy.float64
            return ["float"]
        if isinstance(v, np.integer):
            return ["np.integer"]
        if isinstance(v, tuple):
            return ["tuple"]
        if isinstance(v, list):
            return ["list"]
        if isinstance(v, np.ndarray):
            return ["np.ndarray", "np.array"]
        return [type(v).__name__]

    def call_function(self, f: FuncVal, args, kwargs):
        if f.dispatch:
            idx = 1 if (f.cls is not None and f.kind != "static") else 0
            disp_arg = None
            if len(args) > idx:
                disp_arg = args[idx]
            else:
                params = [p.arg for p in f.node.args.args]
                if len(params) > idx and params[idx] in kwargs:
                    disp_arg = kwargs[params[idx]]
            if disp_arg is not None:
                for tn in self.dispatch_type_names(disp_arg):
                    if tn in f.dispatch:
                        f = f.dispatch[tn]
                        break
        fq = f.fq
        if getattr(self, "skip_modular_once", None) == fq:
            # the unit's own top-level call of a (recursive) function: execute the body; inner calls use the contract
            self.skip_modular_once = None
            return self.run_memoised(f, args, kwargs) if getattr(f, "memoised", None) else self.run_body(f, args, kwargs)
        hook = self.hooks.get(fq)
        contract = self.modular.get(fq)
        if hook is not None or contract is not None:
            bound = self.bind_args(f, args, kwargs)
            if hook is not None:
                return hook(self, f, bound)
            return contract.modular_call(self, f, bound)
        if self.transparent_only is not None and fq not in self.transparent_only:
            raise Unsupported(f"call to {fq}: no contract and not a listed transparent helper")
        if getattr(f, "decorators", None):
            return self.call_decorated(f, args, kwargs)
        if getattr(f, "memoised", None):
            return self.run_memoised(f, args, kwargs)
        return self.run_body(f, args, kwargs)

    def memo_key(self, v):
        """key of one argument of a memoised (functools.lru_cache / cache) function, as CPython's hashing sees it: numbers by
        value, objects without __eq__ by identity, tuples element-wise; a symbolic value by the identity of its term (two
        different terms that might be equal count as different keys: the body is then re-executed, never a guessed hit)"""
        if is_sym(v):
            return ("sym", v.k, v.t.get_id() if hasattr(v.t, "get_id") else id(v))
        if isinstance(v, bool) or v is None or isinstance(v, (str, bytes)):
            return ("c", type(v).__name__, v)
        if isinstance(v, (int, float, complex, np.integer, np.floating)):
            return ("n", complex(v))
        if isinstance(v, tuple):
            return ("t",) + tuple(self.memo_key(x) for x in v)
        if isinstance(v, (list, dict, set, np.ndarray)):
            raise PyRaise("TypeError", f"unhashable type: '{type(v).__name__}' (argument of a memoised function)")
        return ("o", id(v))

    def run_memoised(self, f, args, kwargs):
        bound = self.bind_args(f, args, kwargs)
        key = (f.fq,) + tuple((k, self.memo_key(v)) for k, v in sorted(bound.items()))
        memo = self.__dict__.setdefault("memo_store", {})
        if key in memo:
            return memo[key][0]
        r = self.run_body(f, args, kwargs)
        memo[key] = (r, [v for v in bound.values()])       # the arguments are kept alive: ids stay unique
        return r

    def call_decorated(self, f, args, kwargs):
        raise Unsupported(f"function {f.fq} has unsupported decorators {[ast.unparse(d) for d in f.decorators]}")

    def run_body(self, f: FuncVal, args, kwargs):
        bound = self.bind_args(f, args, kwargs)
        env = Env(f.env, "function")
        env.vars["__qual__"] = f.qualname + ".<locals>."
        if f.cls is not None:
            env.cls_name = f.cls.name
        env.vars.update(bound)
        fr = Frame(f, env)
        if len(self.frames) > 150:
            raise Unsupported("interpreter call depth exceeded (unbounded recursion needs a contract)")
        info = self.executed.get(f.fq)
        if info is None:
            src = ast.unparse(f.node)
            self.executed[f.fq] = {"sha256": hashlib.sha256(src.encode()).hexdigest()[:16], "dropped": list(f.dropped),
                                   "line": getattr(f.node, "lineno", 0)}
        self.frames.append(fr)
        try:
            if isinstance(f.node, ast.Lambda):
                return self.eval(f.node.body, env, f.module)
            if f.is_generator:
                fr.yields = []
                try:
                    self.exec_block(f.node.body, env, f.module)
                except _Return:
                    pass
                return fr.yields
            try:
                self.exec_block(f.node.body, env, f.module)
            except _Return as r:
                return r.value
            return None
        finally:
            self.frames.pop()


def _key_parts(k):
    """flatten a dict key (a symbolic value, or a tuple with symbolic entries) into comparable parts"""
    if isinstance(k, tuple):
        out = [("t", len(k))]
        for x in k:
            out += _key_parts(x)
        return out
    if is_sym(k):
        return [("s", k.k, k.t)]
    return [("c", k)]


def _symbolic_key(k):
    return is_sym(k) or (isinstance(k, tuple) and any(_symbolic_key(x) for x in k))


class _KeyBox:
    """hashable box around a dict key with symbolic parts: equal iff the parts are structurally the same (same terms)"""
    __slots__ = ("sym", "parts")

    def __init__(self, sym):
        self.sym = sym
        self.parts = _key_parts(sym)

    def __hash__(self):
        return hash(tuple((p[0], p[1] if p[0] != "s" else hash(p[2])) if p[0] != "c" else ("c", hash(p[1])) for p in self.parts))

    def __eq__(self, other):
        if not isinstance(other, _KeyBox) or len(other.parts) != len(self.parts):
            return False
        for a, b in zip(self.parts, other.parts):
            if a[0] != b[0]:
                return False
            if a[0] == "s":
                if a[1] != b[1] or not bool(a[2].eq(b[2])):
                    return False
            elif a[1] != b[1]:
                return False
        return True
