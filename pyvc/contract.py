"""Contract objects and verification units.

A `FunctionContract` is a sidecar specification of one real function:

    target    "module:Qual.name" of the function in /repo
    setup     creates the symbolic arguments (one `case` at a time, see `cases`)
    requires  precondition over the arguments
    ensures   {clause-name: formula} over arguments and result (written from the property text)
    raises    {ExceptionName: condition}: exceptional exits that are allowed, and when
    frame     optional {clause: formula} comparing the pre- and post-state of mutable arguments
    modular   contracts of callees: calls to them use the contract, never the body
    inline    fully-qualified names of transparent helpers whose real body is executed at the call
    loops     {k: LoopSpec} inductive cuts for the k-th loop (source order) of the target
    replay    native re-execution of a counter-model against the real code

Verifying it = symbolically executing the *real* AST of `target` on the symbolic
arguments and discharging every clause on every path (pyvc.path).
"""
from __future__ import annotations

import importlib
import math
import time
import traceback

import z3

from . import ctx
from .interp import Interp, LoopSpec, Locals
from .path import Explorer, Path, ObResult, PathEnd, STATS
from .sym import (Sym, Unsupported, PyRaise, And, Or, Not, Implies, If, Eq, compare, lift, is_sym, concrete_value, INF)
from .values import Obj, SymSeq, FuncVal, BoundMethod


class VC:
    """Handle given to contract code: creates inputs, assumes, checks."""

    def __init__(self, path: Path, interp: Interp):
        self.path = path
        self.interp = interp

    # ---- symbolic inputs (named => appear in counter-models)
    def _reg(self, name, v):
        self.path.inputs[name] = v
        return v

    def int(self, name):
        return self._reg(name, Sym(z3.Int(name), "i"))

    def real(self, name):
        return self._reg(name, Sym(z3.Real(name), "r"))

    def bool(self, name):
        return self._reg(name, Sym(z3.Bool(name), "b"))

    def reals(self, name, n):
        return self._reg(name, [Sym(z3.Real(f"{name}_{i}"), "r") for i in range(n)])

    def ints(self, name, n):
        return self._reg(name, [Sym(z3.Int(f"{name}_{i}"), "i") for i in range(n)])

    def seq(self, name, kind="r", min_len=0):
        n = Sym(z3.Int(f"{name}_len"), "i")
        arr = z3.Array(name, z3.IntSort(), z3.RealSort() if kind == "r" else z3.IntSort())
        s = SymSeq(arr, n, kind, 0, name)
        self.path.assume(compare(n, min_len, ">="))
        return self._reg(name, s)

    def register(self, name, v):
        return self._reg(name, v)

    def obj(self, class_fq, **fields):
        cls = self.interp.get_class(class_fq)
        o = Obj(cls)
        o.fields.update(fields)
        if class_fq == "rpylib.product.product:Product" and "_process_representation" not in o.fields:
            # an abstract product stands for one that has not been set up for a logarithmic process: the constructor's
            # default (kept in one place: the contracts hand-build products where only a few attributes matter)
            try:
                o.fields["_process_representation"] = self.enum("rpylib.process.process:ProcessRepresentation", "IDENDITY")
            except Exception:
                pass
        return o

    def fresh(self, name, kind):
        return self.path.fresh(name, kind)

    def new(self, class_fq, *args, **kwargs):
        """instantiate through the real constructor"""
        return self.interp.instantiate(self.interp.get_class(class_fq), list(args), kwargs)

    def enum(self, class_fq, member):
        return self.interp.get_class(class_fq).ns[member]

    def method(self, obj, name, *args, **kwargs):
        return self.interp.call(self.interp.getattr(obj, name), list(args), kwargs)

    # ---- logic
    def assume(self, f):
        self.path.assume(f)

    def check(self, label, f):
        return self.path.check(label, f)

    def cover(self, label):
        self.path.cover(label)

    def call(self, fq, *args, **kwargs):
        f = self.interp.get_function(fq)
        return self.interp.call(f, list(args), kwargs)

    @property
    def ghost(self):
        return self.path.ghost

    # ---- analytic back end (sympy)
    def sp(self, term, symbols=None):
        """z3 term / Sym / python number -> sympy expression"""
        from .tosympy import to_sympy
        import sympy
        if symbols is None:
            symbols = self.path.ghost.setdefault("_sp_symbols", {})
        if isinstance(term, Sym):
            return to_sympy(term, symbols)
        if isinstance(term, float) and term in (INF, -INF):
            return sympy.oo if term > 0 else -sympy.oo
        return sympy.nsimplify(term) if isinstance(term, float) else sympy.sympify(term)

    def resolve(self, term):
        """replace every ite(c, a, b) of `term` whose condition is decided by the path condition (pc |= c or pc |= not c)
        by the selected branch; undecided conditions are kept.  Sound: the result equals `term` under the path condition."""
        t = term.t if isinstance(term, Sym) else term
        cache = {}

        def rec(e):
            k = e.get_id()
            if k in cache:
                return cache[k]
            if z3.is_app(e) and e.decl().kind() == z3.Z3_OP_ITE:
                c, a, b = e.children()
                c = rec(c)
                if not self.path._feasible(z3.Not(c)):
                    r = rec(a)
                elif not self.path._feasible(c):
                    r = rec(b)
                else:
                    r = z3.If(c, rec(a), rec(b))
            elif z3.is_app(e) and e.num_args() > 0:
                r = e.decl()(*[rec(ch) for ch in e.children()])
            else:
                r = e
            cache[k] = r
            return r
        out = rec(t)
        return Sym(out, term.k, getattr(term, "meta", None)) if isinstance(term, Sym) else out

    def sp_symbol(self, name, **assumptions):
        import sympy
        symbols = self.path.ghost.setdefault("_sp_symbols", {})
        symbols[name] = sympy.Symbol(name, **assumptions)
        return symbols[name]

    def check_zero(self, label, expr, sampler=None, budget_s=120.0):
        """analytic obligation: `expr` (sympy) is identically zero on the region described by `sampler`.
        `expr` may be a thunk (evaluated under the same wall-clock guard; a CAS timeout is `undecided`)."""
        import time as _t
        from .tosympy import is_zero, timed, CasTimeout
        from .path import ObResult, STATS
        t0 = _t.time()
        try:
            if callable(expr) and not hasattr(expr, "free_symbols"):
                expr = timed(expr, budget_s)
            point = self.ghost.get("sp_subregime_point")
            if point and sampler is not None:
                # the path runs in a part of the regime (a branch of the code split it): probe there
                base_sampler = sampler
                sampler = lambda g: {**base_sampler(g), **point}
            status, info = timed(lambda: is_zero(expr, sampler), budget_s)
        except CasTimeout as ex:
            status, info = "undecided", {"why": str(ex)}
        dt = _t.time() - t0
        STATS["sympy_queries"] = STATS.get("sympy_queries", 0) + 1
        STATS["sympy_time"] = STATS.get("sympy_time", 0.0) + dt
        res = ObResult(label, status, "sympy", dt, path=tuple(self.path.decisions[: self.path.pos]))
        if status == "refuted":
            res.model = info.get("point")
            res.detail = f"residual {info.get('residual')} at {info.get('point')}"
            self.path.reached = True
        elif status == "undecided":
            res.detail = info.get("why", "")
        else:
            res.detail = info.get("method", "")
        self.path.results.append(res)
        return status == "proved"


def _kw(args):
    """contract methods receive the receiver of a method as `self_`"""
    if isinstance(args, dict) and "self" in args:
        a = dict(args)
        a["self_"] = a.pop("self")
        return a
    return args


class FunctionContract:
    target: str = ""
    prop: str = ""
    name: str = ""
    modular: tuple = ()
    inline: tuple = ()      # informational: helpers executed from their real body
    loops: dict = {}
    raises: dict = {}
    cases: tuple = (None,)  # enumerated configurations (e.g. extended-real case splits); each is a separate unit
    max_paths = 4000
    tier = "quick"          # 'thorough' units only run in the thorough tier
    self_param = None       # name of the parameter that receives the object for methods (default: first)

    # -- to override
    def setup(self, vc: VC, case):
        raise NotImplementedError

    def requires(self, **a):
        return True

    def ensures(self, result, **a):
        return {}

    def frame(self, old, new, **a):
        return {}

    def modular_result(self, vc: VC, **a):
        raise Unsupported(f"{self.target}: contract has no modular_result")

    def snapshot(self, **a):
        return None

    def replay(self, model, clause, case):
        return None  # (violated: bool, info: dict) or None when no native replay is available

    def configure(self, interp: Interp):
        pass

    # -- modular use at a call site
    def modular_call(self, interp: Interp, f: FuncVal, bound):
        path = ctx.PATH
        vc = VC(path, interp)
        caller = interp.frames[-1].func.fq if interp.frames else "<unit>"
        bound = _kw(bound)
        req = self.requires(**bound)
        path.check(f"{caller} -> {self.target}::requires", req)
        for exc, cond in self.raises.items():
            c = cond(**bound)
            if c is not False and interp.truth(c):
                raise PyRaise(exc, f"raised by contract of {self.target}")
        res = self.modular_result(vc, **bound)
        ens = self.ensures(res, **bound)
        for k, v in ens.items():
            path.assume(v)
        return res

    # -- unit
    def unit_name(self, case):
        n = self.name or self.target
        return n if case is None else f"{n}[{case}]"

    def make_unit(self, case, interp_factory):
        contract = self

        def unit(path: Path):
            interp = interp_factory()
            vc = VC(path, interp)
            interp.loop_specs = {(contract.target, k): v for k, v in contract.loops.items()}
            for extra_target, specs in getattr(contract, "extra_loops", {}).items():
                for k, v in specs.items():
                    interp.loop_specs[(extra_target, k)] = v
            interp.modular = {c.target: c for c in contract.modular}
            interp.hooks = {}
            interp.assign_hooks = {(contract.target, k): v for k, v in getattr(contract, "hints", {}).items()}
            contract.configure(interp)
            f = interp.get_function(contract.target)
            call_args = contract.setup(vc, case)
            args = _kw(call_args)
            req = contract.requires(**args)
            path.assume(req)
            old = contract.snapshot(**args)
            pre = f"{contract.unit_name(case)}::"
            interp.skip_modular_once = contract.target
            try:
                result = interp.call(f, [], dict(call_args))
            except PyRaise as e:
                cond = contract.raises.get(e.exc_type)
                if cond is None:
                    path.check(pre + f"no-exception[{e.exc_type}]", False)
                    path.results[-1].detail = f"raised {e}"
                else:
                    path.check(pre + f"raise-allowed[{e.exc_type}]", cond(**args))
                path.cover(pre + "exit")
                return
            for exc, cond in contract.raises.items():
                # when the raise condition holds the function must not return normally
                c = cond(**args)
                if getattr(contract, "raises_exact", True) and c is not True:
                    path.check(pre + f"must-raise[{exc}]", Not(c) if is_sym(c) else (not c))
            for label, formula in contract.ensures(result, **args).items():
                path.check(pre + label, formula)
            if old is not None:
                for label, formula in contract.frame(old, contract.snapshot(**args), **args).items():
                    path.check(pre + "frame:" + label, formula)
            path.cover(pre + "exit")
        unit.__name__ = self.unit_name(case)
        return unit


class Lemma:
    """A property-level statement proved from contracts / spec functions only (no body)."""
    prop = ""
    name = ""
    cases = (None,)
    max_paths = 4000
    tier = "quick"

    def prove(self, vc: VC, case):
        raise NotImplementedError

    def replay(self, model, clause, case):
        return None

    def unit_name(self, case):
        return self.name if case is None else f"{self.name}[{case}]"

    def make_unit(self, case, interp_factory):
        lemma = self

        def unit(path: Path):
            interp = interp_factory()
            vc = VC(path, interp)
            lemma.prove(vc, case)
            path.cover(f"{lemma.unit_name(case)}::exit")
        unit.__name__ = self.unit_name(case)
        return unit


# ---------------------------------------------------------------------------
# helpers for contract code

def Req(a, b, rel=1e-9, abs_=1e-12):
    """Real equality: exact over symbolic terms, tolerance over native floats (replay)."""
    if is_sym(a) or is_sym(b):
        r = compare(a, b, "==")
        return r
    try:
        if isinstance(a, float) and isinstance(b, float) and (math.isinf(a) or math.isinf(b)):
            return a == b
        return abs(a - b) <= abs_ + rel * max(abs(a), abs(b))
    except TypeError:
        return a == b


def ForAllInts(name, lo, hi, body):
    """Quantified formula  forall k. lo <= k < hi -> body(k)  (z3 quantifier; use with explicit instances)."""
    k = z3.Int(name)
    ks = Sym(k, "i")
    b = body(ks)
    from .sym import as_bool_term, as_int_term
    return Sym(z3.ForAll([k], z3.Implies(z3.And(as_int_term(lift(lo)) <= k, k < as_int_term(lift(hi))), as_bool_term(b))), "b")
