"""Library models (trusted base A2/A3 of DESIGN §2.9).

Policy: a call to a library function whose arguments contain nothing symbolic is
executed by the *real* library (CPython/numpy/scipy).  With symbolic arguments the
function needs a model listed here; numpy functions that only move elements around
or combine them with Python operators ("object-safe") run natively on object
arrays whose elements are `Sym`s.  Everything else is `Unsupported` (undecided).
"""
from __future__ import annotations

import ast
import builtins as _bi
import collections
import copy as _copy
import functools
import itertools
import math
import operator
from fractions import Fraction

import numpy as np
import z3

from . import ctx
from .sym import (Sym, Unsupported, PyRaise, is_sym, is_num, add, sub, mul, truediv, floordiv, mod, power, compare,
                  And, Or, Not, If, lift, concrete_value, to_int_trunc, to_int_floor, to_int_ceil, to_real, smax, smin,
                  as_real_term, as_int_term, as_bool_term, real_const, INF, Eq)
from .values import (Opaque, Env, FuncVal, ClassVal, Obj, EnumMember, BoundMethod, SuperProxy, ModuleVal, PartialVal,
                     ExcInstance, ExcClass, SymSeq, EXC_PARENTS)


class Model:
    def __init__(self, fn, name, pytype=None):
        self.fn = fn
        self.name = name
        self.pytype = pytype

    def __call__(self, interp, *args, **kwargs):
        return self.fn(interp, *args, **kwargs)

    def __repr__(self):
        return f"<model {self.name}>"


class Descriptor:
    """Base for modelled data descriptors stored in class namespaces."""

    def get(self, interp, obj):
        raise NotImplementedError

    def set(self, interp, obj, value):
        raise NotImplementedError


class TypingThing:
    def __init__(self, name):
        self.name = name

    def __repr__(self):
        return f"<typing {self.name}>"

    def __or__(self, o):
        return self

    def __ror__(self, o):
        return self


class LibModule:
    def __init__(self, name, real=None, attrs=None, default_opaque=True):
        self.name = name
        self.real = real
        self.attrs = attrs or {}
        self.default_opaque = default_opaque

    def get(self, name):
        if name in self.attrs:
            return self.attrs[name]
        if self.real is not None and hasattr(self.real, name):
            v = getattr(self.real, name)
            import types
            if isinstance(v, types.ModuleType):
                return LibModule(f"{self.name}.{name}", v, EXTRA_ATTRS.get(f"{self.name}.{name}", {}))
            return v
        if self.default_opaque:
            return Opaque(f"{self.name}.{name}")
        raise PyRaise("AttributeError", f"{self.name}.{name}")

    def __repr__(self):
        return f"<lib {self.name}>"


NOOP = Model(lambda interp, *a, **k: None, "noop")
EXTRA_ATTRS: dict = {}


def contains_sym(v, depth=0):
    if isinstance(v, (Sym, SymSeq, Obj, FuncVal, BoundMethod, ClassVal, PartialVal, Opaque, SymRange, SymZip, SymEnumerate, EnumMember)):
        return True
    if depth > 6:
        return False
    if isinstance(v, (list, tuple, set, frozenset, collections.deque)):
        return any(contains_sym(x, depth + 1) for x in v)
    if isinstance(v, dict):
        return any(contains_sym(x, depth + 1) for x in v.values()) or any(contains_sym(x, depth + 1) for x in v.keys())
    if isinstance(v, np.ndarray) and v.dtype == object:
        return any(contains_sym(x, depth + 1) for x in v.reshape(-1).tolist())
    if isinstance(v, slice):
        return any(contains_sym(x) for x in (v.start, v.stop, v.step))
    return False


# --------------------------------------------------------------------------
# uninterpreted real functions and their instance axioms

_UF = {}


def uf(name, arity=1):
    key = (name, arity)
    if key not in _UF:
        _UF[key] = z3.Function(name, *([z3.RealSort()] * arity), z3.RealSort())
    return _UF[key]


def _assume(t):
    if ctx.PATH is not None:
        ctx.PATH.pc.append(t)


def m_sqrt(x, numpy_semantics=False):
    if not is_sym(x):
        if isinstance(x, np.ndarray):
            return np_map(m_sqrt, x)
        if x < 0:
            raise PyRaise("ValueError", "math domain error (sqrt of a negative number)")
        r = math.sqrt(x)
        if ctx.PATH is not None and ctx.PATH.ghost.get("_exact_roots", True) and isinstance(x, (int, float)) and float(x).is_integer() and r * r != x and abs(x) < 1e6:
            # irrational square root of a small integer constant: keep it exact (symbolic) instead of a float approximation
            xr = z3.RealVal(int(x))
            st = uf("sqrt")(xr)
            _assume(st >= 0)
            _assume(st * st == xr)
            return Sym(st, "r", meta=("sqrt", int(x)))
        return r
    if bool(compare(x, 0, "<")):
        raise PyRaise("ValueError", "math domain error (sqrt of a negative number)")
    xr = as_real_term(x)
    s = uf("sqrt")(xr)
    _assume(s >= 0)
    _assume(s * s == xr)
    return Sym(s, "r", meta=("sqrt", x))


def _track(kind, arg_t, val_t):
    """instance axioms for exp/log applications on this path: inverse pair and strict monotonicity (pairwise)."""
    if ctx.PATH is None:
        return
    reg = ctx.PATH.ghost.setdefault("_explog", {"exp": [], "log": []})
    for a0, v0 in reg[kind]:
        if a0.eq(arg_t):
            return
        _assume((a0 < arg_t) == (v0 < val_t))
        _assume((a0 == arg_t) == (v0 == val_t))
    reg[kind].append((arg_t, val_t))


def m_exp(x):
    if is_sym(x) and x.meta and x.meta[0] == "log" and is_sym(x.meta[1]):
        return to_real(x.meta[1])        # exp(log(y)) = y for y > 0 (log's precondition was enforced at creation)
    if not is_sym(x):
        if isinstance(x, np.ndarray):
            return np_map(m_exp, x)
        if x == INF:
            return INF
        if x == -INF:
            return 0.0
        try:
            return math.exp(x)
        except OverflowError:
            raise PyRaise("OverflowError", "math range error")
    xr = as_real_term(x)
    if z3.is_app(xr) and xr.decl().kind() == z3.Z3_OP_ITE:
        # exp distributes over if-then-else (so that each branch gets its own instance axioms)
        e1, e0 = m_exp(Sym(xr.arg(1), "r")), m_exp(Sym(xr.arg(2), "r"))
        return Sym(z3.If(xr.arg(0), as_real_term(lift(e1)), as_real_term(lift(e0))), "r")
    e = uf("exp")(xr)
    _assume(e > 0)
    # homomorphism instance for a top-level sum/difference: exp(a +- b) = exp(a) */ exp(b)
    if z3.is_app(xr) and xr.decl().kind() in (z3.Z3_OP_ADD, z3.Z3_OP_SUB) and xr.num_args() == 2:
        a0, b0 = xr.arg(0), xr.arg(1)
        ea, eb = uf("exp")(a0), uf("exp")(b0)
        _assume(ea > 0)
        _assume(eb > 0)
        _assume(e == (ea * eb if xr.decl().kind() == z3.Z3_OP_ADD else ea / eb))
    _assume(uf("log")(e) == xr)
    _assume((xr == 0) == (e == 1))
    _assume((xr > 0) == (e > 1))
    _track("exp", xr, e)
    return Sym(e, "r", meta=("exp", x))


def m_log(x):
    if not is_sym(x):
        if isinstance(x, np.ndarray):
            return np_map(m_log, x)
        if x == INF:
            return INF
        if x <= 0:
            raise PyRaise("ValueError", "math domain error (log of a non-positive number)")
        return math.log(x)
    if x.meta and x.meta[0] == "exp" and is_sym(x.meta[1]):
        return to_real(x.meta[1])        # log(exp(y)) = y
    if bool(compare(x, 0, "<=")):
        raise PyRaise("ValueError", "math domain error (log of a non-positive number)")
    xr = as_real_term(x)
    l = uf("log")(xr)
    _assume(uf("exp")(l) == xr)
    _assume((xr == 1) == (l == 0))
    _assume((xr > 1) == (l > 0))
    _track("log", xr, l)
    return Sym(l, "r", meta=("log", x))


def m_unary_uf(name, doc=None, native=None):
    def f(x):
        if not is_sym(x):
            if isinstance(x, np.ndarray) and x.dtype == object:
                return np_map(f, x)
            return native(x)
        return Sym(uf(name)(as_real_term(x)), "r", meta=(name, x))
    f.__name__ = name
    return f


def _root_of(x, k):
    """non-negative real k-th root of x >= 0"""
    xr = as_real_term(lift(x))
    r = uf(f"root{k}")(xr)
    _assume(r >= 0)
    p = r
    for _ in range(k - 1):
        p = p * r
    _assume(p == xr)
    return Sym(r, "r", meta=("root", k, x))


def m_pow(a, b):
    if isinstance(a, np.ndarray) or isinstance(b, np.ndarray):
        return np_binop(None, ast.Pow, a, b)
    if not is_sym(b):
        if isinstance(b, bool):
            b = int(b)
        if isinstance(b, (int, np.integer)) or (isinstance(b, float) and b.is_integer() and abs(b) <= 64):
            n = int(b)
            was_float = isinstance(b, float)
            if n == 0:
                return 1.0 if was_float else 1
            if abs(n) > 64:
                raise Unsupported("large integer exponent")
            r = a
            for _ in range(abs(n) - 1):
                r = mul(r, a)
            if was_float:
                r = to_real(r)
            if n < 0:
                return truediv(1, r) if not (is_sym(a) and a.k == "i" and False) else r
            return r
        if isinstance(b, float):
            if b in (INF, -INF):
                raise Unsupported("infinite exponent")
            for k in (2, 3, 4, 5, 6):
                if abs(b - 1.0 / k) < 1e-15:
                    if bool(compare(a, 0, "<")):
                        raise Unsupported("root of a negative number (complex result)")
                    return _root_of(a, k)
            if abs(b + 0.5) < 1e-15:
                return truediv(1, m_sqrt(a))
    if not is_sym(a) and a in (INF,):
        if bool(compare(b, 0, ">")):
            return INF
        if bool(compare(b, 0, "<")):
            return 0.0
        return 1.0
    if not is_sym(a) and not isinstance(a, bool) and a == 0 and is_sym(b):
        # numpy semantics (np.float64 base): 0 ** negative = inf (Python floats would raise ZeroDivisionError)
        if bool(compare(b, 0, ">")):
            return 0.0
        if bool(compare(b, 0, "<")):
            return INF
        return 1.0
    # general power: uninterpreted pow(a, b), positive for a > 0
    at, bt = as_real_term(lift(a)), as_real_term(lift(b))
    p = uf("pow", 2)(at, bt)
    _assume(z3.Implies(at > 0, p > 0))
    return Sym(p, "r", meta=("pow", a, b))


def m_isqrt(z):
    if not is_sym(z):
        if z < 0:
            raise PyRaise("ValueError", "isqrt() argument must be nonnegative")
        return math.isqrt(z)
    if z.k == "r":
        raise PyRaise("TypeError", "isqrt of a float")
    if bool(compare(z, 0, "<")):
        raise PyRaise("ValueError", "isqrt() argument must be nonnegative")
    f = _UF.setdefault(("isqrt", "int"), z3.Function("isqrt", z3.IntSort(), z3.IntSort()))
    zt = as_int_term(z)
    m = f(zt)
    _assume(m >= 0)
    _assume(m * m <= zt)
    _assume(zt < (m + 1) * (m + 1))
    return Sym(m, "i", meta=("isqrt", z))


def m_floor(x):
    if is_sym(x) and x.meta and x.meta[0] == "div":
        a, b = lift(x.meta[1]), lift(x.meta[2])
        if a.k in "ib" and b.k in "ib":
            # floor of a quotient of integers = Python floor division: q*b <= a < (q+1)*b for b > 0 (mirrored for b < 0)
            q = Sym(z3.ToInt(x.t), "i")
            at, bt = as_int_term(a), as_int_term(b)
            _assume(z3.Implies(bt > 0, z3.And(q.t * bt <= at, at < (q.t + 1) * bt)))
            _assume(z3.Implies(bt < 0, z3.And(q.t * bt >= at, at > (q.t + 1) * bt)))
            return q
    if is_sym(x) and x.meta and x.meta[0] == "sqrt" and (not is_sym(x.meta[1]) or x.meta[1].k in "ib"):
        z = lift(x.meta[1])
        m = Sym(z3.ToInt(x.t), "i")
        zt = as_int_term(z)
        # consequences of s*s = z, m <= s < m+1, s >= 0 (real arithmetic), supplied as lemma instances
        _assume(m.t >= 0)
        _assume(m.t * m.t <= zt)
        _assume(zt < (m.t + 1) * (m.t + 1))
        return m
    return to_int_floor(x)


# --------------------------------------------------------------------------
# symbolic-length iterables

class SymRange:
    def __init__(self, start, stop, step=1):
        self.start, self.stop, self.step = start, stop, step

    def length(self):
        if self.step != 1:
            raise Unsupported("symbolic range with step != 1")
        d = sub(self.stop, self.start)
        return smax(d, 0)

    def at(self, interp, i):
        return add(self.start, i)


class SymZip:
    def __init__(self, interp, parts):
        self.parts = parts
        self.interp = interp

    def length(self):
        return smin([self.interp.length_of(p) for p in self.parts])

    def at(self, interp, i):
        return tuple(interp.element_at(p, i) for p in self.parts)


class SymEnumerate:
    def __init__(self, inner, start=0):
        self.inner = inner
        self.start = start

    def length(self):
        raise Unsupported

    def at(self, interp, i):
        return (add(self.start, i), interp.element_at(self.inner, i))


def _symbolic_len(interp, v):
    if isinstance(v, SymSeq):
        return concrete_value(v.length) is None
    if isinstance(v, (SymRange, SymZip)):
        return concrete_value(v.length()) is None
    if isinstance(v, SymEnumerate):
        return _symbolic_len(interp, v.inner)
    return False


SymEnumerate.length = lambda self: (self.inner.length if isinstance(self.inner, SymSeq) else self.inner.length())


# --------------------------------------------------------------------------
# SymSeq operations

def symseq_attr(interp, s: SymSeq, name):
    if name == "size":
        return s.length
    if name == "shape":
        return (s.length,)
    if name == "ndim":
        return 1
    if name == "copy":
        return Model(lambda interp: SymSeq(s.arr, s.length, s.kind, s.offset, s.name), "copy")
    raise Unsupported(f"attribute {name} of a symbolic-length array")


def symseq_getitem(interp, s: SymSeq, idx):
    if isinstance(idx, slice):
        if idx.step is not None and idx.step != 1:
            raise Unsupported("strided slice of symbolic sequence")
        n = s.length

        def norm(v, default):
            if v is None:
                return default
            if not is_sym(v) and v < 0:
                r = add(n, v)
                return smax(r, 0)
            if is_sym(v):
                r = If(compare(v, 0, "<"), smax(add(n, v), 0), smin(v, n))
                return r
            return smin(v, n)
        lo = norm(idx.start, 0)
        hi = norm(idx.stop, n)
        hi = smax(hi, lo)
        return s.slice(lo, hi)
    if isinstance(idx, Obj):
        m, _ = idx.cls.find("__index__")
        if m is None:
            raise PyRaise("TypeError", "bad index")
        idx = interp.call_function(m, [idx], {})
    return s.get(idx)


def symseq_map(interp, s: SymSeq, f):
    raise Unsupported("elementwise operation on a symbolic-length array")


def symseq_binop(interp, op, a, b):
    raise Unsupported("arithmetic on a symbolic-length array")


def symseq_compare(interp, o, a, b):
    raise Unsupported("comparison on a symbolic-length array")


def sym_attr(interp, s: Sym, name):
    if name == "real":
        return s
    if name == "size":
        return 1
    if name == "shape":
        return ()
    if name == "ndim":
        return 0
    if name == "is_integer":
        return Model(lambda interp: s.is_integer(), "is_integer")
    if name == "conjugate":
        return Model(lambda interp: s, "conjugate")
    if name == "item":
        return Model(lambda interp: s, "item")
    raise PyRaise("AttributeError", f"scalar has no attribute {name}")


# --------------------------------------------------------------------------
# numpy on object arrays

def to_obj_array(x):
    if isinstance(x, np.ndarray):
        return x if x.dtype == object else x.astype(object)
    if isinstance(x, (list, tuple)):
        out = np.empty(len(x), dtype=object)
        if any(isinstance(e, (list, tuple, np.ndarray)) for e in x):
            rows = [to_obj_array(e) for e in x]
            return np.array([r.tolist() for r in rows], dtype=object)
        for i, e in enumerate(x):
            out[i] = e
        return out
    a = np.empty((), dtype=object)
    a[()] = x
    return a


def np_map(f, arr):
    arr = to_obj_array(arr)
    out = np.empty(arr.shape, dtype=object)
    flat_in = arr.reshape(-1)
    flat_out = out.reshape(-1)
    for i in range(flat_in.size):
        flat_out[i] = f(flat_in[i])
    return _maybe_native(out)


def _maybe_native(out):
    if isinstance(out, np.ndarray) and out.dtype == object and not contains_sym(out):
        flat = out.reshape(-1).tolist()
        if all(isinstance(x, (bool, np.bool_)) for x in flat) and flat:
            return out.astype(bool)
        if all(isinstance(x, (int, float, np.integer, np.floating)) and not isinstance(x, bool) for x in flat) and flat:
            if all(isinstance(x, (int, np.integer)) for x in flat):
                return out.astype(np.int64)
            return out.astype(float)
    return out


_OPF = {ast.Add: add, ast.Sub: sub, ast.Mult: mul, ast.Div: truediv, ast.FloorDiv: floordiv, ast.Mod: mod, ast.Pow: power}


def np_truediv(x, y):
    """element division of numpy arrays: never raises; x / 0 is inf or nan in numpy -- modelled as an unspecified real
    (z3's total division is unspecified at 0), an over-approximation for everything except nan-specific comparisons"""
    from .sym import _conc, _is_inf, as_real_term as _art, _spv, _spop
    if _spv(x) or _spv(y):
        return _spop("div", x, y)
    if _conc(y) and not _is_inf(y) and y == 0:
        if _conc(x):
            with np.errstate(all="ignore"):
                return np.float64(x) / np.float64(0.0)
        return ctx.PATH.fresh("div0", "r")
    if (_conc(x) and _conc(y)) or _is_inf(x) or _is_inf(y) or _conc(y):
        return truediv(x, y)
    x, y = lift(x), lift(y)
    return Sym(_art(x) / _art(y), "r", meta=("div", x, y))


def _decay(out):
    """numpy arithmetic on 0-d arrays yields scalars"""
    if isinstance(out, np.ndarray) and out.ndim == 0:
        return out[()]
    return out


def np_binop(interp, op, a, b):
    return _decay(_np_binop(interp, op, a, b))


def _np_binop(interp, op, a, b):
    if not contains_sym(a) and not contains_sym(b):
        nat = {ast.Add: operator.add, ast.Sub: operator.sub, ast.Mult: operator.mul, ast.Div: operator.truediv,
               ast.FloorDiv: operator.floordiv, ast.Mod: operator.mod, ast.Pow: operator.pow, ast.MatMult: operator.matmul,
               ast.BitAnd: operator.and_, ast.BitOr: operator.or_}[op]
        with np.errstate(all="ignore"):
            try:
                return nat(a, b)
            except (TypeError, ValueError) as e:
                raise PyRaise(type(e).__name__, str(e))
    if op is ast.MatMult:
        return np_matmul(to_obj_array(a), to_obj_array(b))
    if op in (ast.BitAnd, ast.BitOr):
        f = (lambda x, y: And(x, y)) if op is ast.BitAnd else (lambda x, y: Or(x, y))
    elif op is ast.Div:
        f = np_truediv
    else:
        f = _OPF[op]
    A, B = to_obj_array(a), to_obj_array(b)
    try:
        bc = np.broadcast(A, B)
    except ValueError as e:
        raise PyRaise("ValueError", str(e))
    out = np.empty(bc.shape, dtype=object)
    out.reshape(-1)[:] = [f(x, y) for x, y in bc] if out.size else []
    return _maybe_native(out)


def np_matmul(A, B):
    inner_a = A.shape[-1] if A.ndim else None
    inner_b = B.shape[0] if B.ndim == 1 else (B.shape[-2] if B.ndim >= 2 else None)
    if inner_a is None or inner_b is None or inner_a != inner_b:
        raise PyRaise("ValueError", f"matmul: shapes {A.shape} and {B.shape} not aligned")
    if A.ndim == 1 and B.ndim == 1:
        return functools.reduce(add, [mul(x, y) for x, y in zip(A, B)], 0)
    if A.ndim == 2 and B.ndim == 1:
        out = np.empty(A.shape[0], dtype=object)
        for i in range(A.shape[0]):
            out[i] = functools.reduce(add, [mul(A[i, j], B[j]) for j in range(A.shape[1])], 0)
        return _maybe_native(out)
    if A.ndim == 1 and B.ndim == 2:
        out = np.empty(B.shape[1], dtype=object)
        for j in range(B.shape[1]):
            out[j] = functools.reduce(add, [mul(A[i], B[i, j]) for i in range(B.shape[0])], 0)
        return _maybe_native(out)
    if A.ndim == 2 and B.ndim == 2:
        out = np.empty((A.shape[0], B.shape[1]), dtype=object)
        for i in range(A.shape[0]):
            for j in range(B.shape[1]):
                out[i, j] = functools.reduce(add, [mul(A[i, k], B[k, j]) for k in range(A.shape[1])], 0)
        return _maybe_native(out)
    if A.ndim >= 2 and B.ndim >= 2:
        # stacked matrices: matmul over the last two axes, the leading axes broadcast (numpy semantics)
        try:
            lead = np.broadcast_shapes(A.shape[:-2], B.shape[:-2])
        except ValueError:
            raise PyRaise("ValueError", f"matmul: shapes {A.shape} and {B.shape} not aligned")
        Ab = np.broadcast_to(A, lead + A.shape[-2:])
        Bb = np.broadcast_to(B, lead + B.shape[-2:])
        out = np.empty(lead + (A.shape[-2], B.shape[-1]), dtype=object)
        for idx in np.ndindex(*lead):
            out[idx] = np_matmul(np.asarray(Ab[idx], dtype=object), np.asarray(Bb[idx], dtype=object))
        return _maybe_native(out)
    raise Unsupported("matmul rank")


def np_compare(interp, o, a, b):
    if not contains_sym(a) and not contains_sym(b):
        f = {"<": operator.lt, "<=": operator.le, ">": operator.gt, ">=": operator.ge, "==": operator.eq, "!=": operator.ne}[o]
        return f(a, b)
    A, B = to_obj_array(a), to_obj_array(b)
    bc = np.broadcast(A, B)
    out = np.empty(bc.shape, dtype=object)
    out.reshape(-1)[:] = [compare(x, y, o) for x, y in bc] if out.size else []
    return _maybe_native(out)


def fancy_index(interp, o, idx):
    # boolean mask with symbolic entries: fork on each entry
    sel = [interp.truth(x) if is_sym(x) else bool(x) for x in idx.tolist()]
    if isinstance(o, np.ndarray):
        return o[np.array(sel, dtype=bool)]
    raise Unsupported("fancy index")


def ndarray_attr(interp, o, name):
    if name in ("size", "shape", "ndim", "dtype", "T"):
        return getattr(o, name)
    if o.dtype != object:
        return getattr(o, name)
    if name in ("sum", "cumsum", "prod", "cumprod", "copy", "tolist", "reshape", "flatten", "ravel", "transpose", "dot", "astype", "item"):
        if name == "astype":
            def _astype(interp, t, **k):
                tt = t.pytype if isinstance(t, Model) else t
                if tt is int:
                    return np_map(to_int_trunc, o)
                return o.copy()
            return Model(_astype, "astype")
        return getattr(o, name)
    if name in ("max", "min"):
        f = smax if name == "max" else smin
        return Model(lambda interp, *a, **k: f(o.reshape(-1).tolist()), name)
    if name == "mean":
        return Model(lambda interp, *a, **k: np_mean(interp, o, *a, **k), "mean")
    if name == "any":
        return Model(lambda interp: Or(*o.reshape(-1).tolist()) if o.size else False, "any")
    if name == "all":
        return Model(lambda interp: And(*o.reshape(-1).tolist()) if o.size else True, "all")
    raise Unsupported(f"ndarray.{name} on a symbolic array")


def np_mean(interp, a, axis=None, **kw):
    A = to_obj_array(a)
    if axis is None:
        flat = A.reshape(-1).tolist()
        if not flat:
            raise PyRaise("ValueError", "mean of empty array")
        return truediv(functools.reduce(add, flat), len(flat))
    if axis == 0:
        if A.ndim == 1:
            return np_mean(interp, A)
        if A.shape[0] == 0:
            raise PyRaise("ValueError", "mean of empty array")
        out = np.empty(A.shape[1:], dtype=object)
        flat = out.reshape(-1)
        cols = A.reshape(A.shape[0], -1)
        for j in range(cols.shape[1]):
            flat[j] = truediv(functools.reduce(add, cols[:, j].tolist()), A.shape[0])
        return _maybe_native(out)
    if axis in (1, -1) and A.ndim == 2:
        return _maybe_native(to_obj_array([np_mean(interp, A[i, :]) for i in range(A.shape[0])]))
    raise Unsupported("mean axis")


# --------------------------------------------------------------------------
# native call gateway

NP_MODELS: dict = {}       # id(function) -> model(interp, *args, **kwargs)
OBJECT_SAFE: set = set()   # id(function) that may run natively on object arrays


def register_model(fn, model=None):
    def deco(m):
        NP_MODELS[id(fn)] = m
        if getattr(fn, "__self__", None) is not None and not isinstance(fn.__self__, type(np)):
            NP_MODELS[(id(fn.__self__), fn.__name__)] = m      # bound methods are re-created on every attribute access
        _KEEP.append(fn)
        return m
    if model is not None:
        return deco(model)
    return deco


_KEEP: list = []


def callable_natively(k):
    return callable(k) and not isinstance(k, (Model, FuncVal, BoundMethod, PartialVal))


def native_call(interp, f, args, kwargs):
    if isinstance(getattr(f, "__self__", None), str):
        # string formatting of symbolic values (error messages): placeholders
        args = ["<sym>" if is_sym(a) else a for a in args]
        kwargs = {k: ("<sym>" if is_sym(v) else v) for k, v in kwargs.items()}
        try:
            return f(*args, **kwargs)
        except (ValueError, TypeError, IndexError, KeyError):
            return "<formatted>"
    if getattr(f, "__name__", "") == "sort" and isinstance(getattr(f, "__self__", None), list) and kwargs.get("key") is not None and not callable_natively(kwargs["key"]):
        lst = f.__self__
        keys = [interp.call(kwargs["key"], [x], {}) for x in lst]
        order = sorted(range(len(lst)), key=lambda i: keys[i], reverse=bool(kwargs.get("reverse", False)))    # comparisons of symbolic keys fork
        lst[:] = [lst[i] for i in order]
        return None
    if type(getattr(f, "__self__", None)).__module__.startswith("contracts."):
        return f(*args, **kwargs)           # a method of an abstraction object supplied by a contract (e.g. a ledger pool)
    nh = getattr(interp, "native_hooks", None)
    if nh:
        h = nh.get(id(f))
        if h is None and getattr(f, "__self__", None) is not None:
            h = nh.get((id(f.__self__), getattr(f, "__name__", "")))
        if h is not None:
            return h(interp, *args, **kwargs)       # contract-supplied abstraction of a library call (e.g. a random draw)
    from .spval import contains_spval, sp_native
    if contains_spval(args) or contains_spval(kwargs):
        r = sp_native(f, args, kwargs)
        if r is not NotImplemented:
            return r
        m_ = NP_MODELS.get(id(f))
        if m_ is not None and getattr(m_, "sp_ok", False):
            return m_(interp, *args, **kwargs)
        try:
            return f(*args, **kwargs)       # numpy's object protocol calls the SpVal methods
        except Exception as e:
            raise Unsupported(f"analytic mode: {getattr(f, '__name__', f)}: {type(e).__name__}: {e}")
    sym = contains_sym(args) or contains_sym(kwargs)
    m = NP_MODELS.get(id(f))
    if m is None and getattr(f, "__self__", None) is not None:
        m = NP_MODELS.get((id(f.__self__), getattr(f, "__name__", "")))
    if m is not None and (sym or getattr(m, "always", False)):
        return m(interp, *args, **kwargs)
    if not sym:
        try:
            with np.errstate(all="ignore"):
                return f(*args, **kwargs)
        except (ValueError, TypeError, IndexError, KeyError, ZeroDivisionError, OverflowError, AttributeError,
                StopIteration, ArithmeticError, NotImplementedError, AssertionError) as e:
            raise PyRaise(type(e).__name__, str(e))
    if isinstance(f, type) and issubclass(f, tuple) and hasattr(f, "_fields"):
        return f(*args, **kwargs)       # namedtuple construction: a container of whatever values it is given
    if id(f) in OBJECT_SAFE or (getattr(f, "__self__", None) is not None and isinstance(f.__self__, (list, dict, set, collections.deque, tuple))):
        args2 = [to_obj_array(a) if isinstance(a, np.ndarray) else a for a in args]
        try:
            r = f(*args2, **kwargs)
        except (ValueError, TypeError, IndexError, KeyError) as e:
            raise PyRaise(type(e).__name__, str(e))
        return r
    if getattr(f, "__self__", None) is not None and isinstance(f.__self__, np.ndarray):
        try:
            return f(*args, **kwargs)
        except (ValueError, TypeError, IndexError) as e:
            raise PyRaise(type(e).__name__, str(e))
    name = getattr(f, "__qualname__", None) or getattr(f, "__name__", repr(f))
    mod_ = getattr(f, "__module__", "")
    raise Unsupported(f"library function {mod_}.{name} called with symbolic arguments has no model")


def _always(m):
    m.always = True
    return m


# --------------------------------------------------------------------------
# builtins

class ObjectNew(Model):
    def __init__(self, interp):
        super().__init__(lambda interp, cls, *a, **k: Obj(cls), "object.__new__")


def make_builtins(interp):
    B = {}

    def b_len(interp, x):
        if isinstance(x, (Obj, SymSeq, SymRange, SymZip, SymEnumerate)):
            return interp.length_of(x)
        if is_sym(x):
            raise PyRaise("TypeError", "object of type scalar has no len()")
        try:
            return len(x)
        except TypeError as e:
            raise PyRaise("TypeError", str(e))

    def b_range(interp, *a):
        if any(is_sym(x) for x in a):
            c = [concrete_value(x) if is_sym(x) else x for x in a]
            if all(x is not None for x in c):
                return range(*c)
            if len(a) == 1:
                return SymRange(0, a[0])
            if len(a) == 2:
                return SymRange(a[0], a[1])
            return SymRange(a[0], a[1], a[2])
        try:
            return range(*[int(x) if isinstance(x, np.integer) else x for x in a])
        except TypeError as e:
            raise PyRaise("TypeError", str(e))

    def b_zip(interp, *parts, strict=False):
        if any(_symbolic_len(interp, p) for p in parts):
            return SymZip(interp, list(parts))
        return list(zip(*[list(interp.iterate(p)) for p in parts]))

    def b_enumerate(interp, it, start=0):
        if _symbolic_len(interp, it):
            return SymEnumerate(it, start)
        return [(add(start, i), x) for i, x in enumerate(interp.iterate(it))]

    def b_map(interp, f, *its):
        return [interp.call(f, list(xs), {}) for xs in zip(*[list(interp.iterate(i)) for i in its])]

    def b_filter(interp, f, it):
        return [x for x in interp.iterate(it) if interp.truth(interp.call(f, [x], {}) if f is not None else x)]

    def _minmax(pick):
        def f(interp, *a, key=None, default=None):
            items = list(interp.iterate(a[0])) if len(a) == 1 else list(a)
            if not items:
                if default is not None:
                    return default
                raise PyRaise("ValueError", "min()/max() arg is an empty sequence")
            if key is not None:
                keys = [interp.call(key, [x], {}) for x in items]
                best, bk = items[0], keys[0]
                for x, k in zip(items[1:], keys[1:]):
                    better = compare(k, bk, ">" if pick == "max" else "<")
                    if interp.truth(better):
                        best, bk = x, k
                return best
            if all(is_sym(x) or is_num(x) or isinstance(x, (np.integer, np.floating)) for x in items):
                if any(isinstance(x, float) and math.isinf(x) for x in items) and any(is_sym(x) for x in items):
                    # extended reals: fold with forking comparison
                    best = items[0]
                    for x in items[1:]:
                        c = compare(x, best, ">" if pick == "max" else "<")
                        if interp.truth(c):
                            best = x
                    return best
                return (smax if pick == "max" else smin)(items)
            best = items[0]
            for x in items[1:]:
                c = interp.compare_op(ast.Gt() if pick == "max" else ast.Lt(), x, best)
                if interp.truth(c):
                    best = x
            return best
        return f

    def b_sum(interp, it, start=0):
        r = start
        for x in interp.iterate(it):
            r = interp.binop(ast.Add, r, x)
        return r

    def b_abs(interp, x):
        if isinstance(x, Obj):
            m, _ = x.cls.find("__abs__")
            return interp.call_function(m, [x], {})
        if isinstance(x, np.ndarray) and x.dtype == object:
            return np_map(abs, x)
        if isinstance(x, float) and math.isinf(x):
            return INF
        return abs(x)

    def b_all(interp, it):
        for x in interp.iterate(it):
            if not interp.truth(x):
                return False
        return True

    def b_any(interp, it):
        for x in interp.iterate(it):
            if interp.truth(x):
                return True
        return False

    def b_sorted(interp, it, key=None, reverse=False):
        items = list(interp.iterate(it))
        if key is not None:
            keyed = [(interp.call(key, [x], {}), x) for x in items]
        else:
            keyed = [(x, x) for x in items]
        # insertion sort with forking comparisons (stable)
        out = []
        for k, x in keyed:
            pos = len(out)
            for j in range(len(out)):
                if interp.truth(compare(k, out[j][0], "<")):
                    pos = j
                    break
            out.insert(pos, (k, x))
        res = [x for _, x in out]
        return res[::-1] if reverse else res

    def b_reversed(interp, it):
        if isinstance(it, Obj):
            m, _ = it.cls.find("__reversed__")
            if m is not None:
                return interp.call_function(m, [it], {})
        return list(interp.iterate(it))[::-1]

    def b_list(interp, it=()):
        return list(interp.iterate(it))

    def b_tuple(interp, it=()):
        return tuple(interp.iterate(it))

    def b_set(interp, it=()):
        return set(interp.iterate(it))

    def b_dict(interp, *a, **k):
        return dict(*a, **k)

    def b_int(interp, x=0, *rest):
        if isinstance(x, Obj):
            m, _ = x.cls.find("__int__")
            if m is None:
                raise PyRaise("TypeError", "int() argument")
            return interp.call_function(m, [x], {})
        if is_sym(x):
            return to_int_trunc(x)
        if isinstance(x, float) and (math.isinf(x) or math.isnan(x)):
            raise PyRaise("OverflowError" if math.isinf(x) else "ValueError", "cannot convert float infinity/nan to integer")
        try:
            return int(x, *rest)
        except (ValueError, TypeError) as e:
            raise PyRaise(type(e).__name__, str(e))

    def b_float(interp, x=0.0):
        if isinstance(x, Obj):
            m, _ = x.cls.find("__float__")
            if m is None:
                raise PyRaise("TypeError", "float() argument")
            return interp.call_function(m, [x], {})
        if is_sym(x):
            return to_real(x)
        if isinstance(x, np.ndarray) and x.dtype == object and x.size == 1:
            return b_float(interp, x.reshape(-1)[0])
        try:
            return float(x)
        except (ValueError, TypeError) as e:
            raise PyRaise(type(e).__name__, str(e))

    def b_bool(interp, x=False):
        return interp.truth(x)

    def b_str(interp, x=""):
        return "<sym>" if is_sym(x) else str(x)

    def type_matches(v, T):
        if isinstance(T, tuple):
            return any(type_matches(v, t) for t in T)
        if isinstance(T, ClassVal):
            if isinstance(v, Obj):
                return v.cls.is_subclass_of(T)
            if isinstance(v, EnumMember):
                return v.cls.is_subclass_of(T)
            return False
        if isinstance(T, Model) and T.pytype is not None:
            T = T.pytype
        if isinstance(T, ExcClass):
            return isinstance(v, ExcInstance) and v.type_name == T.name
        if isinstance(T, (TypingThing, Opaque)):
            raise Unsupported(f"isinstance against {T}")
        if T is collections.abc.Iterable:
            if isinstance(v, Obj):
                return v.cls.find("__iter__")[0] is not None
            if isinstance(v, (SymSeq, SymRange, SymZip, SymEnumerate)):
                return True
            if isinstance(v, Sym):
                return False
            return isinstance(v, collections.abc.Iterable)
        if isinstance(v, Sym):
            if T is float:
                return v.k == "r"
            if T is int:
                return v.k in "ib"
            if T is bool:
                return v.k == "b"
            if T in (np.floating, np.float64):
                return v.k == "r"
            if T is object:
                return True
            try:
                import numbers
                if T is numbers.Number or T is numbers.Real:
                    return True
            except Exception:
                pass
            return False
        if isinstance(v, SymSeq):
            return T in (np.ndarray, object, collections.abc.Sequence)
        if isinstance(v, (Obj, FuncVal, ClassVal, EnumMember)):
            if T is object:
                return True
            if T is type:
                return isinstance(v, ClassVal)
            return False
        try:
            return isinstance(v, T)
        except TypeError as e:
            raise Unsupported(f"isinstance: {e}")

    def b_isinstance(interp, v, T):
        return type_matches(v, T)

    def b_issubclass(interp, c, T):
        if isinstance(c, ClassVal) and isinstance(T, ClassVal):
            return c.is_subclass_of(T)
        if isinstance(c, ClassVal):
            return False
        return issubclass(c, T)

    def b_type(interp, v):
        if isinstance(v, Obj):
            return v.cls
        if isinstance(v, EnumMember):
            return v.cls
        if isinstance(v, Sym):
            return B["float"] if v.k == "r" else B["int"] if v.k == "i" else B["bool"]
        t = type(v)
        return {float: B["float"], int: B["int"], bool: B["bool"]}.get(t, t)

    def b_hasattr(interp, o, name):
        try:
            interp.getattr(o, name)
            return True
        except PyRaise:
            return False

    def b_getattr(interp, o, name, *default):
        try:
            return interp.getattr(o, name)
        except PyRaise:
            if default:
                return default[0]
            raise

    def b_setattr(interp, o, name, v):
        interp.setattr(o, name, v)

    def b_callable(interp, o):
        return isinstance(o, (FuncVal, BoundMethod, ClassVal, Model, PartialVal)) or (isinstance(o, Obj) and o.cls.find("__call__")[0] is not None) or callable(o)

    def b_iter(interp, it):
        return _Iter(list(interp.iterate(it)))

    def b_next(interp, it, *default):
        if isinstance(it, _Iter):
            if it.pos < len(it.items):
                it.pos += 1
                return it.items[it.pos - 1]
        elif isinstance(it, LazyGen):
            for x in it.gen:
                return x
        elif isinstance(it, list):   # eagerly evaluated iterable
            if it:
                return it[0]
        else:
            raise Unsupported("next() on unknown iterator")
        if default:
            return default[0]
        raise PyRaise("StopIteration", "")

    def b_divmod(interp, a, b):
        return floordiv(a, b), mod(a, b)

    def b_pow(interp, a, b, m=None):
        if m is not None:
            return mod(power(a, b), m)
        return power(a, b)

    def b_round(interp, x, nd=None):
        if is_sym(x):
            raise Unsupported("round of symbolic value")
        return round(x, nd) if nd is not None else round(x)

    def b_super(interp, cls=None, obj=None):
        return SuperProxy(obj, cls)

    def b_print(interp, *a, **k):
        return None

    def b_id(interp, o):
        return id(o)

    def b_property(interp, fget=None, fset=None, *a):
        return PropertyDescriptor(fget, fset)

    B.update({
        "len": Model(b_len, "len"), "range": Model(b_range, "range", range), "zip": Model(b_zip, "zip"),
        "enumerate": Model(b_enumerate, "enumerate"), "map": Model(b_map, "map"), "filter": Model(b_filter, "filter"),
        "min": Model(_minmax("min"), "min"), "max": Model(_minmax("max"), "max"), "sum": Model(b_sum, "sum"),
        "abs": Model(b_abs, "abs"), "all": Model(b_all, "all"), "any": Model(b_any, "any"),
        "sorted": Model(b_sorted, "sorted"), "reversed": Model(b_reversed, "reversed"),
        "list": Model(b_list, "list", list), "tuple": Model(b_tuple, "tuple", tuple), "set": Model(b_set, "set", set),
        "dict": Model(b_dict, "dict", dict), "int": Model(b_int, "int", int), "float": Model(b_float, "float", float),
        "bool": Model(b_bool, "bool", bool), "str": Model(b_str, "str", str), "repr": Model(b_str, "repr"),
        "isinstance": Model(b_isinstance, "isinstance"), "issubclass": Model(b_issubclass, "issubclass"),
        "vars": Model(lambda interp, o: (o.fields if isinstance(o, Obj) else vars(o)), "vars"),      # the instance dictionary itself
        "type": Model(b_type, "type", type), "hasattr": Model(b_hasattr, "hasattr"), "getattr": Model(b_getattr, "getattr"),
        "setattr": Model(b_setattr, "setattr"), "callable": Model(b_callable, "callable"), "iter": Model(b_iter, "iter"),
        "next": Model(b_next, "next"), "divmod": Model(b_divmod, "divmod"), "pow": Model(b_pow, "pow"),
        "round": Model(b_round, "round"), "super": Model(b_super, "super"), "print": Model(b_print, "print"),
        "id": Model(b_id, "id"), "property": Model(b_property, "property"),
        "object": ClassVal("object", ModuleVal("builtins", None), [], "object"),
        "True": True, "False": False, "None": None, "NotImplemented": NotImplemented, "Ellipsis": Ellipsis,
        "staticmethod": Model(lambda interp, f: _set_kind(f, "static"), "staticmethod"),
        "classmethod": Model(lambda interp, f: _set_kind(f, "classmethod"), "classmethod"),
        "slice": slice, "complex": complex, "frozenset": frozenset, "bytes": bytes,
        "__debug__": True,
    })
    names = set(EXC_PARENTS) | {"Warning", "UserWarning", "DeprecationWarning", "RuntimeWarning", "OSError", "IOError"}
    for n in names:
        B[n] = ExcClass(n)
    interp.type_matches = type_matches
    return B


def _set_kind(f, kind):
    if isinstance(f, FuncVal):
        f.kind = kind
    return f


class LazyGen:
    """a generator expression: consumed lazily, once"""

    def __init__(self, gen):
        self.gen = gen

    def __iter__(self):
        return self.gen


class _Iter:
    def __init__(self, items):
        self.items = items
        self.pos = 0

    def __iter__(self):
        while self.pos < len(self.items):
            self.pos += 1
            yield self.items[self.pos - 1]


class PropertyDescriptor(Descriptor):
    def __init__(self, fget, fset):
        self.fget, self.fset = fget, fset

    def get(self, interp, obj):
        return interp.call(self.fget, [obj], {})

    def set(self, interp, obj, value):
        if self.fset is None:
            raise PyRaise("AttributeError", "can't set attribute")
        interp.call(self.fset, [obj, value], {})


# --------------------------------------------------------------------------
# external modules

def make_externals(interp):
    E = {}

    # ---- math
    def m1(model):
        return lambda interp, x: model(x)
    math_attrs = {}
    register_model(math.floor, lambda interp, x: m_floor(x))
    register_model(math.ceil, lambda interp, x: to_int_ceil(x))
    register_model(math.sqrt, _always(lambda interp, x: m_sqrt(x)))
    register_model(math.exp, lambda interp, x: m_exp(x))
    register_model(math.log, lambda interp, x, base=None: m_log(x) if base is None else truediv(m_log(x), m_log(base)))
    register_model(math.fabs, lambda interp, x: abs(x))
    register_model(math.isinf, lambda interp, x: False)
    register_model(math.isnan, lambda interp, x: False)
    register_model(math.isfinite, lambda interp, x: True)
    register_model(math.pow, lambda interp, a, b: m_pow(to_real(a), b))
    register_model(math.prod, lambda interp, it, start=1: functools.reduce(mul, list(interp.iterate(it)), start))
    math_attrs["prod"] = _always_model(lambda interp, it, start=1: functools.reduce(mul, list(interp.iterate(it)), start), "prod")
    register_model(math.trunc, lambda interp, x: to_int_trunc(x))
    register_model(math.isqrt, lambda interp, x: m_isqrt(x))
    register_model(math.erf, lambda interp, x: Sym(uf("erf")(as_real_term(x)), "r", meta=("erf", x)))
    register_model(math.erfc, lambda interp, x: sub(1, Sym(uf("erf")(as_real_term(x)), "r", meta=("erf", x))))
    register_model(math.gamma, lambda interp, x: Sym(uf("gamma")(as_real_term(x)), "r", meta=("gamma", x)))
    register_model(math.cos, lambda interp, x: Sym(uf("cos")(as_real_term(x)), "r", meta=("cos", x)))
    register_model(math.sin, lambda interp, x: Sym(uf("sin")(as_real_term(x)), "r", meta=("sin", x)))
    register_model(math.copysign, lambda interp, a, b: If(compare(b, 0, ">="), abs(a), -abs(a)))

    def m_factorial(interp, n):
        if is_sym(n):
            raise Unsupported("factorial of symbolic value")
        return math.factorial(n)
    register_model(math.factorial, m_factorial)
    E["math"] = LibModule("math", math, math_attrs)

    # ---- numpy
    install_numpy_models(interp)
    PI = Sym(z3.Real("pi_const"), "r")

    class _PiModule(LibModule):
        """math / numpy with pi as a symbolic constant (3.14159 < pi < 3.1416), so that closed forms stay exact"""

        def get(self, name):
            if name == "pi":
                if ctx.PATH is not None:
                    key = "_pi_axiom"
                    if key not in ctx.PATH.ghost:
                        ctx.PATH.ghost[key] = True
                        _assume(z3.And(PI.t > z3.RealVal("3.14159"), PI.t < z3.RealVal("3.1416")))
                    return PI
                return math.pi
            return super().get(name)
    E["math"] = _PiModule("math", math, math_attrs)
    np_attrs = {"float": Model(interp.builtins["float"].fn, "float", float)}
    E["numpy"] = _PiModule("numpy", np, np_attrs)
    E["numpy.random"] = LibModule("numpy.random", np.random, {})
    E["numpy.linalg"] = LibModule("numpy.linalg", np.linalg, {})

    # ---- functools / itertools / operator / copy / collections / bisect
    def f_partial(interp, f, *a, **k):
        return PartialVal(f, a, k)

    def f_reduce(interp, f, it, *init):
        items = list(interp.iterate(it))
        if init:
            acc = init[0]
        else:
            if not items:
                raise PyRaise("TypeError", "reduce() of empty iterable with no initial value")
            acc, items = items[0], items[1:]
        for x in items:
            acc = interp.call(f, [acc, x], {})
        return acc

    def passthrough_decorator(interp, *a, **k):
        # lru_cache(maxsize=..) / cache / wraps(f): identity decorators (dropping a cache is sound only for pure
        # functions; purity is part of the contract where it matters)
        if len(a) == 1 and isinstance(a[0], (FuncVal, BoundMethod)) and not k:
            return a[0]
        return Model(lambda interp, f: f, "decorator")
    E["functools"] = LibModule("functools", functools, {
        "partial": Model(f_partial, "partial"), "reduce": Model(f_reduce, "reduce"),
        "lru_cache": Model(passthrough_decorator, "lru_cache"), "cache": Model(passthrough_decorator, "cache"),
        "wraps": Model(passthrough_decorator, "wraps"), "cached_property": Opaque("cached_property object"),
        "singledispatch": Opaque("singledispatch object"), "singledispatchmethod": Opaque("singledispatchmethod object"),
    })

    def it_product(interp, *its, repeat=1):
        pools = [list(interp.iterate(i)) for i in its] * repeat
        return _Iter(list(itertools.product(*pools)))      # a consumable iterator, as itertools.product

    def it_accumulate(interp, it, func=None, initial=None):
        items = list(interp.iterate(it))
        out = []
        acc = initial
        if initial is not None:
            out.append(acc)
        for x in items:
            if acc is None and not out:
                acc = x
            else:
                acc = interp.call(func, [acc, x], {}) if func is not None else interp.binop(ast.Add, acc, x)
            out.append(acc)
        return out

    def it_combinations(interp, it, r):
        return list(itertools.combinations(list(interp.iterate(it)), r))

    def it_chain(interp, *its):
        out = []
        for i in its:
            out.extend(interp.iterate(i))
        return out
    E["itertools"] = LibModule("itertools", itertools, {
        "product": Model(it_product, "product"), "accumulate": Model(it_accumulate, "accumulate"),
        "combinations": Model(it_combinations, "combinations"), "chain": Model(it_chain, "chain"),
    })
    import bisect as _bisect

    def b_bisect_left(interp, a, x, lo=0, hi=None):
        """bisect.bisect_left on a list / deque with symbolic entries: the comparisons fork (same algorithm as the C one)"""
        hi = len(a) if hi is None else hi
        while lo < hi:
            mid = (lo + hi) // 2
            if interp.truth(compare(a[mid], x, "<")):
                lo = mid + 1
            else:
                hi = mid
        return lo

    def b_bisect_right(interp, a, x, lo=0, hi=None):
        hi = len(a) if hi is None else hi
        while lo < hi:
            mid = (lo + hi) // 2
            if interp.truth(compare(x, a[mid], "<")):
                hi = mid
            else:
                lo = mid + 1
        return lo
    register_model(_bisect.bisect_left, b_bisect_left)
    register_model(_bisect.bisect_right, b_bisect_right)
    register_model(_bisect.bisect, b_bisect_right)
    E["bisect"] = LibModule("bisect", _bisect, {})
    E["operator"] = LibModule("operator", operator, {
        "mul": Model(lambda interp, a, b: interp.binop(ast.Mult, a, b), "mul"),
        "add": Model(lambda interp, a, b: interp.binop(ast.Add, a, b), "add"),
        "sub": Model(lambda interp, a, b: interp.binop(ast.Sub, a, b), "sub"),
        "attrgetter": Model(lambda interp, name: Model(lambda interp2, o: interp2.getattr(o, name), f"attrgetter({name})"), "attrgetter"),
    })

    def c_deepcopy(interp, v, memo=None):
        memo = {} if memo is None else memo
        return deep_copy(v, memo)

    def c_copy(interp, v):
        if isinstance(v, Obj):
            o = Obj(v.cls)
            o.fields = dict(v.fields)
            return o
        if isinstance(v, SymSeq):
            return SymSeq(v.arr, v.length, v.kind, v.offset, v.name)
        return _copy.copy(v)
    E["copy"] = LibModule("copy", _copy, {"deepcopy": Model(c_deepcopy, "deepcopy"), "copy": Model(c_copy, "copy")})

    def c_deque(interp, it=(), maxlen=None):
        return collections.deque(interp.iterate(it), maxlen)
    E["collections"] = LibModule("collections", collections, {"deque": Model(c_deque, "deque", collections.deque)})
    E["collections.abc"] = LibModule("collections.abc", collections.abc, {})
    import bisect
    E["bisect"] = LibModule("bisect", bisect, {})
    import fractions
    E["fractions"] = LibModule("fractions", fractions, {})
    import numbers
    E["numbers"] = LibModule("numbers", numbers, {})

    def qdiv(interp, n, d=1):
        if is_sym(n) or is_sym(d):
            # exact rational quotient; only floor()/% are applied to it in rpylib
            return truediv(n, d)
        return Fraction(n, d)
    E["gmpy2"] = LibModule("gmpy2", None, {"qdiv": Model(qdiv, "qdiv")})

    # ---- typing / abc / enum / logging / misc: inert
    class _TypingMod(LibModule):
        def get(self, name):
            return TypingThing(name)
    E["typing"] = _TypingMod("typing")
    E["abc"] = LibModule("abc", None, {"ABC": ClassVal("ABC", ModuleVal("abc", None), [], "ABC"),
                                       "abstractmethod": Model(lambda interp, f: f, "abstractmethod"),
                                       "ABCMeta": Opaque("ABCMeta")})
    enum_cls = ClassVal("Enum", ModuleVal("enum", None), [], "Enum")
    enum_cls.is_enum = True
    E["enum"] = LibModule("enum", None, {"Enum": enum_cls, "IntEnum": enum_cls, "auto": Model(lambda interp: object(), "auto")})
    for inert in ("logging", "matplotlib", "matplotlib.pyplot", "tqdm", "warnings", "time", "os", "sys", "pathlib",
                  "multiprocessing", "pathos", "pathos.multiprocessing", "pandas", "seaborn", "random", "statsmodels",
                  "statsmodels.api", "numba", "mpmath", "datetime", "pickle", "json", "dataclasses", "inspect",
                  "scipy.stats", "scipy.integrate", "scipy.optimize", "scipy.special", "scipy.linalg", "scipy", "sympy",
                  "scipy.interpolate", "scipy.fft", "numpy.fft"):
        if inert not in E:
            E[inert] = LibModule(inert, None, {})
    install_scipy_models(interp, E)
    return E


def _always_model(fn, name):
    m = Model(fn, name)
    return m


def deep_copy(v, memo):
    if id(v) in memo:
        return memo[id(v)]
    if isinstance(v, Obj):
        o = Obj(v.cls)
        memo[id(v)] = o
        for k, x in v.fields.items():
            o.fields[k] = deep_copy(x, memo)
        return o
    if isinstance(v, SymSeq):
        return SymSeq(v.arr, v.length, v.kind, v.offset, v.name)
    if isinstance(v, list):
        out = []
        memo[id(v)] = out
        out.extend(deep_copy(x, memo) for x in v)
        return out
    if isinstance(v, tuple):
        return tuple(deep_copy(x, memo) for x in v)
    if isinstance(v, dict):
        out = {}
        memo[id(v)] = out
        for k, x in v.items():
            out[k] = deep_copy(x, memo)
        return out
    if isinstance(v, np.ndarray):
        if v.dtype == object:
            out = np.empty(v.shape, dtype=object)
            out.reshape(-1)[:] = [deep_copy(x, memo) for x in v.reshape(-1).tolist()]
            return out
        return v.copy()
    if isinstance(v, collections.deque):
        return collections.deque(deep_copy(x, memo) for x in v)
    if isinstance(v, (Sym, FuncVal, ClassVal, EnumMember, BoundMethod, Model, PartialVal, Opaque)) or v is None:
        if isinstance(v, BoundMethod):
            return BoundMethod(v.func, deep_copy(v.self_obj, memo))
        return v
    if isinstance(v, (int, float, str, bool, Fraction, complex, bytes, range)):
        return v
    if isinstance(v, set):
        return set(deep_copy(x, memo) for x in v)
    return _copy.deepcopy(v)


# --------------------------------------------------------------------------
# numpy models

def install_numpy_models(interp):
    for f in (np.concatenate, np.cumsum, np.sum, np.diff, np.insert, np.append, np.prod, np.cumprod, np.flip,
              np.atleast_1d, np.atleast_2d, np.hstack, np.vstack, np.stack, np.reshape, np.ravel, np.transpose,
              np.repeat, np.tile, np.roll, np.delete, np.take, np.squeeze, np.expand_dims, np.dot, np.outer,
              np.column_stack, np.copy, np.trace, np.diag, np.identity, np.eye, np.split, np.array_split, np.shape,
              np.ndim, np.size, np.flipud, np.fliplr, np.swapaxes, np.moveaxis, np.broadcast_to):
        OBJECT_SAFE.add(id(f))
        _KEEP.append(f)

    def n_array(interp, obj, dtype=None, copy=True, **kw):
        if isinstance(obj, SymSeq):
            return SymSeq(obj.arr, obj.length, obj.kind, obj.offset, obj.name)
        if isinstance(obj, np.ndarray):
            return obj.copy() if copy else obj
        if isinstance(obj, (list, tuple)):
            items = list(obj)
            if contains_sym(items):
                if any(isinstance(x, SymSeq) for x in items):
                    raise Unsupported("array of symbolic-length arrays")
                arr = to_obj_array([list(interp.iterate(x)) if isinstance(x, (list, tuple, np.ndarray, Obj)) else x for x in items])
                if dtype in (int, np.int64, "int") or dtype is interp.builtins["int"]:
                    return np_map(to_int_trunc, arr)
                return arr
        if is_sym(obj):
            return to_obj_array(obj)
        if isinstance(dtype, Model):
            dtype = dtype.pytype
        try:
            return np.array(obj, dtype=dtype)
        except (ValueError, TypeError) as e:
            raise PyRaise(type(e).__name__, str(e))
    for f in (np.array, np.asarray):
        register_model(f, _always(n_array))

    def n_zeros(fill):
        def f(interp, shape, dtype=None, **kw):
            if is_sym(shape) or (isinstance(shape, tuple) and any(is_sym(s) for s in shape)):
                c = concrete_value(shape) if is_sym(shape) else None
                if c is None:
                    if is_sym(shape) and fill is not None:
                        # 1-d array of symbolic length filled with a constant
                        return SymSeq(z3.K(z3.IntSort(), real_const(float(fill))), shape, "r", 0, "const")
                    raise Unsupported("array of symbolic shape")
                shape = c
            if isinstance(dtype, Model):
                dtype = dtype.pytype
            if isinstance(shape, (np.integer,)):
                shape = int(shape)
            if fill is None:
                out = np.empty(shape, dtype=object)
                out.reshape(-1)[:] = [0.0] * out.size
                return out
            # object arrays of Python numbers accept later symbolic stores; semantics are those of float arrays (A1)
            if dtype in (int, np.int64, np.uint, np.uint64, np.int32):
                base = int(fill)
            elif dtype in (bool, np.bool_):
                base = bool(fill)
            else:
                base = float(fill)
            out = np.empty(shape, dtype=object)
            out.reshape(-1)[:] = [base] * out.size
            return out
        return _always(f)
    register_model(np.zeros, n_zeros(0))
    register_model(np.ones, n_zeros(1))
    register_model(np.empty, n_zeros(None))

    def n_like(fill):
        def f(interp, a, dtype=None, **kw):
            if isinstance(a, SymSeq):
                raise Unsupported("zeros_like of symbolic-length array")
            A = np.asarray(a) if not isinstance(a, np.ndarray) else a
            out = np.empty(A.shape, dtype=object)
            isint = A.dtype.kind in "iu" if A.dtype != object else all(isinstance(x, (int, np.integer)) or (is_sym(x) and x.k == "i") for x in A.reshape(-1).tolist())
            if isinstance(dtype, Model):
                dtype = dtype.pytype
            if dtype is float:
                isint = False
            base = (0 if isint else 0.0) if fill in (0, None) else (1 if isint else 1.0)
            out.reshape(-1)[:] = [base] * out.size
            return out
        return _always(f)
    register_model(np.zeros_like, n_like(0))
    register_model(np.ones_like, n_like(1))
    register_model(np.empty_like, n_like(None))

    def n_full(interp, shape, fill_value, dtype=None, **kw):
        out = np.empty(shape, dtype=object)
        out.reshape(-1)[:] = [fill_value] * out.size
        return _maybe_native(out) if not contains_sym(fill_value) and False else out
    register_model(np.full, _always(n_full))

    def elementwise(fn):
        def f(interp, x, *a, **k):
            if isinstance(x, SymSeq):
                raise Unsupported("elementwise numpy function on symbolic-length array")
            if isinstance(x, (np.ndarray, list, tuple)):
                return np_map(fn, x)
            return fn(x)
        return f
    def _np_sqrt(interp, x, *a, **k):
        if isinstance(x, np.ndarray) and x.dtype != object:
            with np.errstate(all="ignore"):
                return np.sqrt(x)
        r = elementwise(m_sqrt)(interp, x)
        return np.float64(r) if isinstance(r, float) else r       # numpy scalars, as numpy returns
    register_model(np.sqrt, _always(_np_sqrt))
    register_model(np.exp, elementwise(m_exp))
    register_model(np.log, elementwise(m_log))
    register_model(np.abs, elementwise(abs))
    register_model(np.fabs, elementwise(abs))
    register_model(np.floor, elementwise(lambda x: to_real(m_floor(x))))
    register_model(np.ceil, elementwise(lambda x: to_real(to_int_ceil(x))))
    register_model(np.negative, elementwise(lambda x: -x))
    register_model(np.square, elementwise(lambda x: mul(x, x)))
    register_model(np.isinf, elementwise(lambda x: False))
    register_model(np.isnan, elementwise(lambda x: False))
    register_model(np.isfinite, elementwise(lambda x: True))
    register_model(np.uint, elementwise(lambda x: to_int_trunc(x)))
    register_model(np.int64, elementwise(lambda x: to_int_trunc(x)))
    register_model(np.float64, elementwise(lambda x: to_real(x)))
    register_model(np.sign, elementwise(lambda x: If(compare(x, 0, ">"), 1.0, If(compare(x, 0, "<"), -1.0, 0.0))))
    register_model(np.cos, elementwise(lambda x: Sym(uf("cos")(as_real_term(lift(x))), "r", meta=("cos", x))))
    register_model(np.sin, elementwise(lambda x: Sym(uf("sin")(as_real_term(lift(x))), "r", meta=("sin", x))))
    register_model(np.real, elementwise(lambda x: x))

    def pairwise(fn):
        def f(interp, a, b, *r, **k):
            if isinstance(a, SymSeq) or isinstance(b, SymSeq):
                raise Unsupported("pairwise numpy function on symbolic-length array")
            if isinstance(a, (np.ndarray, list, tuple)) or isinstance(b, (np.ndarray, list, tuple)):
                A, B_ = to_obj_array(a), to_obj_array(b)
                bc = np.broadcast(A, B_)
                out = np.empty(bc.shape, dtype=object)
                out.reshape(-1)[:] = [fn(x, y) for x, y in bc] if out.size else []
                return _maybe_native(out)
            return fn(a, b)
        return f

    def _max2(x, y):
        if (isinstance(x, float) and math.isinf(x)) or (isinstance(y, float) and math.isinf(y)):
            return x if bool(compare(x, y, ">=")) else y
        return smax(x, y)

    def _min2(x, y):
        if (isinstance(x, float) and math.isinf(x)) or (isinstance(y, float) and math.isinf(y)):
            return x if bool(compare(x, y, "<=")) else y
        return smin(x, y)
    def _isclose2(x, y, rtol=1e-05, atol=1e-08):
        # numpy: |x - y| <= atol + rtol * |y| for finite values (A1: over the reals)
        d = sub(x, y)
        ad = If(compare(d, 0, ">="), d, sub(0, d))
        ay = If(compare(y, 0, ">="), y, sub(0, y))
        return compare(ad, add(atol, mul(rtol, ay)), "<=")

    def n_isclose(interp, a, b, rtol=1e-05, atol=1e-08, equal_nan=False):
        return pairwise(lambda x, y: _isclose2(x, y, rtol, atol))(interp, a, b)
    register_model(np.isclose, n_isclose)

    def n_allclose(interp, a, b, rtol=1e-05, atol=1e-08, equal_nan=False):
        r = n_isclose(interp, a, b, rtol, atol)
        flat = list(np.ravel(np.asarray(r, dtype=object))) if isinstance(r, np.ndarray) else [r]
        return And(*flat) if flat else True
    register_model(np.allclose, n_allclose)
    register_model(np.maximum, pairwise(_max2))
    register_model(np.minimum, pairwise(_min2))
    register_model(np.power, pairwise(power))
    register_model(np.multiply, pairwise(mul))
    register_model(np.add, pairwise(add))
    register_model(np.subtract, pairwise(sub))
    def n_divide(interp, a, b, out=None, where=True, **kw):
        """np.divide(a, b, where=mask): masked-out positions are left uninitialised by numpy (here: 0.0, always overwritten
        by the callers in scope); elsewhere numpy's element division (never raises)"""
        if where is True:
            return np_binop(interp, ast.Div, a, b)
        A, B, W = np.broadcast_arrays(to_obj_array(a), to_obj_array(b), np.asarray(where))
        res = np.empty(A.shape, dtype=object)
        for idx in np.ndindex(A.shape):
            res[idx] = np_truediv(A[idx], B[idx]) if bool(W[idx]) else 0.0
        return _maybe_native(res)
    n_divide.sp_ok = True
    register_model(np.divide, _always(n_divide))
    register_model(np.logical_and, pairwise(lambda x, y: And(x, y)))
    register_model(np.logical_or, pairwise(lambda x, y: Or(x, y)))
    register_model(np.logical_not, elementwise(lambda x: Not(x)))

    def n_where(interp, c, a=None, b=None):
        if a is None:
            raise Unsupported("np.where with one argument on symbolic data")
        C, A, B_ = to_obj_array(c), to_obj_array(a), to_obj_array(b)
        bc = np.broadcast(C, A, B_)
        out = np.empty(bc.shape, dtype=object)
        out.reshape(-1)[:] = [If(x, y, z) for x, y, z in bc] if out.size else []
        if out.ndim == 0:
            return out[()]
        return _maybe_native(out)
    register_model(np.where, n_where)

    def n_reduce(fn, empty):
        def f(interp, a, axis=None, **k):
            if isinstance(a, SymSeq):
                raise Unsupported("reduction over symbolic-length array (needs a spec function)")
            A = to_obj_array(a) if not isinstance(a, np.ndarray) else (a if a.dtype == object else a.astype(object))
            if axis is None or A.ndim == 1:
                flat = A.reshape(-1).tolist()
                if not flat:
                    if empty is None:
                        raise PyRaise("ValueError", "zero-size array to reduction operation which has no identity")
                    return empty
                return fn(flat)
            if A.ndim == 2 and axis == 0:
                return _maybe_native(to_obj_array([fn(A[:, j].tolist()) for j in range(A.shape[1])]))
            if A.ndim == 2 and axis in (1, -1):
                return _maybe_native(to_obj_array([fn(A[i, :].tolist()) for i in range(A.shape[0])]))
            raise Unsupported("reduction axis")
        return f
    register_model(np.max, n_reduce(lambda xs: smax(xs), None))
    register_model(np.min, n_reduce(lambda xs: smin(xs), None))
    register_model(np.amax, n_reduce(lambda xs: smax(xs), None))
    register_model(np.amin, n_reduce(lambda xs: smin(xs), None))
    register_model(np.any, n_reduce(lambda xs: Or(*xs), False))
    register_model(np.all, n_reduce(lambda xs: And(*xs), True))
    register_model(np.mean, lambda interp, a, axis=None, **k: np_mean(interp, a, axis))

    def sp_moment(interp, a, moment=1, axis=0, **kw):
        # scipy.stats.moment of a 1-d sample: the central moment  mean((x - mean x)^k)
        A = to_obj_array(a)
        if A.ndim != 1 or not isinstance(moment, int):
            raise Unsupported("scipy.stats.moment: 1-d samples and an integer order only")
        mu = np_mean(interp, A)
        return np_mean(interp, to_obj_array([functools.reduce(mul, [sub(x, mu)] * moment, 1) for x in A.tolist()]))
    try:
        import scipy.stats as _ss
        register_model(_ss.moment, sp_moment)
    except Exception:
        pass

    def n_linspace(interp, start, stop, num=50, endpoint=True, retstep=False, dtype=None, **kw):
        n = concrete_value(num) if is_sym(num) else num
        if n is None:
            # symbolic number of points: case split over the small values feasible on this path (bounded; the bound is
            # enforced by the contract's `requires`, larger values make the path undecided)
            for v in range(0, 9):
                if interp.truth(compare(num, v, "==")):
                    n = v
                    break
            else:
                raise Unsupported("linspace with a symbolic num outside 0..8")
        n = int(n)
        if n < 0:
            raise PyRaise("ValueError", "Number of samples must be non-negative")
        div = (n - 1) if endpoint else n
        step = truediv(sub(stop, start), div) if div > 0 else float("nan")
        out = np.empty(n, dtype=object)
        for i in range(n):
            out[i] = add(start, mul(i, step)) if div > 0 else start
        if endpoint and n > 1:
            out[-1] = to_real(stop) if is_sym(stop) else float(stop)
        if n >= 1:
            out[0] = to_real(start) if is_sym(start) else float(start)
        out = _maybe_native(out)
        return (out, step) if retstep else out
    register_model(np.linspace, n_linspace)

    def n_geomspace(interp, start, stop, num=50, endpoint=True, dtype=None, **kw):
        """contract-level model (A2): num points, first = start, last = stop, strictly monotone in between, all of the
        sign of start/stop; interior points are otherwise unconstrained fresh reals"""
        n = concrete_value(num) if is_sym(num) else num
        if n is None:
            raise Unsupported("geomspace with symbolic num")
        n = int(n)
        if interp.truth(Or(compare(start, 0, "=="), compare(stop, 0, "=="))):
            raise PyRaise("ValueError", "Geometric sequence cannot include zero")
        if interp.truth(compare(mul(start, stop), 0, "<")):
            raise Unsupported("geomspace across zero (complex)")
        out = np.empty(n, dtype=object)
        path = ctx.PATH
        for i in range(n):
            out[i] = path.fresh(f"geom{i}", "r")
        if n >= 1:
            out[0] = to_real(start)
        if n >= 2:
            out[-1] = to_real(stop)
        up = compare(start, stop, "<")
        for i in range(n - 1):
            path.assume(If(up, compare(out[i], out[i + 1], "<"), If(compare(start, stop, ">"), compare(out[i], out[i + 1], ">"), compare(out[i], out[i + 1], "=="))))
        return out
    register_model(np.geomspace, n_geomspace)

    def n_searchsorted(interp, a, v, side="left", **kw):
        if isinstance(a, SymSeq):
            raise Unsupported("searchsorted on symbolic-length array")
        items = list(interp.iterate(a))
        # number of elements < v (left) or <= v (right); requires `a` sorted (numpy's own precondition)
        op = "<" if side == "left" else "<="
        if is_sym(v) or contains_sym(items):
            # `a` is sorted (numpy's own precondition): the insertion position is the first index whose element is not
            # op-below v; decided by forking, so that the position is a concrete integer
            for i, x in enumerate(items):
                if not interp.truth(compare(x, v, op)):
                    return i
            return len(items)
        cnt = 0
        for x in items:
            cnt = add(cnt, If(compare(x, v, op), 1, 0))
        return cnt
    register_model(np.searchsorted, n_searchsorted)

    def n_argwhere(interp, a):
        A = to_obj_array(a)
        flat = [interp.truth(x) if is_sym(x) else bool(x) for x in A.reshape(-1).tolist()]
        return np.argwhere(np.array(flat, dtype=bool).reshape(A.shape))
    register_model(np.argwhere, n_argwhere)
    register_model(np.flatnonzero, lambda interp, a: n_argwhere(interp, a).reshape(-1))
    register_model(np.nonzero, lambda interp, a: (n_argwhere(interp, a).reshape(-1),) if np.asarray(a, dtype=object).ndim == 1 else tuple(n_argwhere(interp, a).T))

    def n_argsort(interp, a, *args, **kw):
        items = list(to_obj_array(a).reshape(-1).tolist())
        order = []
        for i, x in enumerate(items):        # insertion sort with forking comparisons (stable)
            pos = len(order)
            for j, o in enumerate(order):
                if interp.truth(compare(x, items[o], "<")):
                    pos = j
                    break
            order.insert(pos, i)
        return np.array(order, dtype=np.int64)
    register_model(np.argsort, n_argsort)
    register_model(np.argpartition, lambda interp, a, kth, *r, **k: n_argsort(interp, a))
    register_model(np.sort, lambda interp, a, *r, **k: to_obj_array(a).reshape(-1)[n_argsort(interp, a)])

    def _lam(body_fn):
        j = z3.Int(f"j!lam{ctx.PATH.fresh_ctr if ctx.PATH else 0}")
        if ctx.PATH is not None:
            ctx.PATH.fresh_ctr += 1
        return z3.Lambda([j], body_fn(j))

    def _elt(seq, jt):
        """z3 term of element j (z3 int term) of a SymSeq / list / ndarray part"""
        if isinstance(seq, SymSeq):
            return z3.Select(seq.arr, as_int_term(lift(seq.offset)) + jt)
        items = list(seq)
        t = real_const(0)
        for i in reversed(range(len(items))):
            t = z3.If(jt == i, as_real_term(lift(items[i])), t)
        return t

    def n_insert(interp, arr, pos, val, axis=None):
        if not isinstance(arr, SymSeq):
            A = to_obj_array(arr)
            p = concrete_value(pos) if is_sym(pos) else pos
            if p is None:
                raise Unsupported("np.insert at a symbolic position into a concrete array")
            return np.insert(A, p, val)
        n = arr.length
        p = lift(pos)
        pt = as_int_term(If(compare(p, 0, "<"), add(n, p), p)) if True else None
        vt = as_real_term(lift(val)) if arr.kind == "r" else as_int_term(lift(val))
        off = as_int_term(lift(arr.offset))
        new = _lam(lambda j: z3.If(j < pt, z3.Select(arr.arr, off + j), z3.If(j == pt, vt, z3.Select(arr.arr, off + j - 1))))
        return SymSeq(new, add(n, 1), arr.kind, 0, arr.name)
    register_model(np.insert, n_insert)

    def n_concatenate(interp, parts, axis=0, **kw):
        parts = list(parts)
        if not any(isinstance(p_, SymSeq) for p_ in parts):
            return np.concatenate([to_obj_array(p_) if contains_sym(p_) else p_ for p_ in parts])
        lens = [p_.length if isinstance(p_, SymSeq) else len(p_) for p_ in parts]
        starts = [0]
        for l in lens:
            starts.append(add(starts[-1], l))

        def body(j):
            t = real_const(0)
            for p_, st_ in reversed(list(zip(parts, starts))):
                stt = as_int_term(lift(st_))
                t = z3.If(j >= stt, _elt(p_, j - stt), t)
            return t
        return SymSeq(_lam(body), starts[-1], "r", 0, "concat")
    register_model(np.concatenate, n_concatenate)

    def n_append(interp, arr, vals, axis=None):
        if isinstance(arr, SymSeq):
            v = list(interp.iterate(vals)) if isinstance(vals, (list, tuple, np.ndarray)) else [vals]
            return n_concatenate(interp, [arr, v])
        return np.append(to_obj_array(arr), to_obj_array(vals) if isinstance(vals, (list, tuple, np.ndarray)) else vals)
    register_model(np.append, n_append)

    def n_argext(pick):
        def f(interp, a, axis=None, **kw):
            items = list(to_obj_array(a).reshape(-1).tolist())
            if not items:
                raise PyRaise("ValueError", "attempt to get argmin/argmax of an empty sequence")
            best = 0
            for i in range(1, len(items)):      # first occurrence of the extreme value, as numpy
                if interp.truth(compare(items[i], items[best], "<" if pick == "min" else ">")):
                    best = i
            return best
        return f
    register_model(np.argmin, n_argext("min"))
    register_model(np.argmax, n_argext("max"))

    def n_array_equal(interp, a, b, **kw):
        A, B_ = to_obj_array(a), to_obj_array(b)
        if A.shape != B_.shape:
            return False
        return interp.truth(And(*[Eq(x, y) for x, y in zip(A.reshape(-1).tolist(), B_.reshape(-1).tolist())]) if A.size else True)
    register_model(np.array_equal, n_array_equal)
    register_model(np.copy, lambda interp, a, **kw: a if is_sym(a) else to_obj_array(a).copy())

    def n_cov(interp, m, y=None, rowvar=True, bias=False, ddof=None, **kw):
        rows = []
        for part in (m, y):
            if part is None:
                continue
            A = to_obj_array(part)
            if A.ndim == 1:
                rows.append(A.tolist())
            else:
                rows.extend(r.tolist() for r in (A if rowvar else A.T))
        n = len(rows[0])
        div = n if (bias and ddof is None) else n - (1 if ddof is None else ddof)
        means = [truediv(functools.reduce(add, r), n) for r in rows]
        k = len(rows)
        out = np.empty((k, k), dtype=object)
        for i in range(k):
            for j in range(k):
                out[i, j] = truediv(functools.reduce(add, [mul(sub(a_, means[i]), sub(b_, means[j])) for a_, b_ in zip(rows[i], rows[j])]), div)
        return out
    register_model(np.cov, n_cov)

    def n_inv(interp, A):
        A = to_obj_array(A)
        if A.shape == (1, 1):
            return to_obj_array([[truediv(1, A[0, 0])]])
        if A.shape == (2, 2):
            det = sub(mul(A[0, 0], A[1, 1]), mul(A[0, 1], A[1, 0]))
            if interp.truth(compare(det, 0, "==")):
                raise PyRaise("LinAlgError", "Singular matrix")
            return to_obj_array([[truediv(A[1, 1], det), truediv(-A[0, 1], det)], [truediv(-A[1, 0], det), truediv(A[0, 0], det)]])
        raise Unsupported("matrix inverse beyond 2x2")
    register_model(np.linalg.inv, n_inv)

    def n_det(interp, A):
        A = to_obj_array(A)
        if A.ndim != 2 or A.shape[0] != A.shape[1]:
            raise PyRaise("LinAlgError", "Last 2 dimensions of the array must be square")
        n = A.shape[0]
        if n == 0:
            return 1.0
        if n == 1:
            return A[0, 0]
        if n == 2:
            return sub(mul(A[0, 0], A[1, 1]), mul(A[0, 1], A[1, 0]))
        if n == 3:
            cof = lambda i, j, k, l: sub(mul(A[1, i], A[2, j]), mul(A[1, k], A[2, l]))
            return add(sub(mul(A[0, 0], cof(1, 2, 2, 1)), mul(A[0, 1], cof(0, 2, 2, 0))), mul(A[0, 2], cof(0, 1, 1, 0)))
        raise Unsupported("determinant beyond 3x3")
    register_model(np.linalg.det, n_det)
    register_model(np.absolute, elementwise(abs))
    register_model(np.dot, lambda interp, a, b, **kw: _decay(np_matmul(to_obj_array(a), to_obj_array(b))) if (to_obj_array(a).ndim and to_obj_array(b).ndim) else mul(a, b))

    def n_pad(interp, arr, pad_width, mode="constant", **kw):
        if isinstance(arr, SymSeq):
            pw = pad_width[0] if isinstance(pad_width[0], (tuple, list)) else pad_width
            before, after = pw
            if not (not is_sym(before) and before == 0) or mode != "constant":
                raise Unsupported("np.pad on a symbolic-length array: only zero padding at the end")
            n = arr.length
            off = as_int_term(lift(arr.offset))
            nt = as_int_term(lift(n))
            new = _lam(lambda j: z3.If(j < nt, z3.Select(arr.arr, off + j), real_const(0)))
            return SymSeq(new, add(n, after), arr.kind, 0, arr.name)
        return np.pad(to_obj_array(arr) if contains_sym(arr) else arr, pad_width, mode, **kw)
    register_model(np.pad, n_pad)

    def n_isscalar(interp, x):
        return is_sym(x) or np.isscalar(x)
    register_model(np.isscalar, _always(n_isscalar))

    def n_ndim(interp, x):
        if is_sym(x):
            return 0
        if isinstance(x, SymSeq):
            return 1
        return np.ndim(x)
    register_model(np.ndim, n_ndim)

    def n_argwhere_first(interp, a):
        raise Unsupported("argwhere on symbolic data")

    def n_std(interp, a, axis=None, ddof=0, **kw):
        A = to_obj_array(a)
        if axis is None or A.ndim == 1:
            flat = A.reshape(-1).tolist()
            n = len(flat)
            m = truediv(functools.reduce(add, flat), n)
            ss = functools.reduce(add, [mul(sub(x, m), sub(x, m)) for x in flat])
            return m_sqrt(truediv(ss, n - ddof))
        if axis == 0 and A.ndim == 2:
            return to_obj_array([n_std(interp, A[:, j], None, ddof) for j in range(A.shape[1])])
        raise Unsupported("std axis")
    register_model(np.std, n_std)

    def n_var(interp, a, axis=None, ddof=0, **kw):
        A = to_obj_array(a)
        if axis is None or A.ndim == 1:
            flat = A.reshape(-1).tolist()
            n = len(flat)
            m = truediv(functools.reduce(add, flat), n)
            ss = functools.reduce(add, [mul(sub(x, m), sub(x, m)) for x in flat])
            return truediv(ss, n - ddof)
        if axis == 0 and A.ndim == 2:
            return to_obj_array([n_var(interp, A[:, j], None, ddof) for j in range(A.shape[1])])
        raise Unsupported("var axis")
    register_model(np.var, n_var)


def install_scipy_models(interp, E):
    try:
        import scipy.special as sp
        import scipy.stats as st
    except Exception:
        return

    def el(name):
        def f(interp, x, *a):
            def one(v):
                if not is_sym(v):
                    return getattr(sp, name)(v)
                return Sym(uf(name)(as_real_term(v)), "r", meta=(name, v))
            if isinstance(x, (np.ndarray, list, tuple)):
                return np_map(one, x)
            return one(x)
        return f
    for name in ("erf", "erfc", "exp1", "gamma", "expi"):
        register_model(getattr(sp, name), el(name))

    def two(name):
        def f(interp, a, x):
            if not is_sym(a) and not is_sym(x):
                return getattr(sp, name)(a, x)
            return Sym(uf(name, 2)(as_real_term(lift(a)), as_real_term(lift(x))), "r", meta=(name, a, x))
        return f
    for name in ("gammainc", "gammaincc"):
        register_model(getattr(sp, name), two(name))
    E["scipy.special"] = LibModule("scipy.special", sp, {})
    import scipy
    E["scipy"] = LibModule("scipy", scipy, {})
    import scipy.optimize, scipy.integrate, scipy.linalg
    E["scipy.optimize"] = LibModule("scipy.optimize", scipy.optimize, {})
    E["scipy.integrate"] = LibModule("scipy.integrate", scipy.integrate, {})
    E["scipy.linalg"] = LibModule("scipy.linalg", scipy.linalg, {})
    E["scipy.stats"] = LibModule("scipy.stats", st, {})

    def brentq(interp, f, a, b, *args, **kw):
        """assumed contract (A3): either ValueError (f(a) and f(b) of the same sign) or a root x in [a, b] with f(x) = 0
        (to the solver's tolerance, taken as exact)"""
        path = ctx.PATH
        if path.choose(2) == 1:
            raise PyRaise("ValueError", "f(a) and f(b) must have different signs")
        x = path.fresh("brentq_root", "r")
        path.assume(And(compare(a, x, "<="), compare(x, b, "<=")))
        path.ghost.setdefault("_brentq_roots", []).append(x)
        fx = interp.call(f, [x], {})
        path.assume(compare(fx, 0, "=="))
        return x
    register_model(scipy.optimize.brentq, _always(brentq))

    # norm.cdf as an uninterpreted function Phi
    def phi(interp, x, *a, **k):
        def one(v):
            if not is_sym(v):
                return float(st.norm.cdf(v))
            return Sym(uf("Phi")(as_real_term(v)), "r", meta=("Phi", v))
        if isinstance(x, (np.ndarray, list, tuple)):
            return np_map(one, x)
        return one(x)
    register_model(st.norm.cdf, phi)
