"""Path exploration, solver access, obligations.

Execution model: the unit under verification (a Python callable that drives the
AST interpreter) is re-executed from scratch once per path.  A path is identified
by its list of decisions; whenever execution needs a concrete truth value of a
symbolic condition and has run past the recorded prefix, both outcomes are checked
for feasibility under the current path condition, one is followed and the other is
queued.  Re-execution keeps the interpreter a plain tree-walking interpreter over a
mutable Python heap (no state copying), at the price of re-running prefixes.
"""
from __future__ import annotations

import os
import time
from dataclasses import dataclass, field

import z3

from . import ctx
from .sym import Sym, Unsupported, PyRaise, as_bool_term

RLIMIT_FEAS = int(os.environ.get("PYVC_RLIMIT_FEAS", 3_000_000))
RLIMIT_PROVE = int(os.environ.get("PYVC_RLIMIT", 40_000_000))
TIMEOUT_MS = int(os.environ.get("PYVC_TIMEOUT_MS", 300_000))   # wall-clock guard only; the deterministic budget is the rlimit


class PathEnd(Exception):
    """Path ends here (infeasible, or cut at a loop invariant)."""


@dataclass
class ObResult:
    label: str
    status: str            # proved | refuted | undecided
    backend: str = ""
    time_s: float = 0.0
    model: dict | None = None
    detail: str = ""
    path: tuple = ()
    smt2: str | None = None


STATS = {"z3_queries": 0, "z3_time": 0.0, "cvc5_queries": 0, "cvc5_time": 0.0, "feas_queries": 0}


def _mk_solver(rlimit, nonlinear=False):
    s = z3.Solver()
    s.set("rlimit", rlimit)
    s.set("timeout", TIMEOUT_MS)
    s.set("random_seed", 7)
    return s


def cvc5_check(smt2: str, rlimit=2_000_000, tlimit_ms=30_000):
    """Second back end: returns 'unsat' | 'sat' | 'unknown'."""
    t0 = time.time()
    try:
        import cvc5
        slv = cvc5.Solver()
        slv.setOption("tlimit-per", str(tlimit_ms))
        slv.setOption("rlimit-per", str(rlimit * 10))
        slv.setLogic("ALL")
        parser = cvc5.InputParser(slv)
        parser.setStringInput(cvc5.InputLanguage.SMT_LIB_2_6, smt2, "ob")
        sm = parser.getSymbolManager()
        res = "unknown"
        while True:
            cmd = parser.nextCommand()
            if cmd.isNull():
                break
            out = cmd.invoke(slv, sm)
            o = str(out).strip()
            if o in ("sat", "unsat", "unknown"):
                res = o
        return res
    except Exception as e:  # parser or option errors: undecided, never a verdict
        return "unknown"
    finally:
        STATS["cvc5_queries"] += 1
        STATS["cvc5_time"] += time.time() - t0


def solve(assertions, rlimit=RLIMIT_PROVE, want_model=True, use_cvc5=True, tactic=None):
    """-> (status, model, backend, seconds); status in unsat|sat|unknown."""
    t0 = time.time()
    STATS["z3_queries"] += 1
    s = _mk_solver(rlimit)
    s.add(*assertions)
    r = s.check()
    backend = "z3"
    if r == z3.unknown:
        # second attempt: nonlinear tactic pipeline
        for tac in (tactic,):
            if tac is None:
                continue
            try:
                t = z3.Then("simplify", "solve-eqs", tac).solver() if tac != "default" else z3.Then("simplify", "propagate-values", "solve-eqs", "smt").solver()
                t.set("rlimit", rlimit)
                t.set("timeout", TIMEOUT_MS)
                t.add(*assertions)
                r2 = t.check()
                if r2 != z3.unknown:
                    r, s, backend = r2, t, f"z3[{tac}]"
                    break
            except z3.Z3Exception:
                continue
    if r == z3.unknown and rlimit >= RLIMIT_PROVE:
        # the resource count a query needs depends on the solver state left by the queries the worker process ran before
        # it (which units a worker gets is scheduling-dependent): an `unknown` is retried in FRESH contexts with other
        # seeds and a larger budget.  Only `unsat` is taken from a retry (a proof is a proof in any context).
        for seed, factor in ((11, 1), (23, 2)):
            try:
                c2 = z3.Context()
                s2 = z3.Solver(ctx=c2)
                s2.set("rlimit", rlimit * factor)
                s2.set("timeout", min(TIMEOUT_MS, 90_000))
                s2.set("random_seed", seed)
                s2.add(*[a.translate(c2) for a in assertions])
                STATS["z3_queries"] += 1
                if s2.check() == z3.unsat:
                    r, backend = z3.unsat, f"z3[fresh-context,seed={seed}]"
                    break
            except z3.Z3Exception:
                continue
    STATS["z3_time"] += time.time() - t0
    if r == z3.unsat:
        return "unsat", None, backend, time.time() - t0
    if r == z3.sat:
        m = s.model() if want_model else None
        return "sat", m, backend, time.time() - t0
    if use_cvc5:
        smt2 = "(set-logic ALL)\n" + s.to_smt2().replace("(set-info :status unknown)", "")
        r3 = cvc5_check(smt2)
        if r3 == "unsat":
            return "unsat", None, "cvc5", time.time() - t0
        if r3 == "sat":
            return "sat", None, "cvc5", time.time() - t0
    if want_model:
        # candidate counter-model from the quantifier-free relaxation (hypotheses dropped => only a candidate: it is
        # never a verdict by itself, the native replay decides)
        qf = [a for a in assertions if not _has_quantifier(a)]
        if len(qf) < len(assertions):
            s2 = _mk_solver(rlimit // 4)
            s2.add(*qf)
            if s2.check() == z3.sat:
                return "unknown", s2.model(), backend + "+relaxed-candidate", time.time() - t0
    return "unknown", None, backend, time.time() - t0


def _has_quantifier(t, depth=0):
    if z3.is_quantifier(t):
        return True
    if depth > 40 or not z3.is_app(t):
        return False
    return any(_has_quantifier(c, depth + 1) for c in t.children())


class Path:
    def __init__(self, prefix, explorer):
        self.pc: list = []
        self.decisions = list(prefix)
        self.pos = 0
        self.explorer = explorer
        self.fresh_ctr = 0
        self.results: list[ObResult] = []
        self.inputs: dict = {}      # name -> Sym (for counter-model extraction)
        self.ghost: dict = {}
        self.notes: list = []
        self.decided: dict = {}
        self._keep: list = []

    # -- fresh symbols (deterministic per path => identical terms on re-execution)
    def fresh(self, name, kind):
        self.fresh_ctr += 1
        n = f"{name}!{self.fresh_ctr}"
        if kind == "i":
            return Sym(z3.Int(n), "i")
        if kind == "r":
            return Sym(z3.Real(n), "r")
        if kind == "b":
            return Sym(z3.Bool(n), "b")
        raise ValueError(kind)

    def assume(self, f):
        if isinstance(f, bool):
            if not f:
                raise PathEnd("assumed False")
            return
        t = as_bool_term(f)
        self.pc.append(t)

    def _feasible(self, c):
        STATS["feas_queries"] += 1
        s = _mk_solver(RLIMIT_FEAS)
        s.add(*self.pc)
        s.add(c)
        t0 = time.time()
        r = s.check()
        STATS["z3_time"] += time.time() - t0
        return r != z3.unsat

    def decide(self, cond) -> bool:
        c = z3.simplify(cond)
        if z3.is_true(c):
            return True
        if z3.is_false(c):
            return False
        key = c.get_id()
        if key in self.decided:
            return self.decided[key]
        if self.pos < len(self.decisions):
            d = self.decisions[self.pos]
        else:
            ft = self._feasible(c)
            ff = self._feasible(z3.Not(c))
            if ft and ff:
                d = True
                self.explorer.schedule(self.decisions + [False])
            elif ft:
                d = True
            elif ff:
                d = False
            else:
                raise PathEnd("infeasible")
            self.decisions.append(d)
        self.pos += 1
        self.pc.append(c if d else z3.Not(c))
        self.decided[key] = d
        self._keep.append(c)
        return d

    def choose(self, n: int) -> int:
        """Non-deterministic choice in range(n) (used to split loop-cut continuations)."""
        if n <= 1:
            return 0
        if self.pos < len(self.decisions):
            d = self.decisions[self.pos]
        else:
            d = 0
            for alt in range(1, n):
                self.explorer.schedule(self.decisions + [alt])
            self.decisions.append(d)
        self.pos += 1
        return d

    # -- obligations
    def check(self, label, formula, hint=None):
        """Obligation: path condition => formula.  Afterwards the formula is assumed."""
        if isinstance(formula, (list, tuple)):
            from .sym import And
            formula = And(*formula) if formula else True
        if isinstance(formula, bool) or not isinstance(formula, Sym):
            try:
                formula = bool(formula)
            except Exception:
                raise Unsupported(f"obligation {label}: not a formula: {formula!r}")
        if formula is True:
            self.results.append(ObResult(label, "proved", "trivial", 0.0, path=tuple(self.decisions[: self.pos])))
            return True
        f = z3.BoolVal(False) if formula is False else as_bool_term(formula)
        status, model, backend, secs = solve(self.pc + [z3.Not(f)])
        res = ObResult(label, {"unsat": "proved", "sat": "refuted", "unknown": "undecided"}[status], backend, secs,
                       path=tuple(self.decisions[: self.pos]))
        if status == "unknown" and model is not None:
            res.model = self._extract(model)
            res.detail = "solver unknown; candidate counter-model from the quantifier-free relaxation"
        if status == "sat":
            self.reached = True     # pc ∧ ¬f satisfiable: this program point is reachable (vacuity guard)
            res.model = self._extract(model)
            res.detail = "counter-model"
        if status != "unsat" and self.explorer.keep_smt2:
            s = z3.Solver()
            s.add(*self.pc)
            s.add(z3.Not(f))
            res.smt2 = s.to_smt2()
        self.results.append(res)
        self.pc.append(f)
        return status == "unsat"

    def _extract(self, model):
        out = {}
        if model is None:
            return out
        from .sym import concrete_value
        from .values import model_value
        for name, v in self.inputs.items():
            try:
                out[name] = model_value(model, v)
            except Exception as e:  # keep going; replay works with what it gets
                out[name] = f"<unevaluated: {e}>"
        return out

    def cover(self, label):
        """Reachability marker: the path condition here must be satisfiable."""
        if getattr(self, "reached", False):
            self.explorer.covers.setdefault(label, []).append(True)
            return
        status, _, backend, secs = solve(list(self.pc), rlimit=RLIMIT_FEAS, want_model=False, use_cvc5=False)
        self.explorer.covers.setdefault(label, []).append(status != "unsat")


class Explorer:
    def __init__(self, unit, max_paths=4000, keep_smt2=True):
        self.unit = unit
        self.work = [[]]
        self.max_paths = max_paths
        self.keep_smt2 = keep_smt2
        self.results: list[ObResult] = []
        self.covers: dict = {}
        self.paths = 0
        self.completed = 0
        self.cut = 0
        self.errors: list = []

    def schedule(self, prefix):
        self.work.append(list(prefix))

    def run(self):
        while self.work:
            if self.paths >= self.max_paths:
                self.results.append(ObResult("path-budget", "undecided", detail=f"more than {self.max_paths} paths"))
                break
            prefix = self.work.pop()
            self.paths += 1
            p = Path(prefix, self)
            ctx.PATH = p
            try:
                self.unit(p)
                self.completed += 1
            except PathEnd:
                self.cut += 1
            except Unsupported as e:
                self.results.append(ObResult("unsupported", "undecided", detail=str(e), path=tuple(p.decisions[: p.pos])))
            except PyRaise as e:
                # an exception escaping the unit that no contract clause accounted for
                self.results.append(ObResult("uncaught-exception", "undecided", detail=str(e), path=tuple(p.decisions[: p.pos])))
            except RecursionError as e:
                self.results.append(ObResult("unsupported", "undecided", detail="recursion limit"))
            finally:
                ctx.PATH = None
            self.results.extend(p.results)
        return self.results
