"""pyvc: verification-condition generation for a Python subset by symbolic execution of the real AST."""
