"""Process-global handle on the path currently being executed (see path.py)."""
PATH = None
INTERP = None
