"""C09 — closed-form Levy-measure integrals equal integrals of the model's own density.

Method (DESIGN §4 C09): every integrate* function is executed symbolically once per REGION of its arguments (sign pattern
and finite/infinite end points, parameter regime); the result term R(a, b) and the density term nu(x) -- obtained from the
model's own __call__ by the same executor -- go to sympy, and the obligations are
   FTC-b: dR/db = b^n nu(b)      FTC-a: dR/da = -a^n nu(a)      BASE: R vanishes when the interval degenerates
   (finite end: b -> a; infinite end: the limit) ,  GLUE: a straddling interval is the sum of its two halves.
With the fundamental theorem of calculus (A6) these give R = int_a^b x^n nu(x) dx on the region.
"""
import math

import numpy as np
import sympy as sp
import z3

from pyvc.contract import FunctionContract, Lemma, VC, Req
from pyvc.sym import And, Or, Not, Implies, If, Eq, compare, smax, smin, is_sym, Sym, lift, INF, PyRaise

PROPERTY_ID = "C09"
LEVEL = "proof"
LM = "rpylib.model.levymodel.levymodel:"

REGIONS = {
    # name: (a kind, b kind): kinds  ninf | neg | zero | pos | pinf
    "N": ("neg", "neg"), "N-inf": ("ninf", "neg"), "N0": ("neg", "zero"), "N-inf0": ("ninf", "zero"),
    "P": ("pos", "pos"), "P-inf": ("pos", "pinf"), "P0": ("zero", "pos"), "P0-inf": ("zero", "pinf"),
    "S": ("neg", "pos"), "S-infL": ("ninf", "pos"), "S-infR": ("neg", "pinf"), "S-all": ("ninf", "pinf"),
}


def lim(expr, sym, point, direction="+"):
    """limit with a few rewrites (expint -> incomplete gamma) when sympy leaves it unevaluated"""
    for f in (lambda e: e, lambda e: e.rewrite(sp.uppergamma), lambda e: sp.expand(e).rewrite(sp.uppergamma)):
        try:
            r = sp.limit(f(expr), sym, point, direction) if point not in (sp.oo, -sp.oo) else sp.limit(f(expr), sym, point)
        except Exception:
            continue
        if not r.has(sp.Limit) and not r.has(sp.expint(1, sp.oo)) and r.is_finite is not False:
            return r
    return sp.Limit(expr, sym, point)


def mk_end(vc, name, kind):
    if kind == "ninf":
        return -INF, None
    if kind == "pinf":
        return INF, None
    if kind == "zero":
        return 0.0, None
    v = vc.real(name)
    vc.assume(v < 0 if kind == "neg" else v > 0)
    s = vc.sp_symbol(name, negative=True) if kind == "neg" else vc.sp_symbol(name, positive=True)
    return v, s


def sampler_for(symbols_kinds, params, order=None):
    """random point of the region: symbols_kinds {sym: 'neg'|'pos'}, params {sym: (lo, hi)}; `order` = (a, b) enforces a < b"""
    def f(rng):
        pt = {}
        for s_, k in symbols_kinds.items():
            v = rng.uniform(0.05, 2.0)
            pt[s_] = -v if k == "neg" else v
        if order is not None and order[0] in pt and order[1] in pt and pt[order[0]] > pt[order[1]]:
            pt[order[0]], pt[order[1]] = pt[order[1]], pt[order[0]]
        for s_, (lo, hi) in params.items():
            pt[s_] = rng.uniform(lo, hi)
        return pt
    return f


class ModelSpec:
    """how to build a symbolic measure object of one model and which regions each moment supports"""
    name = ""
    cls = ""
    params = {}                 # sympy-name -> (assumptions, (lo, hi) sampling range)
    moments = {0: "integrate", 1: "integrate_against_x", 2: "integrate_against_xx"}
    regions = {0: tuple(REGIONS), 1: tuple(REGIONS), 2: tuple(REGIONS)}

    def build(self, vc):
        raise NotImplementedError

    def native(self, pt):
        return None


class HEM(ModelSpec):
    name = "HEM"
    cls = "rpylib.model.levymodel.mixed.hem:_HEMLevyMeasure"
    params = {"p": (dict(positive=True), (0.1, 0.9)), "eta1": (dict(positive=True), (1.5, 30.0)), "eta2": (dict(positive=True), (1.5, 30.0)),
              "intensity": (dict(positive=True), (0.5, 5.0))}

    def build(self, vc):
        P = {k: vc.real(k) for k in self.params}
        for k, (ass, _) in self.params.items():
            vc.assume(P[k] > 0)
            vc.sp_symbol(k, **ass)
        vc.assume(P["p"] < 1)
        vc.assume(Not(P["eta1"] == 1))            # the constructor divides by eta1 - 1: no parameters object exists for eta1 = 1
        sigma = vc.real("sigma")
        vc.assume(sigma > 0)
        par = vc.new("rpylib.model.levymodel.mixed.hem:HEMParameters", sigma=sigma, **P)       # the real constructor (derived attributes as it sets them)
        return vc.obj(self.cls, parameters=par)

    def native(self, pt):
        from rpylib.model.levymodel.mixed.hem import HEMParameters, _HEMLevyMeasure
        if "eta1" not in pt:
            return None
        return _HEMLevyMeasure(HEMParameters(sigma=0.1, p=pt["p"], eta1=pt["eta1"], eta2=pt["eta2"], intensity=pt["intensity"]))


class Merton(ModelSpec):
    name = "Merton"
    cls = "rpylib.model.levymodel.mixed.merton:_MertonLevyMeasure"
    params = {"mu_j": (dict(nonnegative=True), (0.0, 0.3)), "sigma_j": (dict(positive=True), (0.05, 0.5)), "intensity": (dict(positive=True), (0.5, 5.0))}

    def build(self, vc):
        P = {k: vc.real(k) for k in self.params}
        for k, (ass, _) in self.params.items():
            vc.sp_symbol(k, **ass)
        vc.assume(And(P["sigma_j"] > 0, P["intensity"] > 0, P["mu_j"] >= 0))
        sigma = vc.real("sigma")
        vc.assume(sigma > 0)
        par = vc.new("rpylib.model.levymodel.mixed.merton:MertonParameters", sigma=sigma, **P)  # the real constructor
        return vc.obj(self.cls, parameters=par)

    def native(self, pt):
        from rpylib.model.levymodel.mixed.merton import MertonParameters, _MertonLevyMeasure
        if "sigma_j" not in pt:
            return None
        return _MertonLevyMeasure(MertonParameters(sigma=0.1, intensity=pt["intensity"], mu_j=pt["mu_j"], sigma_j=pt["sigma_j"]))


class VG(ModelSpec):
    name = "VG"
    cls = "rpylib.model.levymodel.purejump.variancegamma:_VGLevyMeasure"
    params = {"_c": (dict(positive=True), (0.5, 5.0)), "_lambda_m": (dict(positive=True), (1.0, 20.0)), "_lambda_p": (dict(positive=True), (1.0, 20.0))}
    # the mass is infinite on any interval touching 0: n = 0 only away from zero
    regions = {0: ("N", "N-inf", "P", "P-inf"), 1: tuple(REGIONS), 2: tuple(REGIONS)}

    def build(self, vc):
        P = {k: vc.real(k) for k in self.params}
        for k, (ass, _) in self.params.items():
            vc.assume(P[k] > 0)
            vc.sp_symbol(k, **ass)
        par = vc.obj("rpylib.model.levymodel.purejump.variancegamma:VGParameters")
        par.fields.update(P)
        return vc.obj(self.cls, parameters=par)


class CGMY(ModelSpec):
    """one activity regime per instance: y in (0,1) or (1,2) (y = 0, y = 1 and y < 0 are separate numeric regimes)"""
    cls = "rpylib.model.levymodel.purejump.cgmy:_CGMYLevyMeasure"
    # closed forms exist for the mass away from zero and for the first moment; the second moment uses quadrature
    # (assumed, A3) except on straddling intervals
    moments = {0: "integrate", 1: "integrate_against_x", 2: "integrate_against_xx"}

    def __init__(self, regime):
        self.regime = regime
        self.name = f"CGMY[{regime}]"
        lo, hi = {"0<y<1": (0.05, 0.95), "1<y<2": (1.05, 1.95)}[regime]
        self.params = {"c": (dict(positive=True), (0.1, 2.0)), "g": (dict(positive=True), (1.0, 15.0)), "m": (dict(positive=True), (1.0, 15.0)),
                       "y": (dict(positive=True), (lo, hi))}
        self.regions = {0: ("N", "N-inf", "P", "P-inf"), 1: ("N", "N-inf", "P", "P-inf"), 2: ("S",)}

    def build(self, vc):
        P = {k: vc.real(k) for k in self.params}
        for k, (ass, _) in self.params.items():
            vc.assume(P[k] > 0)
            vc.sp_symbol(k, **ass)
        lo, hi = (0, 1) if self.regime == "0<y<1" else (1, 2)
        vc.assume(And(P["y"] > lo, P["y"] < hi))
        par = vc.obj("rpylib.model.levymodel.purejump.cgmy:CGMYParameters")
        par.fields.update(P)
        return vc.obj(self.cls, parameters=par)

    def native(self, pt):
        from rpylib.model.levymodel.purejump.cgmy import CGMYParameters, _CGMYLevyMeasure
        if "y" not in pt:
            return None
        return _CGMYLevyMeasure(CGMYParameters(c=pt["c"], g=pt["g"], m=pt["m"], y=pt["y"]))


class VGxn(VG):
    """_VGLevyMeasure.integrate_against_xn for n = 1..4 (through tools.integral)"""
    name = "VG.xn"
    moments = {n: ("integrate_against_xn", n) for n in (1, 2, 3, 4, 5, 6)}
    regions = {n: ("N", "N-inf", "N0", "P", "P-inf", "P0", "S") for n in (1, 2, 3, 4, 5, 6)}


MODELS = {m.name: m for m in (HEM(), Merton(), VG(), VGxn())}


class DensityNonNegative(Lemma):
    """nu(x) >= 0 on both sides of zero (with the integral representation: masses non-negative, even moments non-negative,
    odd moments have the sign of the half-line, additivity over adjacent intervals)"""
    prop = "C09"
    name = "density-non-negative"
    cases = tuple((m, side) for m in ("HEM", "Merton", "VG") for side in ("neg", "pos"))

    def prove(self, vc, case):
        m, side = case
        measure = MODELS[m].build(vc)
        x = vc.real("x")
        vc.assume(x < 0 if side == "neg" else x > 0)
        v = vc.interp.call(measure, [x], {})
        vc.check(f"{self.name}[{m},{side}]::nu>=0", v >= 0)


class ClosedForm(Lemma):
    """one (model, moment n, region) triple: FTC-a, FTC-b, BASE obligations on the symbolic result of the real body"""
    prop = "C09"

    def __init__(self, spec: ModelSpec):
        self.spec = spec
        self.name = f"closed-form:{spec.name}"
        self.cases = tuple((n, r) for n in sorted(spec.moments) for r in spec.regions[n])

    def _call(self, vc, measure, n, a, b):
        m = self.spec.moments[n]
        if isinstance(m, tuple):
            return vc.method(measure, m[0], a, b, *m[1:])
        return vc.method(measure, m, a, b)

    def density(self, vc, measure, kind, symname="x"):
        x = vc.real(symname)
        vc.assume(x < 0 if kind == "neg" else x > 0)
        xs = vc.sp_symbol(symname, negative=True) if kind == "neg" else vc.sp_symbol(symname, positive=True)
        val = vc.interp.call(measure, [x], {})
        return vc.sp(val), xs

    def prove(self, vc, case):
        n, region = case
        ka, kb = REGIONS[region]
        spec = self.spec
        measure = spec.build(vc)
        a, sa = mk_end(vc, "a", ka)
        b, sb = mk_end(vc, "b", kb)
        if sa is not None and sb is not None and ka == kb:
            vc.assume(a < b)
        nm = f"{self.name}[n={n},{region}]"
        try:
            R = self._call(vc, measure, n, a, b)
        except PyRaise as e:
            vc.check(nm + "::evaluates-without-exception", False)
            vc.path.results[-1].detail = str(e)
            return
        Rs = vc.sp(R)
        kinds = {}
        if sa is not None:
            kinds[sa] = ka
        if sb is not None:
            kinds[sb] = kb
        psamp = {vc.ghost["_sp_symbols"][k]: rng for k, (_, rng) in spec.params.items()}
        samp = sampler_for(kinds, psamp, order=(sa, sb) if ka == kb else None)
        if sb is not None:
            nu_b, xs = self.density(vc, measure, kb, "xb")
            vc.check_zero(nm + "::FTC-b", sp.diff(Rs, sb) - sb ** n * nu_b.subs(xs, sb), samp)
        if sa is not None:
            nu_a, xs = self.density(vc, measure, ka, "xa")
            vc.check_zero(nm + "::FTC-a", sp.diff(Rs, sa) + sa ** n * nu_a.subs(xs, sa), samp)
        # BASE
        if sa is not None and sb is not None and ka == kb:
            vc.check_zero(nm + "::BASE(b->a)", Rs.subs(sb, sa), samp)
        elif sa is None and sb is not None and ka == "ninf" and kb == "neg":
            vc.check_zero(nm + "::BASE(b->-inf)", lim(Rs, sb, -sp.oo), samp)
        elif sb is None and sa is not None and kb == "pinf" and ka == "pos":
            vc.check_zero(nm + "::BASE(a->+inf)", lim(Rs, sa, sp.oo), samp)
        elif ka == "neg" and kb == "zero":
            vc.check_zero(nm + "::BASE(a->0-)", lim(Rs, sa, 0, "-"), samp)
        elif ka == "zero" and kb == "pos":
            vc.check_zero(nm + "::BASE(b->0+)", lim(Rs, sb, 0, "+"), samp)
        elif region.startswith("S") or region in ("N-inf0", "P0-inf"):
            # GLUE: the straddling / half-line value is the sum of the values on its two sides of zero
            left = self._call(vc, measure, n, a, 0.0) if ka != "zero" else 0
            right = self._call(vc, measure, n, 0.0, b) if kb != "zero" else 0
            if region in ("N-inf0",):
                # half line: BASE through the finite-end limit of the N-inf formula
                baux = vc.real("b_aux")
                vc.assume(baux < 0)
                vc.sp_symbol("b_aux", negative=True)
                Rn = vc.sp(self._call(vc, measure, n, a, baux))
                vc.check_zero(nm + "::GLUE(limit of the finite-end formula)", lim(Rn, vc.ghost["_sp_symbols"]["b_aux"], 0, "-") - Rs, samp)
            elif region == "P0-inf":
                vc.sp_symbol("a_aux", positive=True)
                aaux = vc.real("a_aux")
                vc.assume(aaux > 0)
                Rp = vc.sp(self._call(vc, measure, n, aaux, b))
                vc.check_zero(nm + "::GLUE(limit of the finite-end formula)", lim(Rp, vc.ghost["_sp_symbols"]["a_aux"], 0, "+") - Rs, samp)
            else:
                vc.check_zero(nm + "::GLUE(sum of the two sides of zero)", Rs - vc.sp(left) - vc.sp(right), samp)

    def replay(self, model, clause, case):
        """native: the real closed form against scipy quadrature of the real density at the refuting point"""
        from scipy.integrate import quad
        from contracts import battery
        n, region = case
        ka, kb = REGIONS[region]
        m = {"HEM": "hem", "Merton": "merton", "VG": "vg", "CGMY": "cgmy"}.get(self.spec.name, "hem")
        pt = model or {}
        nu = None
        try:
            nu = self.spec.native(pt)          # the refuting parameter values
        except Exception:
            nu = None
        if nu is None:
            nu = battery.models((m,))[m].levy_triplet.nu
        a = {"ninf": -np.inf, "zero": 0.0}.get(ka, pt.get("a", -0.7 if ka == "neg" else 0.3))
        b = {"pinf": np.inf, "zero": 0.0}.get(kb, pt.get("b", -0.2 if kb == "neg" else 0.9))
        if a > b:
            a, b = b, a
        try:
            mm = self.spec.moments[n]
            got = getattr(nu, mm[0])(a, b, *mm[1:]) if isinstance(mm, tuple) else getattr(nu, mm)(a, b)
        except Exception as e:
            return (True, {"a": a, "b": b, "exception": f"{type(e).__name__}: {e}"})
        pts = [0.0] if a < 0 < b else None
        want = quad(lambda x: x ** n * float(nu(x)), a, b, points=pts, limit=400)[0] if not (np.isinf(a) or np.isinf(b)) else quad(lambda x: x ** n * float(nu(x)), a, b, limit=400)[0]
        return (abs(got - want) > 1e-6 * max(1.0, abs(want)), {"model": m, "n": n, "a": a, "b": b, "closed_form": float(got), "quadrature": float(want)})


class XnExp(FunctionContract):
    """tools.integral.integral_xn_exp_minus_x(n, a, b, alpha) = int_a^b x^n exp(-alpha |x|) dx, n = 0..6, every region"""
    prop = "C09"
    target = "rpylib.tools.integral:integral_xn_exp_minus_x"
    cases = tuple((n, r) for n in range(0, 7) for r in ("N", "N-inf", "P", "P-inf", "S", "N0", "P0"))

    def __init__(self):
        self.name = "integral_xn_exp_minus_x"

    def setup(self, vc, case):
        n, region = case
        ka, kb = REGIONS[region]
        a, sa = mk_end(vc, "a", ka)
        b, sb = mk_end(vc, "b", kb)
        if sa is not None and sb is not None and ka == kb:
            vc.assume(a < b)
        alpha = vc.real("alpha")
        vc.assume(alpha > 0)
        vc.sp_symbol("alpha", positive=True)
        vc.ghost.update(sa=sa, sb=sb, ka=ka, kb=kb, n=n)
        return dict(n=n, a=a, b=b, alpha=alpha)

    def ensures(self, result, n=None, a=None, b=None, alpha=None):
        return {}

    def make_unit(self, case, interp_factory):
        contract = self
        base = super().make_unit(case, interp_factory)

        def unit(path):
            from pyvc.contract import VC
            interp = interp_factory()
            vc = VC(path, interp)
            args = contract.setup(vc, case)
            n, region = case
            nm = f"{contract.name}[n={n},{region}]"
            try:
                R = vc.call(contract.target, **args)
            except PyRaise as e:
                vc.check(nm + "::evaluates-without-exception", False)
                path.results[-1].detail = str(e)
                return
            g = vc.ghost
            sa, sb, ka, kb = g["sa"], g["sb"], g["ka"], g["kb"]
            al = g["_sp_symbols"]["alpha"]
            Rs = vc.sp(R)
            kinds = {k_: v_ for k_, v_ in ((sa, ka), (sb, kb)) if k_ is not None}
            samp = sampler_for(kinds, {al: (0.5, 5.0)}, order=(sa, sb) if ka == kb else None)
            f = lambda x: x ** n * sp.exp(-al * sp.Abs(x))
            if sb is not None:
                vc.check_zero(nm + "::FTC-b", sp.diff(Rs, sb) - f(sb), samp)
            if sa is not None:
                vc.check_zero(nm + "::FTC-a", sp.diff(Rs, sa) + f(sa), samp)
            if sa is not None and sb is not None and ka == kb:
                vc.check_zero(nm + "::BASE(b->a)", Rs.subs(sb, sa), samp)
            elif ka == "ninf":
                vc.check_zero(nm + "::BASE(b->-inf)", lim(Rs, sb, -sp.oo), samp)
            elif kb == "pinf":
                vc.check_zero(nm + "::BASE(a->+inf)", lim(Rs, sa, sp.oo), samp)
            elif kb == "zero":
                vc.check_zero(nm + "::BASE(a->0-)", lim(Rs, sa, 0, "-"), samp)
            elif ka == "zero":
                vc.check_zero(nm + "::BASE(b->0+)", lim(Rs, sb, 0, "+"), samp)
            else:
                vc.check_zero(nm + "::GLUE", Rs - vc.sp(vc.call(contract.target, n=n, a=args["a"], b=0.0, alpha=args["alpha"]))
                              - vc.sp(vc.call(contract.target, n=n, a=0.0, b=args["b"], alpha=args["alpha"])), samp)
            path.cover(nm + "::exit")
        unit.__name__ = base.__name__
        return unit

    def replay(self, model, clause, case):
        from scipy.integrate import quad
        from rpylib.tools.integral import integral_xn_exp_minus_x
        n, region = case
        ka, kb = REGIONS[region]
        pt = model or {}
        a = {"ninf": -np.inf, "zero": 0.0}.get(ka, pt.get("a", -0.7 if ka == "neg" else 0.3))
        b = {"pinf": np.inf, "zero": 0.0}.get(kb, pt.get("b", -0.2 if kb == "neg" else 0.9))
        if a > b:
            a, b = b, a
        al = pt.get("alpha", 1.3)
        try:
            got = float(integral_xn_exp_minus_x(n=n, a=a, b=b, alpha=al))
        except Exception as e:
            return (True, {"n": n, "a": a, "b": b, "alpha": al, "exception": f"{type(e).__name__}: {e}"})
        want = quad(lambda x: x ** n * math.exp(-al * abs(x)), a, b)[0]
        return (abs(got - want) > 1e-8 * max(1.0, abs(want)), {"n": n, "a": a, "b": b, "alpha": al, "native": got, "quadrature": want})


class XnDispatch(Lemma):
    """LevyMeasure.integrate_against_xn(a, b, n) dispatches n = 0, 1, 2 to integrate / _against_x / _against_xx ON THE SAME
    INTERVAL [a, b]; TruncatedLevyMeasure.integrate_against_xn clips the interval first (shared with C01)."""
    prop = "C09"
    name = "LevyMeasure.integrate_against_xn:dispatch"
    cases = (0, 1, 2)

    def prove(self, vc, n):
        from contracts.spec_measure import MU, MU1, MU2
        from contracts.c01 import hook_measure, mu_measure
        hook_measure(vc.interp)
        a, b = vc.real("a"), vc.real("b")
        vc.assume(a <= b)
        r = vc.method(mu_measure(vc), "integrate_against_xn", a, b, n)
        vc.check(f"{self.name}[n={n}]::same-interval-right-moment", r == (MU, MU1, MU2)[n](a, b))

    def replay(self, model, clause, n):
        from contracts import battery
        from scipy.integrate import quad
        nu = battery.models(("hem",))["hem"].levy_triplet.nu
        a, b = 0.1, 0.5
        got = nu.integrate_against_xn(a, b, n)
        want = quad(lambda x: x ** n * float(nu(x)), a, b)[0]
        return (abs(got - want) > 1e-8, {"model": "hem", "a": a, "b": b, "n": n, "native": float(got), "quadrature": want})


def incomplete_gamma_normal_form(expr):
    """rewrite every uppergamma(s, x) of the expression through the one with the SMALLEST first argument among those that
    share x and differ from it by an integer, with the recurrence  Gamma(s + 1, x) = s Gamma(s, x) + x^s e^(-x)
    (integration by parts; a textbook identity, listed with assumption A4)"""
    expr = sp.sympify(expr)
    # exponential integrals are incomplete gamma functions: E_n(x) = x^(n-1) Gamma(1 - n, x)
    # (sympy keeps Gamma(s, x) for integer s <= 0 as E_{1-s}(x) / x^{-s}: integer orders are reduced to E_1 with
    #  n E_{n+1}(x) = e^(-x) - x E_n(x) instead)
    def _expint(n_, x_):
        if n_.is_integer and n_.is_number and n_ >= 1:
            val = sp.expint(1, x_)
            for j in range(1, int(n_)):
                val = (sp.exp(-x_) - x_ * val) / j
            return val
        return x_ ** (n_ - 1) * sp.uppergamma(1 - n_, x_)
    # Ei(-x) = -E_1(x) for x > 0 (sympy writes Gamma(0, x) as -Ei(-x))
    expr = expr.replace(sp.Ei, lambda a_: -sp.expint(1, -a_) if (-a_).is_positive else sp.Ei(a_))
    expr = expr.replace(sp.expint, _expint)
    ugs = list(expr.atoms(sp.uppergamma))
    groups = {}
    for u in ugs:
        groups.setdefault(u.args[1], []).append(u.args[0])
    rep = {}
    for x, ss in groups.items():
        # choose the base: an s such that every other differs from it by a non-negative integer
        base = None
        for cand in ss:
            ds = [sp.simplify(s_ - cand) for s_ in ss]
            if all(d.is_integer and d >= 0 for d in ds):
                base = cand
                break
        if base is None:
            continue
        for s_ in ss:
            k = int(sp.simplify(s_ - base))
            val = sp.uppergamma(base, x)
            for j in range(k):
                val = (base + j) * val + x ** (base + j) * sp.exp(-x)
            rep[sp.uppergamma(s_, x)] = val
    return expr.xreplace(rep)


class CGMYAnalytic(Lemma):
    """CGMY closed forms in analytic mode (real integrate / integrate_against_x / integrate_against_xx / density bodies run over
    symbolic expressions; incomplete-gamma calculus by sympy), activity regimes y<0, y=0, 0<y<1, y=1 and 1<y<2:
      finite intervals on one side of zero: d/db I(a, b) = b^n nu(b), d/da I(a, b) = -a^n nu(a), I(a, a) = 0  (n = 0, 1);
      infinite end: I(a, oo) - I(b, oo) = I(a, b), and I(a, oo) equals the incomplete-gamma integral of x^n nu over (a, oo)
      (Gamma rule int_a^oo z^s e^(-bz) dz = Gamma(s+1, ba) b^(-s-1) applied to the code's own density, the closed forms brought
      to one incomplete gamma function by the recurrence Gamma(s+1, x) = s Gamma(s, x) + x^s e^(-x));
      second moment over a straddling interval [-A, b]: derivative in each end point and value 0 for the empty interval,
      also for the untempered fall-backs g = 0 and m = 0."""
    prop = "C09"
    cases = tuple((reg, kind) for reg in ("0<y<1", "1<y<2") for kind in ("P:n=0", "P:n=1", "N:n=0", "N:n=1", "S:n=2", "S:n=2,g=0", "S:n=2,m=0")) \
        + tuple(("y<0", kind) for kind in ("P:n=0", "N:n=0", "Z:n=0")) \
        + tuple((reg, kind) for reg in ("y=0", "y=1") for kind in ("P:n=0", "P:n=1", "N:n=0", "N:n=1", "S:n=2"))

    def __init__(self):
        self.name = "property:cgmy-closed-forms"

    def prove(self, vc, case):
        from contracts.c10 import install_oracle, S, zero_form
        from pyvc.spval import SpVal, to_sp
        reg, kind = case
        nm = f"{self.name}[{reg},{kind}]"
        c, g, m = S("c", positive=True), S("g", positive=True), S("m", positive=True)
        A, B = S("A", positive=True), S("B", positive=True)       # magnitudes of the end points
        if reg == "y<0":
            return self.prove_finite_activity(vc, nm, kind, c, g, m, A, B)
        if reg in ("y=0", "y=1"):
            # the special activity indices (exponential-integral branches of the closed forms): y is the literal value
            lo = hi = float(reg[-1])
            y = sp.Integer(int(reg[-1]))
            install_oracle(vc, dict(facts=[A < B], sample={c: 0.8, g: 6.0, m: 7.0, A: 0.2, B: 0.5}), nm)
        else:
            lo, hi = (0.0, 1.0) if reg == "0<y<1" else (1.0, 2.0)
            y = S("y", positive=True)
            facts = [f for f in (y > lo, y < hi, A < B) if f is not sp.true]
            install_oracle(vc, dict(facts=facts, sample={c: 0.8, g: 6.0, m: 7.0, y: (lo + hi) / 2, A: 0.2, B: 0.5}), nm)
        gv = SpVal(0) if "g=0" in kind else SpVal(g)
        mv = SpVal(0) if "m=0" in kind else SpVal(m)
        par = vc.obj("rpylib.model.levymodel.purejump.cgmy:CGMYParameters", c=SpVal(c), g=gv, m=mv, y=SpVal(y))
        nu = vc.obj("rpylib.model.levymodel.purejump.cgmy:_CGMYLevyMeasure", parameters=par)
        it = vc.interp
        dens = lambda x: to_sp(it.call(nu, [SpVal(x)], {}))
        samp = lambda rng: {c: rng.uniform(0.2, 2), g: rng.uniform(1, 10), m: rng.uniform(1, 10), A: rng.uniform(0.05, 0.4), B: rng.uniform(0.45, 1.5),
                            **({y: rng.uniform(lo + 0.05, hi - 0.05)} if isinstance(y, sp.Symbol) else {})}
        n = int(kind.split("n=")[1][0])
        meth = {0: "integrate", 1: "integrate_against_x", 2: "integrate_against_xx"}[n]
        if kind[0] in "PN":
            sgn = 1 if kind[0] == "P" else -1
            a, b = (A, B) if sgn > 0 else (-B, -A)          # a < b on the chosen side
            val = to_sp(vc.method(nu, meth, SpVal(a), SpVal(b)))
            # derivatives in the magnitudes: upper end b = sgn*B (P) / a = -B (N)
            vc.check_zero(nm + "::derivative-in-the-upper-end-is-x^n-nu", lambda: zero_form(sp.diff(val, B if sgn > 0 else A) * (1 if sgn > 0 else -1) - (b ** n) * dens(b)), samp)
            vc.check_zero(nm + "::derivative-in-the-lower-end-is-minus-x^n-nu", lambda: zero_form(sp.diff(val, A if sgn > 0 else B) * (1 if sgn > 0 else -1) + (a ** n) * dens(a)), samp)
            vc.check_zero(nm + "::zero-on-the-empty-interval", lambda: zero_form(val.subs(B, A)), samp)
            inf_a = to_sp(vc.method(nu, meth, SpVal(a), np.inf)) if sgn > 0 else to_sp(vc.method(nu, meth, -np.inf, SpVal(b)))
            inf_b = to_sp(vc.method(nu, meth, SpVal(b), np.inf)) if sgn > 0 else to_sp(vc.method(nu, meth, -np.inf, SpVal(a)))
            vc.check_zero(nm + "::infinite-end:additive-with-the-finite-interval", lambda: zero_form(inf_a - inf_b - val), samp)
            from contracts.c10 import half_line_integral
            z = S("z", positive=True)
            tail = half_line_integral(z ** n * dens(sgn * z), z, lo=A) * (sgn ** n)
            vc.check_zero(nm + "::infinite-end:is-the-incomplete-gamma-integral-of-x^n-nu", lambda: zero_form(incomplete_gamma_normal_form(inf_a - tail)), samp)
        else:
            a, b = -A, B
            val = to_sp(vc.method(nu, meth, SpVal(a), SpVal(b)))
            vc.check_zero(nm + "::derivative-in-the-right-end-is-x^2-nu", lambda: zero_form(sp.diff(val, B) - B ** 2 * dens(B)), samp)
            vc.check_zero(nm + "::derivative-in-the-left-end-is-minus-x^2-nu", lambda: zero_form(sp.diff(val, A) - A ** 2 * dens(-A)), samp)
            # both end points -> 0: with y = lo + 1/(1+w), w > 0, the sign of every exponent is visible to the CAS
            w, t = S("w", positive=True), S("t", positive=True)

            def at_zero():
                v = val.subs(y, sp.nsimplify(lo) + 1 / (1 + w)).subs({A: t, B: t})
                try:
                    return zero_form(sp.limit(sp.simplify(v), t, 0, "+"))
                except Exception:
                    return sp.Symbol("limit_not_computed")
            vc.check_zero(nm + "::zero-on-the-empty-interval", at_zero, lambda rng: {w: rng.uniform(0.2, 3), c: 1.0, g: 2.0, m: 3.0})

    def prove_finite_activity(self, vc, nm, kind, c, g, m, A, B):
        """y = -w < 0 (finite activity): the mass of every interval is finite, also with an end point at zero, straddling
        zero and over the whole line.  P / N: as in the other regimes; Z: intervals touching or straddling zero --
        I(0, B) has derivative nu(B) and vanishes as B -> 0+ (likewise I(-A, 0)); I(0, oo) - I(B, oo) = I(0, B);
        the straddling masses are the sums of their two sides: I(-A, B), I(-A, oo), I(-oo, B), I(-oo, oo)."""
        from contracts.c10 import install_oracle, zero_form, S
        from pyvc.spval import SpVal, to_sp
        w = S("w", positive=True)
        y = -w
        install_oracle(vc, dict(facts=[A < B], sample={c: 0.8, g: 6.0, m: 7.0, w: 0.5, A: 0.2, B: 0.5}), nm)
        par = vc.obj("rpylib.model.levymodel.purejump.cgmy:CGMYParameters", c=SpVal(c), g=SpVal(g), m=SpVal(m), y=SpVal(y))
        nu = vc.obj("rpylib.model.levymodel.purejump.cgmy:_CGMYLevyMeasure", parameters=par)
        it = vc.interp
        dens = lambda x: to_sp(it.call(nu, [SpVal(x)], {}))
        samp = lambda rng: {c: rng.uniform(0.2, 2), g: rng.uniform(1, 10), m: rng.uniform(1, 10), w: rng.uniform(0.05, 2.5),
                            A: rng.uniform(0.05, 0.4), B: rng.uniform(0.45, 1.5)}
        I = lambda a, b: to_sp(vc.method(nu, "integrate", a if isinstance(a, float) else SpVal(a), b if isinstance(b, float) else SpVal(b)))
        if kind[0] in "PN":
            sgn = 1 if kind[0] == "P" else -1
            a, b = (A, B) if sgn > 0 else (-B, -A)
            val = I(a, b)
            vc.check_zero(nm + "::derivative-in-the-upper-end-is-x^n-nu", lambda: zero_form(sp.diff(val, B if sgn > 0 else A) * sgn - dens(b)), samp)
            vc.check_zero(nm + "::derivative-in-the-lower-end-is-minus-x^n-nu", lambda: zero_form(sp.diff(val, A if sgn > 0 else B) * sgn + dens(a)), samp)
            vc.check_zero(nm + "::zero-on-the-empty-interval", lambda: zero_form(val.subs(B, A)), samp)
            inf_a = I(a, np.inf) if sgn > 0 else I(-np.inf, b)
            inf_b = I(b, np.inf) if sgn > 0 else I(-np.inf, a)
            vc.check_zero(nm + "::infinite-end:additive-with-the-finite-interval", lambda: zero_form(inf_a - inf_b - val), samp)
            from contracts.c10 import half_line_integral
            z = S("z", positive=True)
            tail = half_line_integral(dens(sgn * z), z, lo=A)
            vc.check_zero(nm + "::infinite-end:is-the-incomplete-gamma-integral-of-x^n-nu", lambda: zero_form(incomplete_gamma_normal_form(inf_a - tail)), samp)
            return
        t = S("t", positive=True)
        right, left = I(0.0, B), I(-A, 0.0)
        vc.check_zero(nm + "::right-of-zero:derivative-in-the-end-point-is-nu", lambda: zero_form(sp.diff(right, B) - dens(B)), samp)
        vc.check_zero(nm + "::left-of-zero:derivative-in-the-end-point-is-nu", lambda: zero_form(sp.diff(left, A) - dens(-A)), samp)

        def vanishes(v, x):
            def f():
                try:
                    return zero_form(sp.limit(sp.simplify(v.subs(x, t)), t, 0, "+"))
                except Exception:
                    return sp.Symbol("limit_not_computed")
            return f
        vc.check_zero(nm + "::right-of-zero:vanishes-with-the-interval", vanishes(right, B), samp)
        vc.check_zero(nm + "::left-of-zero:vanishes-with-the-interval", vanishes(left, A), samp)
        rinf, linf = I(0.0, np.inf), I(-np.inf, 0.0)
        from contracts.c10 import half_line_integral
        z = S("z", positive=True)
        vc.check_zero(nm + "::right-half-line:is-the-gamma-integral-of-the-density", lambda: zero_form(rinf - half_line_integral(dens(z), z)), samp)
        vc.check_zero(nm + "::left-half-line:is-the-gamma-integral-of-the-density", lambda: zero_form(linf - half_line_integral(dens(-z), z)), samp)
        vc.check_zero(nm + "::right-half-line:additive", lambda: zero_form(rinf - I(B, np.inf) - right), samp)
        vc.check_zero(nm + "::left-half-line:additive", lambda: zero_form(linf - I(-np.inf, -A) - left), samp)
        vc.check_zero(nm + "::straddling:sum-of-both-sides", lambda: zero_form(I(-A, B) - left - right), samp)
        vc.check_zero(nm + "::straddling,right-end-infinite:sum-of-both-sides", lambda: zero_form(I(-A, np.inf) - left - rinf), samp)
        vc.check_zero(nm + "::straddling,left-end-infinite:sum-of-both-sides", lambda: zero_form(I(-np.inf, B) - linf - right), samp)
        vc.check_zero(nm + "::whole-line:sum-of-both-half-lines", lambda: zero_form(I(-np.inf, np.inf) - linf - rinf), samp)

    def replay(self, model, clause, case):
        from scipy.integrate import quad
        from rpylib.model.levymodel.purejump.cgmy import CGMYParameters, _CGMYLevyMeasure
        reg, kind = case
        if reg == "y<0":
            return self.replay_finite_activity(clause, kind)
        yv = {"0<y<1": 0.5, "1<y<2": 1.5, "y=0": 0.0, "y=1": 1.0}[reg]
        nu = _CGMYLevyMeasure(CGMYParameters(c=0.8, g=0.0 if "g=0" in kind else 6.0, m=0.0 if "m=0" in kind else 7.0, y=yv))
        n = int(kind.split("n=")[1][0])
        meth = {0: "integrate", 1: "integrate_against_x", 2: "integrate_against_xx"}[n]
        a, b = {"P": (0.2, 0.5), "N": (-0.5, -0.2), "S": (-0.5, 0.2)}[kind[0]]
        if "infinite-end" in clause:
            a, b = (0.2, np.inf) if kind[0] == "P" else (-np.inf, -0.2)
        got = float(getattr(nu, meth)(a, b))
        f = lambda x: x ** n * nu(x)
        want = quad(f, a, b, points=[0.0] if a < 0 < b else None, limit=400)[0] if not (a < 0 < b) else quad(f, a, -1e-12, limit=400)[0] + quad(f, 1e-12, b, limit=400)[0]
        return (abs(got - want) > 1e-6 * max(1.0, abs(want)), {"parameters": repr(nu.parameters), "interval": [a, b], "moment": n, "closed_form": got, "quadrature": float(want)})


    def replay_finite_activity(self, clause, kind):
        from scipy.integrate import quad
        from rpylib.model.levymodel.purejump.cgmy import CGMYParameters, _CGMYLevyMeasure
        nu = _CGMYLevyMeasure(CGMYParameters(c=0.8, g=6.0, m=7.0, y=-0.5))
        inf = np.inf
        if kind[0] == "P":
            ivs = [(0.2, inf)] if "infinite-end" in clause else [(0.2, 0.5)]
        elif kind[0] == "N":
            ivs = [(-inf, -0.2)] if "infinite-end" in clause else [(-0.5, -0.2)]
        elif "whole-line" in clause:
            ivs = [(-inf, inf)]
        elif "right-end-infinite" in clause:
            ivs = [(-0.3, inf)]
        elif "left-end-infinite" in clause:
            ivs = [(-inf, 0.5)]
        elif "straddling" in clause:
            ivs = [(-0.3, 0.5)]
        elif "right-half-line" in clause:
            ivs = [(0.0, inf)]
        elif "left-half-line" in clause:
            ivs = [(-inf, 0.0)]
        elif "right-of-zero" in clause:
            ivs = [(0.0, 0.5), (0.0, 1e-9)]
        else:
            ivs = [(-0.3, 0.0), (-1e-9, 0.0)]
        f = lambda x: float(nu(x))
        for a, b in ivs:
            want = quad(f, a, 0, limit=400)[0] + quad(f, 0, b, limit=400)[0] if a < 0 < b else quad(f, a, b, limit=400)[0]
            try:
                got = float(nu.integrate(a, b))
            except Exception as e:
                return (True, {"parameters": repr(nu.parameters), "interval": [a, b], "moment": 0, "exception": f"{type(e).__name__}: {e}", "quadrature": float(want)})
            if not abs(got - want) <= 1e-6 * max(1.0, abs(want)):
                return (True, {"parameters": repr(nu.parameters), "interval": [a, b], "moment": 0, "closed_form": got, "quadrature": float(want)})
        return (False, {"parameters": repr(nu.parameters), "intervals": [list(i) for i in ivs]})


UNITS = [ClosedForm(s) for s in MODELS.values()] + [XnExp(), XnDispatch(), DensityNonNegative(), CGMYAnalytic()]


def LATE_UNITS():
    # "A truncated measure returns the integral over the intersection of [a,b] with its truncation interval and its
    # density vanishes outside it": the contracts live in c01 (over the abstract measure layer) and are part of C09 too
    from contracts import c01, c20
    # "for every model ... equal the integral of x^n times the model's density": also for a model whose parameters were
    # reassigned and re-initialised (calibration): every derived attribute the density / closed forms read is then the one a
    # directly constructed object has (C20's synchronisation lemma)
    # ... and a model truncated TWICE integrates over the intersection of both intervals (c01.ModelTruncateMass)
    return [c01.TruncatedInterval(), c01.TruncatedIntegrate(), c01.TruncatedDensity(), c01.ModelTruncateMass(), c20.Synchronisation()]


ASSUMPTIONS = ["A1: floats are mathematical reals", "A6: fundamental theorem of calculus (an antiderivative with the right base value is the integral)",
               "A4: sympy's differentiation / limits / simplification are trusted; Gamma rule for int z^s e^(-bz) dz over a half line and the incomplete-gamma recurrence Gamma(s+1, x) = s Gamma(s, x) + x^s e^(-x)"]
TRUSTED_BASE = ["sympy 1.14 (diff, limit, simplify)", "z3 5.1 for path feasibility", "pyvc interpreter + library models, z3->sympy translation"]


class QuadratureBattery:
    """B2 (native, bounded): every integrate* of every battery model (incl. CGMY in the regimes y<0... y=0.5, 1.1; generic
    quad fallbacks) against scipy quadrature of x^n nu(x) on a fixed family of intervals; truncated measures against the
    quadrature over the intersection with the truncation."""
    name = "bounded:quadrature-battery"
    tier = "quick"
    INTERVALS = [(0.01, 0.5), (0.2, np.inf), (-0.6, -0.02), (-np.inf, -0.1), (-0.4, 0.3), (-np.inf, np.inf), (0.0, 0.25), (-0.3, 0.0), (-0.3, np.inf), (-np.inf, 0.2)]

    def run(self, tier, seed):
        from contracts import battery
        from scipy.integrate import quad
        from rpylib.model.levymodel.levymodel import TruncatedLevyMeasure
        from rpylib.model.utils import create_exponential_of_levy_model, ModelType
        ms = dict(battery.models())
        for y in (-0.5, 0.0, 1.0, 1.5):
            try:
                ms[f"cgmy_y={y}"] = create_exponential_of_levy_model(ModelType.CGMY)(spot=100.0, r=0.05, d=0.02, c=0.3, g=10.0, m=8.0, y=y)
            except Exception:
                pass
        ev, viol, samples = 0, {}, []
        for name, m in ms.items():
            nu0 = m.levy_triplet.nu
            for nu, tag in ((nu0, ""), (TruncatedLevyMeasure(nu0, (-0.35, 0.45)), "truncated(-0.35,0.45)")):
                for n, meth in ((0, "integrate"), (1, "integrate_against_x"), (2, "integrate_against_xx")):
                    for a, b in self.INTERVALS:
                        aa, bb = (max(a, -0.35), min(b, 0.45)) if tag else (a, b)
                        if aa >= bb:
                            continue
                        # finiteness: mass near zero only for finite-activity models; first moment needs finite variation
                        touches0 = aa <= 0 <= bb
                        # (finite activity decided from the activity index itself: CGMY's own flag says y < -1, the mass near 0
                        # is finite for every y < 0)
                        fin_act = nu0.jump_of_finite_activity() or ("cgmy_y=" in name and float(name.split("=")[1]) < 0)
                        if touches0 and ((n == 0 and not fin_act) or (n == 1 and not nu0.jump_of_finite_variation())):
                            continue
                        ev += 1
                        try:
                            got = float(getattr(nu, meth)(a, b))
                            f = lambda x: x ** n * float(nu0(x)) if x != 0 else 0.0
                            if touches0 and aa < 0 < bb:
                                want = quad(f, aa, 0, limit=400)[0] + quad(f, 0, bb, limit=400)[0]
                            else:
                                want = quad(f, aa, bb, limit=400)[0]
                            ok = abs(got - want) <= 1e-5 * max(1e-3, abs(want))
                        except Exception as e:
                            ok, got, want = False, f"{type(e).__name__}: {e}", None
                        info = {"model": name, "measure": tag or "plain", "moment": n, "interval": [a, b], "closed_form": got, "quadrature": want}
                        if len(samples) < 3:
                            samples.append(info)
                        if not ok:
                            key = (name, n, "at-zero") if (touches0 and "cgmy_y=-" in name and n == 0) else (name.split("_y")[0], n)
                            lab = f"{self.name}[{name},n=0,interval-touching-zero]" if key[-1] == "at-zero" else f"{self.name}[{name.split('_y')[0]},n={n}]"
                            viol.setdefault(key, {"obligation": f"{lab}::closed-form-equals-density-quadrature", "bounded": self.name, "witness": info})
        return {"name": self.name, "evaluations": ev, "distinct_nontrivial": ev, "violations": list(viol.values()), "samples": samples,
                "bound": f"{len(ms)} models x plain/truncated x n in 0..2 x {len(self.INTERVALS)} intervals"}

    def replay(self, rec):
        r = self.run("quick", 0)
        hit = [v for v in r["violations"] if v["obligation"] == rec["obligation"]]
        return (bool(hit), hit[0]["witness"] if hit else {})


BOUNDED = [QuadratureBattery()]
