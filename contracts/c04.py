"""C04 — drift compensation: the chain reproduces the mean of the process it replaces; small-jump variance.

Verified against the abstract measure MU / MU1 / MU2 of contracts/spec_measure.py.  K = int_{|x|<1} x nu,
T = int_{|x|>=1} x nu are uninterpreted; every statement holds for all their values.
"""
import numpy as np
import z3

from pyvc.contract import FunctionContract, Lemma, VC, Req, ForAllInts
from pyvc.interp import LoopSpec
from pyvc.sym import And, Or, Not, Implies, If, Eq, compare, smax, smin, is_sym, Sym, lift, as_real_term, as_int_term, INF
from pyvc.values import SymSeq
from contracts.spec_measure import MU, MU1, MU2, additivity, basic_axioms
from contracts.c01 import wf_grid, cell_lo, cell_hi, mu_measure, SP, GR, LM

PROPERTY_ID = "C04"
LEVEL = "proof"
MC = "rpylib.process.markovchain.markovchain:"

NEG_INF, POS_INF = z3.Real("minus_infinity"), z3.Real("plus_infinity")


def hook_measure_ext(interp, fv=None):
    """abstract measure with infinite end points mapped to two distinguished constants"""
    from pyvc import ctx

    def endpoint(x):
        if not is_sym(x) and x == -INF:
            return Sym(NEG_INF, "r")
        if not is_sym(x) and x == INF:
            return Sym(POS_INF, "r")
        return x

    def integ(F):
        def h(it, f, b):
            a_, b_ = b["a"], b["b"]
            ctx.PATH.check("-> LevyMeasure.integrate*::requires(a<=b)", compare(a_, b_, "<="))
            return F(endpoint(a_), endpoint(b_))
        return h
    interp.hooks[LM + "LevyMeasure.integrate"] = integ(MU)
    interp.hooks[LM + "LevyMeasure.integrate_against_x"] = integ(MU1)
    interp.hooks[LM + "LevyMeasure.integrate_against_xx"] = integ(MU2)
    if fv is not None:
        interp.hooks[LM + "LevyMeasure.jump_of_finite_variation"] = lambda it, f, b: ctx.PATH.ghost["fv"]

        def bg(it, f, b):
            # Blumenthal-Getoor index of the abstract measure: any value in [0, 2] consistent with the variation flag
            # (finite variation <=> int |x| nu(dx) near 0 finite <=> index < 1 for the power-law families; index 1 itself is
            # infinite variation)
            g = ctx.PATH.ghost
            if "bg" not in g:
                v = ctx.PATH.fresh("blumenthal_getoor_index", "r")
                ctx.PATH.assume(And(v >= 0, v <= 2, g["fv"] == (v < 1)))
                g["bg"] = v
            return g["bg"]
        interp.hooks[LM + "LevyMeasure.blumenthal_getoor_index"] = bg


# first-moment integrals over the standard regions
def K_():
    return MU1(-1, 1)


def T_():
    return MU1(Sym(NEG_INF, "r"), -1) + MU1(1, Sym(POS_INF, "r"))


MSUM = z3.Function("M_weighted_rates", z3.IntSort(), z3.RealSort())


def Mf(k):
    return Sym(MSUM(as_int_term(lift(k))), "r")


class ComputeMuH(FunctionContract):
    """compute_mu_h = sum over non-origin states of state * MU(cell(state)), with the cells of C01 (the function
    recomputes the cell boundaries with a running variable: the invariant ties it to the spec cell)."""
    prop = "C04"
    target = MC + "compute_mu_h"
    name = "compute_mu_h"
    cases = ("first-axis", "another-axis-of-a-per-axis-grid")

    def __init__(self):
        def inv(L, g):
            ax, o, k = g["ax"], g["o"], L._i
            n = ax.length
            return And(L.mu_h == Mf(k), Implies(k < n, L.mid_point_left == cell_lo(ax, k)))
        self.loops = {0: LoopSpec(inv, havoc={"mu_h": lambda path, cur: path.fresh("mu_h", "r")})}

    def configure(self, interp):
        hook_measure_ext(interp)

    def setup(self, vc, case):
        if case == "another-axis-of-a-per-axis-grid":
            # copula chain on a grid whose axes differ (credit grid with different levels): margin k uses axis k
            grid0, ax0, h, o = wf_grid(vc, d=2, name="first_axis")
            grid, ax, _, _ = wf_grid(vc, d=2)
            vc.assume(And(vc.path.inputs["origin"] == o, ax.length == ax0.length)) if False else None
            grid.fields["axes"] = [ax0, ax]
            o = grid.fields["origin_coordinate"].fields["value"][1]
        else:
            grid, ax, h, o = wf_grid(vc)
        basic_axioms(vc)
        g = vc.ghost
        g.update(ax=ax, o=o, h=h)
        n = ax.length
        # definition of the weighted partial sums (recursive spec), instantiated at every index by a quantifier
        k = z3.Int("mk")
        ks = Sym(k, "i")
        term = If(ks == o, 0, ax.raw(ks) * MU(cell_lo(ax, ks), cell_hi(ax, ks)))
        vc.assume(Mf(0) == 0)
        vc.assume(Sym(z3.ForAll([k], z3.Implies(z3.And(k >= 0, k < as_int_term(lift(n))), MSUM(k + 1) == MSUM(k) + as_real_term(lift(term))),
                                patterns=[MSUM(k + 1)]), "b"))
        return dict(levy_measure=mu_measure(vc), grid=grid, axis=ax, origin=o)

    def ensures(self, result, levy_measure=None, grid=None, axis=None, origin=None):
        return {"mu_h-is-the-rate-weighted-sum-of-the-states": result == Mf(axis.length)}

    def replay(self, model, clause, case):
        from contracts import battery
        from rpylib.process.markovchain.markovchain import compute_mu_h
        from rpylib.distribution.samplingfactory import create_q_vector
        from rpylib.grid.spatial import CTMCUniformGrid, CTMCGridGeometric
        for name, m in battery.models(("hem", "cgmy")).items():
            for grid in (CTMCUniformGrid(h=0.05, model=m), CTMCGridGeometric(h=0.05, model=m, nb_of_points_on_each_side=5)):
                nu = m.levy_triplet.nu
                q = create_q_vector(nu, grid)
                mu = compute_mu_h(nu, grid, grid.axes[0], grid.origin_coordinate.value)
                want = float(np.dot(grid.axes[0], q))
                if abs(mu - want) > 1e-10 * max(1, abs(want)):
                    return (True, {"model": name, "grid": type(grid).__name__, "mu_h": float(mu), "sum_state_times_rate": want})
        return (False, {})


REPS = ("ZERO", "CENTER", "ONEONE", "TILDE")


def spec_mean(rep, a, fv):
    """mean per unit time of a Levy process with drift a in representation rep (Levy-Khintchine): a + int (x - h_rep(x)) nu(dx)"""
    K, T = K_(), T_()
    if rep == "CENTER":
        return a
    if rep == "ONEONE":
        return a + T
    if rep == "ZERO":
        return a + K + T
    return If(fv, a + K + T, a + T)        # TILDE: cut-off radius 0 (finite variation) or 1


class DriftUsesTheCellsOfTheRates(Lemma):
    """compute_mu_h against create_q_vector (both real bodies) on a 5-state axis whose cell boundaries are given by an ABSTRACT
    grid.middle (a grid that places its boundaries by mass, as the probability-step grid does, is an instance): mu_h is the
    sum over the non-origin states of state x rate with the SAME cells -- whatever the grid calls the middle of two states."""
    prop = "C04"
    name = "property:drift-compensation-uses-the-cells-of-the-rates"

    def prove(self, vc, case):
        it = vc.interp
        MID = z3.Function("GRID_MIDDLE", z3.RealSort(), z3.RealSort(), z3.RealSort())
        mid = lambda it_, f, b: Sym(MID(as_real_term(lift(b["xi"])), as_real_term(lift(b["xip"]))), "r")
        it.hooks[SP + "CTMCGrid.middle"] = mid
        it.hooks[SP + "CTMCGrid.middle.register[float]"] = mid          # the single-dispatch variant for two scalars
        it.hooks[LM + "LevyMeasure.integrate"] = lambda it_, f, b: MU(b["a"], b["b"])
        xs = vc.reals("state", 5)
        h = vc.real("h")
        vc.assume(And(xs[0] < xs[1], xs[1] < 0, xs[2] == 0, 0 < xs[3], xs[3] < xs[4], h > 0, xs[1] == -h, xs[3] == h))
        axis = np.array(xs, dtype=object)
        grid = vc.new(SP + "CTMCGrid", h, 2, [axis])
        nu = vc.obj(LM + "LevyMeasure")
        q = list(np.ravel(np.asarray(it.call(it.get_function("rpylib.distribution.samplingfactory:create_q_vector"), [nu, grid], {}), dtype=object)))
        mu = it.call(it.get_function(MC + "compute_mu_h"), [nu, grid, axis, 2], {})
        vc.check(self.name + "::one-rate-per-state", len(q) == 5)
        if len(q) == 5:
            vc.check(self.name + "::mu_h-is-the-rate-weighted-sum-of-the-states", compare(mu, sum((xs[j] * q[j] for j in (0, 1, 3, 4)), 0.0), "=="))

    def replay(self, model, clause, case):
        from contracts import battery
        from rpylib.grid.spatial import CTMCGridProbabilityStep
        from rpylib.distribution.samplingfactory import create_q_vector
        from rpylib.process.markovchain.markovchain import compute_mu_h
        m = battery.models(("hem",))["hem"]
        grid = CTMCGridProbabilityStep(h=0.05, model=m, minimum_probability_step=0.05)
        nu = m.levy_triplet.nu
        ax, o = grid.axes[0], grid.origin_coordinate.value
        q = np.asarray(create_q_vector(nu, grid), float)
        mu = float(compute_mu_h(nu, grid, ax, o))
        want = float(np.sum(np.asarray(ax, float) * q))
        return (abs(mu - want) > 1e-10 * max(1.0, abs(want)), {"grid": "CTMCGridProbabilityStep h=0.05 (HEM)", "mu_h": mu, "sum_of_state_times_rate": want})


class Representations(Lemma):
    """every change of representation preserves the mean of the process; hence conversions are path-independent and
    reversible (the drift is determined by the mean and the representation).  Real bodies of set_representation and
    the four *_drift methods; 4 x 4 x {finite, infinite variation}."""
    prop = "C04"
    cases = tuple((r0, r1) for r0 in REPS for r1 in REPS)

    def __init__(self):
        self.name = "property:representation-change-preserves-the-mean"

    def prove(self, vc, case):
        r0, r1 = case
        it = vc.interp
        hook_measure_ext(it, fv=True)
        fv = vc.bool("finite_variation")
        vc.ghost["fv"] = fv
        a = vc.real("a")
        R = lambda n: vc.enum(LM + "LevyRepresentation", n)
        sigma = vc.real("sigma")
        vc.assume(sigma >= 0)
        trip = vc.new(LM + "LevyTriplet", sigma, mu_measure(vc), a, R(r0))
        nm = f"{self.name}[{r0}->{r1}]"
        m0 = spec_mean(r0, a, fv)
        vc.method(trip, "set_representation", R(r1))
        a1 = trip.fields["a"]
        vc.check(nm + "::mean-preserved", spec_mean(r1, a1, fv) == m0)
        vc.check(nm + "::representation-recorded", trip.fields["representation"] == R(r1))
        # reversible
        vc.method(trip, "set_representation", R(r0))
        vc.check(nm + "::round-trip-restores-the-drift", trip.fields["a"] == a)

    def replay(self, model, clause, case):
        from contracts import battery
        from rpylib.model.levymodel.levymodel import LevyRepresentation as LR
        import copy
        r0, r1 = case
        m = copy.deepcopy(battery.models(("hem",))["hem"].levy_model) if hasattr(battery.models(("hem",))["hem"], "levy_model") else None
        if m is None:
            return None
        # an infinite-variation model at the boundary index (CGMY, y = 1) for the representations that exist for it
        if "ZERO" not in (r0, r1):
            from rpylib.model.levymodel.purejump.cgmy import CGMYParameters, CGMYModel
            mc = CGMYModel(CGMYParameters(c=0.5, g=6.0, m=8.0, y=1.0))
            tc = mc.levy_triplet
            try:
                tc.set_representation(getattr(LR, r0))
                ac = tc.a
                tc.set_representation(getattr(LR, r1))
                tc.set_representation(getattr(LR, r0))
                if not (abs(tc.a - ac) <= 1e-10):
                    return (True, {"model": "CGMY y=1", "from": r0, "to": r1, "drift_round_trip": [float(ac), float(tc.a)]})
            except Exception as e:
                return (True, {"model": "CGMY y=1", "from": r0, "to": r1, "exception": f"{type(e).__name__}: {e}"})
        t = m.levy_triplet
        t.set_representation(getattr(LR, r0))
        a0 = t.a
        nu = t.nu
        K = nu.integrate_against_x(-1, 1)
        T = nu.integrate_against_x(-np.inf, -1) + nu.integrate_against_x(1, np.inf)
        fv = nu.jump_of_finite_variation()
        mean = lambda rep, a: {"CENTER": a, "ONEONE": a + T, "ZERO": a + K + T, "TILDE": a + K + T if fv else a + T}[rep]
        m0 = mean(r0, a0)
        t.set_representation(getattr(LR, r1))
        m1 = mean(r1, t.a)
        t.set_representation(getattr(LR, r0))
        return (abs(m1 - m0) > 1e-10 or abs(t.a - a0) > 1e-10, {"from": r0, "to": r1, "mean_before": m0, "mean_after": m1, "drift_round_trip": [a0, t.a]})



def native_mean_replay(accessor_first=False):
    from contracts import battery
    from rpylib.grid.spatial import CTMCUniformGrid, CTMCGridGeometric
    worst = None
    for name, m in battery.models().items():
        if accessor_first:
            m.levy_triplet.center_drift()         # history: a drift accessor evaluated on the caller's (untruncated) triplet
        for grid in (CTMCUniformGrid(h=0.05, model=m), CTMCGridGeometric(h=0.1, model=m, nb_of_points_on_each_side=5)):
            d, info = battery.chain_mean_defect(m, grid)
            info.update(model=name, grid=type(grid).__name__, defect=d)
            if d > 1e-6 * max(1.0, abs(info["truncated_process_mean"])):
                return (True, info)
            worst = info if worst is None or d > worst["defect"] else worst
    return (False, worst)


class ComputeMuHModular(ComputeMuH):
    """the same contract used at call sites (callee body not re-executed)"""

    def requires(self, **kw):
        return True

    def modular_result(self, vc, **kw):
        return vc.fresh("mu_h", "r")

    def ensures(self, result, levy_measure=None, grid=None, axis=None, origin=None):
        return {"def": result == Mf(axis.length)}


class Initialisation(FunctionContract):
    """MarkovChainProcess.initialisation: process drift = model drift + a (TILDE) + first moment outside the cut-off radius
    (0 for finite variation, 1 otherwise) - mu_h; hence drift + sum_k x_k rate_k = model drift + mean of the truncated
    process (Levy-Khintchine), for both variation regimes and every payoff-date mode."""
    prop = "C04"
    target = MC + "MarkovChainProcess.initialisation"
    cases = ("fixed-dates", "jump-times", "max-step")

    def __init__(self):
        self.name = "MarkovChainProcess.initialisation"
        self.modular = (ComputeMuHModular(),)

    def configure(self, interp):
        from pyvc import ctx
        hook_measure_ext(interp, fv=True)
        for c in ("MCSimulationFixedTimes", "MCSimulationWithJumpTimes", "MCSimulationMaximumStep"):
            interp.hooks[MC + c + ".__init__"] = lambda it, f, b: None
        interp.hooks[LM + "LevyModel.drift"] = lambda it, f, b: ctx.PATH.ghost["D"]

    def setup(self, vc, case):
        grid, ax, h, o = wf_grid(vc)
        basic_axioms(vc)
        fv, a, D = vc.bool("finite_variation"), vc.real("a_tilde"), vc.real("model_drift")
        vc.ghost.update(fv=fv, D=D, ax=ax, a=a)
        trip = vc.obj(LM + "LevyTriplet", a=a, nu=mu_measure(vc))
        model = vc.obj(LM + "LevyModel", levy_triplet=trip)
        proc = vc.obj(MC + "MarkovChainProcess", model=model, grid=grid)
        PD = "rpylib.product.payoff:PayoffDates"
        payoff = vc.obj("rpylib.product.payoff:Payoff", payoff_dates_type=vc.enum(PD, "STOCHASTIC" if case == "jump-times" else "DETERMINISTIC"))
        product = vc.obj("rpylib.product.product:Product", payoff=payoff)
        return dict(self=proc, product=product, max_step_epsilon=(vc.real("eps") if case == "max-step" else None))

    def ensures(self, result, self_=None, **kw):
        from pyvc import ctx
        g = ctx.PATH.ghost
        fv, D, a, ax = g["fv"], g["D"], g["a"], g["ax"]
        ninf, pinf = Sym(NEG_INF, "r"), Sym(POS_INF, "r")
        comp = If(fv, MU1(ninf, 0) + MU1(0, pinf), MU1(ninf, -1) + MU1(1, pinf))
        drift = self_.fields["_process_drift"]
        return {"process-drift-formula": drift == D + a + comp - Mf(ax.length),
                "chain-mean-is-model-drift-plus-mean-of-the-truncated-process": drift + Mf(ax.length) == D + a + comp}

    def replay(self, model, clause, case):
        return native_mean_replay()


class MeanIdentity(Lemma):
    """a (TILDE) + first moment outside the cut-off radius = the Levy-Khintchine mean of the TILDE representation
    (additivity of the first-moment integral at -1, 0, 1)."""
    prop = "C04"
    name = "property:tilde-compensator-is-the-mean-correction"

    def prove(self, vc, case):
        fv, a = vc.bool("finite_variation"), vc.real("a")
        ninf, pinf = Sym(NEG_INF, "r"), Sym(POS_INF, "r")
        vc.assume(And(ninf < -1, pinf > 1))
        for x, y, z in ((ninf, -1, 0), (0, 1, pinf), (-1, 0, 1)):
            vc.assume(additivity(x, y, z, F=MU1))
        comp = If(fv, MU1(ninf, 0) + MU1(0, pinf), MU1(ninf, -1) + MU1(1, pinf))
        vc.check(self.name + "::compensated-drift-is-the-mean", a + comp == spec_mean("TILDE", a, fv))


class VolAdjustment(FunctionContract):
    """vol_adjustment(model, h)^2 = second moment of the jumps inside the central cell (capped at radius 1) for
    infinite-variation models, 0 for finite-variation models"""
    prop = "C04"
    target = MC + "vol_adjustment"
    name = "vol_adjustment"

    def configure(self, interp):
        hook_measure_ext(interp, fv=True)

    def setup(self, vc, case):
        basic_axioms(vc)
        fv, h = vc.bool("finite_variation"), vc.real("h")
        vc.ghost["fv"] = fv
        model = vc.obj(LM + "LevyModel", levy_triplet=vc.obj(LM + "LevyTriplet", nu=mu_measure(vc)))
        return dict(model=model, h=h)

    def requires(self, h=None, **kw):
        return h > 0

    def ensures(self, result, model=None, h=None):
        from pyvc import ctx
        fv = ctx.PATH.ghost["fv"]
        c = MU2(smax(-h / 2, -1), smin(h / 2, 1))
        return {"nothing-added-for-finite-variation": Implies(fv, result == 0),
                "central-cell-variance-for-infinite-variation": Implies(Not(fv), And(result >= 0, result * result == c)),
                "central-cell-is-the-integration-range-for-h<=2": Implies(And(Not(fv), h <= 2), result * result == MU2(-h / 2, h / 2))}


def _vol_adjustment_replay(h):
    from contracts import battery
    from rpylib.process.markovchain.markovchain import vol_adjustment
    from scipy.integrate import quad
    m = battery.models(("cgmy",))["cgmy"]
    nu = m.levy_triplet.nu
    got = float(vol_adjustment(m, h)) ** 2
    f = lambda x: x * x * float(nu(x))
    want = quad(f, -h / 2, 0, limit=200)[0] + quad(f, 0, h / 2, limit=200)[0]
    return (abs(got - want) > 1e-7 * max(1.0, abs(want)), {"model": "CGMY y=1.1", "h": h, "added_variance": got, "variance_of_the_jumps_inside_the_central_cell": want})


VolAdjustment.replay = lambda self, model, clause, case: _vol_adjustment_replay(0.5)


class VolAdjustmentWideCell(Lemma):
    """the property's clause read literally for a step h > 2 (central cell wider than the cut-off radius 1 of the
    compensator): the variance of ALL jumps inside the central cell (-h/2, h/2) is added.  The code integrates over [-1, 1]."""
    prop = "C04"
    name = "property:central-cell-variance[h>2]"

    def prove(self, vc, case):
        hook_measure_ext(vc.interp, fv=True)
        basic_axioms(vc)
        h = vc.real("h")
        vc.assume(h > 2)
        vc.ghost["fv"] = False
        model = vc.obj(LM + "LevyModel", levy_triplet=vc.obj(LM + "LevyTriplet", nu=mu_measure(vc)))
        r = vc.call(MC + "vol_adjustment", model=model, h=h)
        vc.check(self.name + "::variance-of-all-jumps-inside-the-central-cell-is-added", r * r == MU2(-h / 2, h / 2))

    def replay(self, model, clause, case):
        return _vol_adjustment_replay(3.0)


class VolAdjustmentModular(VolAdjustment):
    def modular_result(self, vc, **kw):
        r = vc.fresh("vol_adj", "r")
        vc.ghost["vol_adj"] = r
        return r


class ChainConstructor(FunctionContract):
    """MarkovChainProcess.__init__: works on a deep copy (the caller's model is untouched), truncates the copy's measure
    to the grid's bounds BEFORE switching it to the TILDE representation (so the drift is compensated with the truncated
    integrals and the truncated process keeps its mean), and adds the central-cell variance to the squared diffusion."""
    prop = "C04"
    target = MC + "MarkovChainProcess.__init__"
    # "...|accessor": a drift accessor of the caller's triplet (center_drift) was evaluated BEFORE the chain is built -- whatever
    # it computed for the untruncated measure must not be reused for the truncated copy
    cases = REPS + ("ZERO|accessor", "CENTER|accessor", "TILDE|accessor")

    def __init__(self):
        self.name = "MarkovChainProcess.__init__"
        self.modular = (VolAdjustmentModular(),)

    def configure(self, interp):
        from pyvc import ctx
        hook_measure_ext(interp, fv=True)
        interp.hooks["rpylib.process.levyprocess:LevyProcess.__init__"] = lambda it, f, b: b["self"].fields.update(model=b["model"])
        interp.hooks["rpylib.distribution.samplingfactory:compute_intensity_of_jumps"] = \
            lambda it, f, b: (ctx.PATH.ghost.update(intensity_args=(b["model"], b["grid"])), ctx.PATH.ghost["lam"])[1]
        interp.hooks["rpylib.distribution.samplingfactory:create_sampling_method"] = \
            lambda it, f, b: (ctx.PATH.ghost.update(sampling_args=b), None)[1]

    def setup(self, vc, r0):
        r0, _, history = r0.partition("|")
        grid, ax, h, o = wf_grid(vc)
        basic_axioms(vc)
        fv, a, sigma, lam = vc.bool("finite_variation"), vc.real("a"), vc.real("sigma"), vc.real("intensity")
        vc.assume(sigma >= 0)
        nu = mu_measure(vc)
        R = lambda n: vc.enum(LM + "LevyRepresentation", n)
        trip = vc.new(LM + "LevyTriplet", sigma, nu, a, R(r0))
        if history:
            vc.ghost.update(fv=fv)
            vc.method(trip, "center_drift")
        model = vc.obj(LM + "LevyModel", levy_triplet=trip, _original_drift=a)
        vc.ghost.update(fv=fv, lam=lam, a=a, r0=r0, nu=nu, model=model, sigma=sigma, ax=ax, h=h, grid=grid)
        method = vc.enum("rpylib.distribution.sampling:SamplingMethod", "INVERSION")
        return dict(self=vc.obj(MC + "MarkovChainProcess"), model=model, method=method, grid=grid)

    def ensures(self, result, self_=None, model=None, grid=None, **kw):
        from pyvc import ctx
        g = ctx.PATH.ghost
        fv, a0, r0, nu0, sigma, ax, lam = g["fv"], g["a"], g["r0"], g["nu"], g["sigma"], g["ax"], g["lam"]
        l, r = ax.raw(0), ax.raw(ax.length - 1)
        mt = self_.fields["model"]
        t = mt.fields["levy_triplet"]
        nu = t.fields["nu"]
        out = {}
        out["works-on-a-copy"] = (mt is not model) and (t is not model.fields["levy_triplet"])
        ot = model.fields["levy_triplet"]
        out["callers-model-untouched"] = And(ot.fields["a"] == a0, ot.fields["nu"] is nu0, ot.fields["representation"].name == r0)
        is_tr = getattr(nu, "cls", None) is not None and nu.cls.name == "TruncatedLevyMeasure"
        out["measure-truncated-to-the-grid-bounds"] = is_tr and And(nu.fields["truncations"][0] == l, nu.fields["truncations"][1] == r)
        out["tilde-representation"] = t.fields["representation"].name == "TILDE"
        clip = lambda x: smax(smin(x, r), l)
        K = MU1(clip(-1), clip(1))
        T = MU1(l, clip(-1)) + MU1(clip(1), r)

        def mean(rep, a):
            return {"CENTER": a, "ONEONE": a + T, "ZERO": a + K + T}.get(rep, If(fv, a + K + T, a + T))
        out["mean-of-the-truncated-process-preserved (truncate, then compensate)"] = mean("TILDE", t.fields["a"]) == mean(r0, a0)
        out["intensity-computed-on-the-truncated-copy"] = And(self_.fields["intensity_of_jumps"] == lam, g["intensity_args"][0] is mt, g["intensity_args"][1] is grid)
        out["sampler-built-on-the-truncated-copy-with-that-intensity"] = (g["sampling_args"]["model"] is mt) and (g["sampling_args"]["levy_measure"] is nu) and g["sampling_args"]["intensity_of_jumps"] == lam
        e = self_.fields["equivalent_diffusion_coefficient"]
        out["squared-diffusion-plus-central-cell-variance"] = And(e >= 0, e * e == sigma * sigma + g["vol_adj"] * g["vol_adj"])
        return out

    def replay(self, model, clause, case):
        if "copy" in clause or "untouched" in clause:
            from contracts import battery
            from rpylib.grid.spatial import CTMCGridGeometric
            from rpylib.process.markovchain.markovchain import MarkovChainProcess
            from rpylib.distribution.sampling import SamplingMethod
            from rpylib.model.levymodel.levymodel import TruncatedLevyMeasure
            m = battery.models(("hem",))["hem"]
            nu0, a0, rep0 = m.levy_triplet.nu, m.levy_triplet.a, m.levy_triplet.representation
            narrow = CTMCGridGeometric.create_with_bounds(h=0.05, truncations=(-0.2, 0.2), dimension=1, nb_of_points_on_each_side=4)
            MarkovChainProcess(m, SamplingMethod.INVERSION, narrow)
            t = m.levy_triplet
            bad = t.nu is not nu0 or isinstance(t.nu, TruncatedLevyMeasure) or t.a != a0 or t.representation != rep0
            return (bool(bad), {"callers_measure_after_building_a_chain": type(t.nu).__name__, "drift": [a0, t.a], "representation": [rep0.name, t.representation.name]})
        if "mean" in clause or "drift" in clause or "truncated" in clause:
            return native_mean_replay(accessor_first="|" in str(case))
        return None


MUK = {k: z3.Function(f"MU1_margin{k}", z3.RealSort(), z3.RealSort(), z3.RealSort()) for k in range(3)}
MHK = {k: z3.Real(f"mu_h_margin{k}") for k in range(3)}


class CopulaInitialisation(FunctionContract):
    """MarkovChainLevyCopula.initialisation (d = 2, 3): per margin k, process drift = margin model drift + a_k + first moment
    of margin k outside the cut-off radius OF MARGIN k's OWN variation regime - mu_h of margin k computed on axis k with
    origin index k (the margins' regimes are independent symbolic flags: mixed copulas included)."""
    prop = "C04"
    target = "rpylib.process.markovchain.markovchainlevycopula:MarkovChainLevyCopula.initialisation"
    cases = (2, 3)

    def __init__(self):
        self.name = "MarkovChainLevyCopula.initialisation"

    def configure(self, interp):
        from pyvc import ctx
        P_ = "rpylib.process.markovchain.markovchainlevycopula:"
        for c in ("MCLevyCopulaSimulationFixedTimes", "MCLevyCopulaSimulationWithJumpTimes", "MCLevyCopulaSimulationMaximumStep"):
            interp.hooks[P_ + c + ".__init__"] = lambda it, f, b: None

        def mu_h(it, f, b):
            g = ctx.PATH.ghost
            k = next(i for i, nu in enumerate(g["nus"]) if nu is b["levy_measure"])
            ctx.PATH.check("initialisation -> compute_mu_h::margin-k-uses-axis-k-and-origin-k",
                           And(b["axis"] is g["axes"][k], b["origin"] == g["o"], b["grid"] is g["grid"]))
            return Sym(MHK[k], "r")
        interp.hooks[MC + "compute_mu_h"] = mu_h

        def int_x(it, f, b):
            g = ctx.PATH.ghost
            k = next(i for i, nu in enumerate(g["nus"]) if nu is b["self"])
            e = lambda x: Sym(NEG_INF, "r") if (not is_sym(x) and x == -INF) else (Sym(POS_INF, "r") if (not is_sym(x) and x == INF) else x)
            return Sym(MUK[k](as_real_term(lift(e(b["a"]))), as_real_term(lift(e(b["b"])))), "r")
        interp.hooks[LM + "LevyMeasure.integrate_against_x"] = int_x
        interp.hooks["rpylib.model.levycopulamodel:LevyCopulaModel.jump_of_finite_variation"] = lambda it, f, b: And(*ctx.PATH.ghost["fvk"])
        interp.hooks[LM + "LevyModel.jump_of_finite_variation"] = lambda it, f, b: ctx.PATH.ghost["fvk"][next(i for i, m in enumerate(ctx.PATH.ghost["models"]) if m is b["self"])]
        interp.hooks[LM + "LevyModel.drift"] = lambda it, f, b: ctx.PATH.ghost["D"][next(i for i, m in enumerate(ctx.PATH.ghost["models"]) if m is b["self"])]

    def setup(self, vc, d):
        grid, ax, h, o = wf_grid(vc, d=d)
        axes = [vc.seq(f"axis{k}", "r", min_len=3) for k in range(d)]
        grid.fields["axes"] = axes
        fvk = [vc.bool(f"margin{k}_finite_variation") for k in range(d)]      # every margin has its OWN variation regime
        a, D = vc.reals("a", d), vc.reals("model_drift", d)
        nus = [mu_measure(vc) for _ in range(d)]
        models = [vc.obj(LM + "LevyModel", levy_triplet=vc.obj(LM + "LevyTriplet", a=a[k], nu=nus[k])) for k in range(d)]
        cm = vc.obj("rpylib.model.levycopulamodel:LevyCopulaModel", models=models)
        proc = vc.obj("rpylib.process.markovchain.markovchainlevycopula:MarkovChainLevyCopula", model=cm, grid=grid)
        vc.ghost.update(fvk=fvk, D=D, a=a, nus=nus, models=models, axes=axes, o=o, grid=grid, d=d)
        PD = "rpylib.product.payoff:PayoffDates"
        product = vc.obj("rpylib.product.product:Product", payoff=vc.obj("rpylib.product.payoff:Payoff", payoff_dates_type=vc.enum(PD, "DETERMINISTIC")))
        return dict(self=proc, product=product)

    def ensures(self, result, self_=None, **kw):
        from pyvc import ctx
        g = ctx.PATH.ghost
        fvk, D, a, d = g["fvk"], g["D"], g["a"], g["d"]
        drift = self_.fields["_process_drift"]
        out = {"column-vector-of-d-drifts": isinstance(drift, np.ndarray) and drift.shape == (d, 1)}
        if not out["column-vector-of-d-drifts"]:
            return out
        ninf, pinf = NEG_INF, POS_INF
        for k in range(d):
            F = lambda x, y: Sym(MUK[k](as_real_term(lift(x)), as_real_term(lift(y))), "r")
            # the radius of margin k's OWN regime (the one its TILDE drift was built with), not a copula-wide one
            comp = If(fvk[k], F(Sym(ninf, "r"), 0) + F(0, Sym(pinf, "r")), F(Sym(ninf, "r"), -1) + F(1, Sym(pinf, "r")))
            out[f"margin{k}:drift-compensates-its-own-margin"] = drift[k, 0] == D[k] + a[k] + comp - Sym(MHK[k], "r")
        return out


class CopulaChainConstructor(FunctionContract):
    """MarkovChainLevyCopula.__init__ (d = 2): deep copy, every margin truncated to its axis' bounds BEFORE it is switched
    to the TILDE representation (mean of each truncated margin preserved), caller's model untouched."""
    prop = "C04"
    target = "rpylib.process.markovchain.markovchainlevycopula:MarkovChainLevyCopula.__init__"
    cases = ("ZERO", "CENTER", "ONEONE")

    def __init__(self):
        self.name = "MarkovChainLevyCopula.__init__"

    def configure(self, interp):
        from pyvc import ctx
        P_ = "rpylib.process.markovchain.markovchainlevycopula:"
        interp.hooks["rpylib.process.levyprocess:LevyProcess.__init__"] = lambda it, f, b: b["self"].fields.update(model=b["model"])
        interp.hooks["rpylib.distribution.samplingfactory:compute_intensity_of_jumps"] = lambda it, f, b: ctx.PATH.ghost["lam"]
        interp.hooks["rpylib.distribution.samplingfactory:create_sampling_method"] = lambda it, f, b: None
        interp.hooks[P_ + "MCLevyCopulaSimulation.__init__"] = lambda it, f, b: None
        interp.hooks["rpylib.model.levycopulamodel:LevyCopulaModel.dimension"] = lambda it, f, b: 2

        def int_x(it, f, b):
            k = b["self"].fields["tag"]
            e = lambda x: Sym(NEG_INF, "r") if (not is_sym(x) and x == -INF) else (Sym(POS_INF, "r") if (not is_sym(x) and x == INF) else x)
            return Sym(MUK[k](as_real_term(lift(e(b["a"]))), as_real_term(lift(e(b["b"])))), "r")
        interp.hooks[LM + "LevyMeasure.integrate_against_x"] = int_x
        interp.hooks[LM + "LevyMeasure.jump_of_finite_variation"] = lambda it, f, b: ctx.PATH.ghost["fv"][b["self"].fields["tag"]]

    def setup(self, vc, r0):
        grid, ax, h, o = wf_grid(vc, d=2, quantified=False)
        axes = [vc.seq(f"axis{k}", "r", min_len=3) for k in range(2)]
        grid.fields["axes"] = axes
        grid.fields["truncations"] = [(a_.raw(0), a_.raw(a_.length - 1)) for a_ in axes]
        for a_ in axes:
            vc.assume(a_.raw(0) < a_.raw(a_.length - 1))
        fv = [vc.bool(f"finite_variation{k}") for k in range(2)]
        a = vc.reals("a", 2)
        sig = vc.reals("sigma", 2)
        vc.assume(And(*[s_ >= 0 for s_ in sig]))
        R = lambda n: vc.enum(LM + "LevyRepresentation", n)
        nus = [vc.obj(LM + "LevyMeasure", tag=k) for k in range(2)]
        models = [vc.obj(LM + "LevyModel", levy_triplet=vc.new(LM + "LevyTriplet", sig[k], nus[k], a[k], R(r0)), _original_drift=a[k]) for k in range(2)]
        cm = vc.obj("rpylib.model.levycopulamodel:LevyCopulaModel", models=models, _marginal_levy_measure=list(nus))
        vc.ghost.update(fv=fv, a=a, r0=r0, nus=nus, models=models, axes=axes, lam=vc.real("intensity"), cm=cm)
        method = vc.enum("rpylib.distribution.sampling:SamplingMethod", "INVERSION")
        return dict(self=vc.obj("rpylib.process.markovchain.markovchainlevycopula:MarkovChainLevyCopula"), levy_copula_model=cm, grid=grid, method=method)

    def ensures(self, result, self_=None, levy_copula_model=None, grid=None, **kw):
        from pyvc import ctx
        g = ctx.PATH.ghost
        fv, a0, r0, axes = g["fv"], g["a"], g["r0"], g["axes"]
        mt = self_.fields["model"]
        out = {"works-on-a-copy": mt is not levy_copula_model}
        for k in range(2):
            om = levy_copula_model.fields["models"][k].fields["levy_triplet"]
            out[f"margin{k}:callers-model-untouched"] = And(om.fields["a"] == a0[k], om.fields["nu"] is g["nus"][k], om.fields["representation"].name == r0)
            t = mt.fields["models"][k].fields["levy_triplet"]
            nu = t.fields["nu"]
            l, r = axes[k].raw(0), axes[k].raw(axes[k].length - 1)
            is_tr = getattr(nu, "cls", None) is not None and nu.cls.name == "TruncatedLevyMeasure"
            out[f"margin{k}:truncated-to-its-own-axis-bounds"] = is_tr and And(nu.fields["truncations"][0] == l, nu.fields["truncations"][1] == r)
            out[f"margin{k}:tilde-representation"] = t.fields["representation"].name == "TILDE"
            F = lambda x, y: Sym(MUK[k](as_real_term(lift(x)), as_real_term(lift(y))), "r")
            clip = lambda x: smax(smin(x, r), l)
            K = F(clip(-1), clip(1))
            T = F(l, clip(-1)) + F(clip(1), r)
            mean = lambda rep, av: {"CENTER": av, "ONEONE": av + T, "ZERO": av + K + T}.get(rep, If(fv[k], av + K + T, av + T))
            out[f"margin{k}:mean-of-the-truncated-margin-preserved (truncate, then compensate)"] = mean("TILDE", t.fields["a"]) == mean(r0, a0[k])
        return out

    def replay(self, model, clause, case):
        if "mean" not in clause:
            return None
        from contracts import battery
        from scipy.integrate import quad
        from rpylib.grid.spatial import CTMCGridGeometric
        from rpylib.process.markovchain.markovchainlevycopula import MarkovChainLevyCopula
        from rpylib.process.markovchain.markovchain import compute_mu_h
        from rpylib.distribution.sampling import SamplingMethod
        cm = battery.copula_model(2, "independent", margins="cgmy")
        grid = CTMCGridGeometric.create_with_bounds(h=0.05, truncations=(-0.3, 0.4), dimension=2, nb_of_points_on_each_side=4)
        proc = MarkovChainLevyCopula(levy_copula_model=cm, grid=grid, method=SamplingMethod.BINARYSEARCHTREEADAPTED)
        worst = None
        for k, (m0, mt) in enumerate(zip(cm.models, proc.model.models)):
            t0, tt = m0.levy_triplet, mt.levy_triplet
            rep, a0, nu = t0.representation.name, t0.a, t0.nu
            l, r = grid.truncations[k]
            f = lambda x: x * float(nu(x))
            T = (quad(f, l, -1)[0] if l < -1 else 0.0) + (quad(f, 1, r)[0] if r > 1 else 0.0)
            fv = nu.jump_of_finite_variation()
            Kq = lambda: quad(f, max(-1, l), 0, limit=200)[0] + quad(f, 0, min(1, r), limit=200)[0]
            mean0 = {"CENTER": lambda: a0, "ONEONE": lambda: a0 + T, "ZERO": lambda: a0 + Kq() + T, "TILDE": lambda: a0 + Kq() + T if fv else a0 + T}[rep]()
            mean_t = (tt.a + Kq() + T) if fv else tt.a + T
            info = {"margin": k, "declared_representation": rep, "mean_before": mean0, "mean_after_truncate_and_switch": mean_t}
            if abs(mean0 - mean_t) > 1e-8:
                return (True, info)
            worst = info
        return (False, worst)


class _ApplyPool:
    """abstraction of the worker pool of MCLevyCopulaSimulation.__init__: apply_async(f, args) evaluates f(*args) (real body
    or its hook) and hands the value back through get(); no scheduling property is used"""

    def __init__(self, interp, *a, **k):
        self.interp = interp

    def __enter__(self):
        return self

    def __exit__(self, *a):
        return False

    def apply_async(self, fn, args=(), kwds=None, **kw):
        r = self.interp.call(fn, list(args), dict(kwds or {}))

        class R:
            def get(self_inner, *a, **k):
                return r
        return R()


class CopulaDiffusionMatrix(FunctionContract):
    """MCLevyCopulaSimulation.__init__ (d = 2; real body; vol_adjustment_ij abstracted by C(i, j) = the (co)variance of the
    jumps inside the central cell, which is what the real function returns -- bounded stand-in below; the worker pool and
    scipy's matrix square root abstracted: sqrtm(M) = D with D D^T = M):
      infinite variation: D D^T = diag(sigma_k^2) + [C(i, j)]   (the central-cell variance is ADDED to the squared diffusion),
      finite variation:   D D^T = diag(sigma_k^2)               (nothing is added)."""
    prop = "C04"
    target = "rpylib.process.markovchain.markovchainlevycopula:MCLevyCopulaSimulation.__init__"
    cases = ("infinite variation", "finite variation")

    def __init__(self):
        self.name = "MCLevyCopulaSimulation.__init__"

    def configure(self, interp):
        from pyvc import ctx
        import scipy.linalg
        P_ = "rpylib.process.markovchain.markovchainlevycopula:"

        def vij(it, f, b):
            g = ctx.PATH.ghost
            i, j = int(b["i"]), int(b["j"])
            g.setdefault("vij_calls", []).append((i, j, b["h"], b["levy_model"]))
            return g["C"][min(i, j)][max(i, j)]
        interp.hooks[P_ + "vol_adjustment_ij"] = vij
        interp.hooks["rpylib.model.levycopulamodel:LevyCopulaModel.dimension"] = lambda it, f, b: 2
        interp.hooks["rpylib.model.levycopulamodel:LevyCopulaModel.jump_of_finite_variation"] = lambda it, f, b: ctx.PATH.ghost["fv"]
        interp.hooks[LM + "LevyModel.diffusion_coefficient"] = lambda it, f, b: b["self"].fields["sig"]
        interp.opaque_hooks = dict(getattr(interp, "opaque_hooks", None) or {})
        interp.opaque_hooks["pathos.multiprocessing.Pool"] = lambda it_, *a, **k: _ApplyPool(it_, *a, **k)
        interp.native_hooks = dict(getattr(interp, "native_hooks", None) or {})

        def sqrtm(it, M, *a, **k):
            ctx.PATH.ghost["sqrtm_arg"] = M
            return ("sqrtm-of", M)
        interp.native_hooks[id(scipy.linalg.sqrtm)] = sqrtm

    def setup(self, vc, case):
        fv = case == "finite variation"
        sig = vc.reals("sigma", 2)
        vc.assume(And(*[s_ >= 0 for s_ in sig]))
        C = [[vc.real("c00"), vc.real("c01")], [None, vc.real("c11")]]
        vc.assume(And(C[0][0] >= 0, C[1][1] >= 0, C[0][1] * C[0][1] <= C[0][0] * C[1][1]))      # a covariance matrix
        h = vc.real("h")
        vc.assume(h > 0)
        models = [vc.obj(LM + "LevyModel", sig=sig[k]) for k in range(2)]
        cm = vc.obj("rpylib.model.levycopulamodel:LevyCopulaModel", models=models)
        grid = vc.obj("rpylib.grid.spatial:CTMCGrid", h=h)
        proc = vc.obj("rpylib.process.markovchain.markovchainlevycopula:MarkovChainLevyCopula", model=cm, grid=grid)
        vc.ghost.update(fv=fv, C=C, sig=sig, h=h, cm=cm)
        return dict(self=vc.obj("rpylib.process.markovchain.markovchainlevycopula:MCLevyCopulaSimulation"), process=proc)

    def ensures(self, result, self_=None, process=None, **kw):
        from pyvc import ctx
        g = ctx.PATH.ghost
        fv, C, sig = g["fv"], g["C"], g["sig"]
        D = self_.fields.get("diffusion_matrix")
        out = {"diffusion-matrix-is-the-square-root-of-the-variance-matrix": isinstance(D, tuple) and D[0] == "sqrtm-of"}
        M = g.get("sqrtm_arg")
        want = [[sig[0] * sig[0] + (0 if fv else C[0][0]), (0 if fv else C[0][1])], [(0 if fv else C[0][1]), sig[1] * sig[1] + (0 if fv else C[1][1])]]
        ok = M is not None and getattr(M, "shape", None) == (2, 2)
        lab = "nothing-added-for-finite-variation" if fv else "central-cell-covariance-added-to-the-squared-diffusion"
        out[lab] = ok and And(*[lift(M[i][j]) == lift(want[i][j]) for i in range(2) for j in range(2)])
        if not fv:
            calls = g.get("vij_calls", [])
            out["adjustment-computed-with-the-grid-step-on-the-process-model"] = len(calls) == 3 and And(*[c[2] == g["h"] for c in calls]) and all(c[3] is g["cm"] for c in calls)
        return out

    def replay(self, model, clause, case):
        if "added" not in clause and "nothing" not in clause:
            return None
        import numpy as np
        from contracts import battery
        import rpylib.process.markovchain.markovchainlevycopula as mod
        fv = case == "finite variation"

        class P:      # the attributes the constructor reads
            pass
        cm = battery.copula_model(2, "clayton", margins="hem")
        sig = [m.diffusion_coefficient() for m in cm.models]
        Cn = {(0, 0): 0.02, (0, 1): 0.005, (1, 1): 0.03}
        saved = (mod.vol_adjustment_ij, type(cm).jump_of_finite_variation)
        try:
            mod.vol_adjustment_ij = lambda i, j, h, m: Cn[(min(i, j), max(i, j))]
            type(cm).jump_of_finite_variation = lambda self: fv
            p = P(); p.model = cm; p.grid = P(); p.grid.h = 0.1
            sim = mod.MCLevyCopulaSimulation.__new__(mod.MCLevyCopulaSimulation)
            import pathos.multiprocessing as mp
            saved_pool = mp.Pool

            class Pool:
                def __init__(self, *a, **k): pass
                def __enter__(self): return self
                def __exit__(self, *a): return False
                def apply_async(self, f, args=(), **k):
                    r = f(*args)
                    return type("R", (), {"get": lambda s: r})()
            mp.Pool = Pool
            try:
                mod.MCLevyCopulaSimulation.__init__(sim, p)
            finally:
                mp.Pool = saved_pool
        finally:
            mod.vol_adjustment_ij, type(cm).jump_of_finite_variation = saved
        D = np.real(np.asarray(sim.diffusion_matrix, dtype=complex))
        got = D @ D.T
        want = np.diag([s_ ** 2 for s_ in sig]) + (0 if fv else np.array([[Cn[(0, 0)], Cn[(0, 1)]], [Cn[(0, 1)], Cn[(1, 1)]]]))
        return (bool(np.max(np.abs(got - want)) > 1e-9), {"sigma": sig, "central_cell_covariance": [[0.02, 0.005], [0.005, 0.03]], "finite_variation": fv,
                                                            "simulated_variance_matrix": got.tolist(), "expected": want.tolist()})


class CopulaVariationFlag(FunctionContract):
    """LevyCopulaModel.jump_of_finite_variation (real body, d = 2; every margin's Blumenthal-Getoor index and its own
    finite-variation flag abstract, related only by what is true of every measure: index < 1 => finite variation =>
    index <= 1): the copula-wide regime that the chain's drift compensation and diffusion adjustment branch on is
    "finite variation iff EVERY margin is" -- the margins' own flags, which is what each margin's drift was compensated with."""
    prop = "C04"
    target = "rpylib.model.levycopulamodel:LevyCopulaModel.jump_of_finite_variation"
    name = "LevyCopulaModel.jump_of_finite_variation"

    def configure(self, interp):
        from pyvc import ctx
        interp.hooks[LM + "LevyModel.blumenthal_getoor_index"] = lambda it, f, b: ctx.PATH.ghost["bg"][b["self"].fields["tag"]]
        interp.hooks[LM + "LevyModel.jump_of_finite_variation"] = lambda it, f, b: ctx.PATH.ghost["fvs"][b["self"].fields["tag"]]

    def setup(self, vc, case):
        bg = vc.reals("blumenthal_getoor_index", 2)
        fvs = [vc.bool(f"margin{k}_finite_variation") for k in range(2)]
        vc.assume(And(*[And(b_ >= 0, b_ <= 2, Implies(b_ < 1, f_), Implies(f_, b_ <= 1)) for b_, f_ in zip(bg, fvs)]))
        vc.ghost.update(bg=bg, fvs=fvs)
        models = [vc.obj(LM + "LevyModel", tag=k) for k in range(2)]
        return dict(self=vc.obj("rpylib.model.levycopulamodel:LevyCopulaModel", models=models))

    def ensures(self, result, self_=None, **kw):
        from pyvc import ctx
        fvs = ctx.PATH.ghost["fvs"]
        return {"finite-variation-iff-every-margin-is": result == And(*fvs) if is_sym(result) or any(is_sym(f) for f in fvs) else bool(result) == all(fvs)}

    def replay(self, model, clause, case):
        from rpylib.model.levycopulamodel import LevyCopulaModel
        from rpylib.distribution.levycopula import ClaytonCopula
        from rpylib.model.utils import create_levy_model, ModelType
        from rpylib.model.levymodel.mixed.hem import HEMParameters, HEMModel
        ms = [HEMModel(parameters=HEMParameters(sigma=0.1, p=0.6, eta1=25.0, eta2=40.0, intensity=5.0)), create_levy_model(ModelType.CGMY)(c=0.1, g=10.0, m=8.0, y=1.0)]
        cm = LevyCopulaModel(models=ms, copula=ClaytonCopula(theta=0.7, eta=0.3))
        got, flags = bool(cm.jump_of_finite_variation()), [bool(m.jump_of_finite_variation()) for m in ms]
        return (got != all(flags), {"margins": "HEM, CGMY y=1 (index exactly 1, infinite variation)", "copula_flag": got, "margin_flags": flags})


class CopulaMarginMean(Lemma):
    """property statement for one margin of a copula chain, from the two contracts above: the constructor compensates margin
    k's drift with the cut-off radius of ITS OWN variation regime, and initialisation adds the first moment outside that same
    radius (since the repair; it used the copula-wide regime before): the chain keeps the margin's mean in every mix."""
    prop = "C04"
    name = "property:copula-margin-mean"

    def prove(self, vc, case):
        fv_k, fv_all, a = vc.bool("margin_finite_variation"), vc.bool("all_margins_finite_variation"), vc.real("a_tilde")
        vc.assume(Implies(fv_all, fv_k))          # the copula is of finite variation only if this margin is
        ninf, pinf = Sym(NEG_INF, "r"), Sym(POS_INF, "r")
        vc.assume(And(ninf < -1, pinf > 1))
        for x, y, z in ((ninf, -1, 0), (0, 1, pinf), (-1, 0, 1)):
            vc.assume(additivity(x, y, z, F=MU1))
        comp = If(fv_k, MU1(ninf, 0) + MU1(0, pinf), MU1(ninf, -1) + MU1(1, pinf))       # contract of CopulaInitialisation (margin's own radius)
        mean = spec_mean("TILDE", a, fv_k)                                               # contract of CopulaChainConstructor
        vc.check(self.name + "::same-variation-regime", Implies(fv_k == fv_all, a + comp == mean))
        vc.check(self.name + "::mixed-variation-regimes", Implies(fv_k != fv_all, a + comp == mean))

    def replay(self, model, clause, case):
        if "mixed" not in clause:
            return None
        from scipy.integrate import quad
        from rpylib.model.levycopulamodel import LevyCopulaModel
        from rpylib.distribution.levycopula import IndependentComponentsCopula
        from rpylib.model.levymodel.mixed.hem import HEMParameters, HEMModel
        from rpylib.model.utils import create_levy_model, ModelType
        from rpylib.grid.spatial import CTMCUniformGrid
        from rpylib.process.markovchain.markovchainlevycopula import MarkovChainLevyCopula
        from rpylib.process.markovchain.markovchain import compute_mu_h
        from rpylib.distribution.sampling import SamplingMethod
        from rpylib.product.product import Product
        from rpylib.product.underlying import Spot
        from rpylib.product.payoff import Forward
        hem = HEMModel(parameters=HEMParameters(sigma=0.1, p=0.6, eta1=25.0, eta2=40.0, intensity=5.0))
        cgmy = create_levy_model(ModelType.CGMY)(c=0.1, g=10.0, m=8.0, y=1.3)
        cm = LevyCopulaModel(models=[hem, cgmy], copula=IndependentComponentsCopula())
        grid = CTMCUniformGrid(h=0.1, model=cm)
        proc = MarkovChainLevyCopula(levy_copula_model=cm, grid=grid, method=SamplingMethod.BINARYSEARCHTREEADAPTED)
        # initialisation without the diffusion-matrix pool: only the drift part is needed
        import rpylib.process.markovchain.markovchainlevycopula as M
        orig = M.MCLevyCopulaSimulationFixedTimes
        try:
            M.MCLevyCopulaSimulationFixedTimes = lambda p: None
            proc.initialisation(Product(payoff_underlying=Spot(), payoff=Forward(strike=1.0), maturity=1.0))
        finally:
            M.MCLevyCopulaSimulationFixedTimes = orig
        nu = hem.levy_triplet.nu
        l, r = grid.truncations[0]
        mean = hem.levy_triplet.a + quad(lambda x: x * float(nu(x)), l, 0)[0] + quad(lambda x: x * float(nu(x)), 0, r)[0]      # ZERO representation
        nut = proc.model.models[0].levy_triplet.nu
        mu_h = compute_mu_h(nut, grid, grid.axes[0], grid.origin_coordinate.value[0])
        chain = float(np.ravel(proc.process_drift())[0]) + float(mu_h)
        return (abs(chain - mean) > 1e-6, {"margins": "HEM (finite variation) + CGMY y=1.3", "HEM_margin_chain_mean": chain, "HEM_truncated_mean": float(mean)})


UNITS = [ComputeMuH(), DriftUsesTheCellsOfTheRates(), Representations(), Initialisation(), MeanIdentity(), VolAdjustment(), VolAdjustmentWideCell(), ChainConstructor(), CopulaInitialisation(), CopulaChainConstructor(), CopulaDiffusionMatrix(), CopulaVariationFlag(), CopulaMarginMean()]
ASSUMPTIONS = ["A1: floats are mathematical reals", "A6: integrate_against_x / xx are additive interval functions of a measure (C09)",
               "the first-moment integrals K, T are finite where a representation needs them (as the library assumes)"]
TRUSTED_BASE = ["z3 5.1 (LRA/NRA + arrays + uninterpreted functions)", "pyvc interpreter + numpy models"]


class MeanBattery:
    """B2 (native): drift + sum_k x_k rate_k - model drift == Levy-Khintchine mean of the truncated process (density
    quadrature) on the model battery x {uniform, geometric} grids; and (eq. diffusion)^2 - sigma^2 == central-cell variance
    for infinite-variation models, 0 otherwise."""
    name = "bounded:chain-mean-battery"
    tier = "quick"

    def run(self, tier, seed):
        from contracts import battery
        from scipy.integrate import quad
        from rpylib.grid.spatial import CTMCUniformGrid, CTMCGridGeometric, CTMCGridProbabilityStep
        from rpylib.process.markovchain.markovchain import MarkovChainProcess
        from rpylib.distribution.sampling import SamplingMethod
        ev, viol, samples = 0, {}, []
        for name, m in battery.models().items():
            for h in ((0.05,) if tier == "quick" else (0.1, 0.05, 0.02)):
                # (the probability-step grid places its cell boundaries by mass, not at the arithmetic mid-points: the drift
                # compensation must use the same cells as the rates)
                for grid in (CTMCUniformGrid(h=h, model=m), CTMCGridGeometric(h=h, model=m, nb_of_points_on_each_side=5),
                             CTMCGridProbabilityStep(h=h, model=m, minimum_probability_step=0.05)):
                    for level in range(2):
                        ev += 1
                        d, info = battery.chain_mean_defect(m, grid)
                        info.update(model=name, grid=type(grid).__name__, h=grid.h, defect=d)
                        if d > 1e-6 * max(1.0, abs(info["truncated_process_mean"])):
                            viol.setdefault("mean", {"obligation": f"{self.name}::chain-mean-equals-truncated-process-mean", "bounded": self.name, "witness": info})
                        proc = MarkovChainProcess(m, SamplingMethod.INVERSION, grid)
                        nu = m.levy_triplet.nu
                        extra = proc.equivalent_diffusion_coefficient ** 2 - m.diffusion_coefficient() ** 2
                        want = 0.0 if nu.jump_of_finite_variation() else quad(lambda x: x * x * float(nu(x)), -grid.h / 2, grid.h / 2, points=[0.0], limit=200)[0]
                        if abs(extra - want) > 1e-6 * max(1e-6, abs(want)) + 1e-12:
                            viol.setdefault("var", {"obligation": f"{self.name}::added-variance-is-the-central-cell-variance", "bounded": self.name,
                                                    "witness": {**info, "added_variance": float(extra), "central_cell_variance": float(want)}})
                        if len(samples) < 3:
                            samples.append(info)
                        grid.refine()
        # copula chain: vol_adjustment_ij(k, k) is the central-cell variance of margin k (the function integrates the joint
        # mass numerically with epsabs=1e-3 -- loose: agreement to 20%), and the simulated variance D D^T of the real
        # MCLevyCopulaSimulation is sigma^2 + that adjustment
        import rpylib.process.markovchain.markovchainlevycopula as mod
        from rpylib.model.levycopulamodel import LevyCopulaModel
        from rpylib.distribution.levycopula import ClaytonCopula
        from rpylib.model.utils import create_levy_model, ModelType
        ms = [create_levy_model(ModelType.CGMY)(c=0.1 + 0.05 * k, g=10.0, m=8.0 + k, y=1.3) for k in range(2)]
        cm = LevyCopulaModel(models=ms, copula=ClaytonCopula(theta=0.7, eta=0.3))
        h = 0.1
        adj = {(i, j): float(mod.vol_adjustment_ij(i, j, h, cm)) for i, j in ((0, 0), (0, 1), (1, 1))}
        for k in range(2):
            ev += 1
            want = float(ms[k].levy_triplet.nu.integrate_against_xx(-h / 2, h / 2))
            if abs(adj[(k, k)] - want) > 0.2 * want:
                viol.setdefault("cvar", {"obligation": f"{self.name}::copula-adjustment-is-the-central-cell-variance-of-the-margin", "bounded": self.name,
                                         "witness": {"margins": "CGMY y=1.3 x2, Clayton", "h": h, "margin": k, "vol_adjustment_ij": adj[(k, k)], "central_cell_variance": want}})
        ev += 1
        saved = mod.vol_adjustment_ij
        try:
            mod.vol_adjustment_ij = lambda i, j, h_, m_: adj[(min(i, j), max(i, j))]

            class P:
                pass
            p = P(); p.model = cm; p.grid = P(); p.grid.h = h
            sim = mod.MCLevyCopulaSimulation.__new__(mod.MCLevyCopulaSimulation)
            mod.MCLevyCopulaSimulation.__init__(sim, p)
        finally:
            mod.vol_adjustment_ij = saved
        D = np.real(np.asarray(sim.diffusion_matrix, dtype=complex))
        got = D @ D.T
        wantm = np.array([[adj[(0, 0)], adj[(0, 1)]], [adj[(0, 1)], adj[(1, 1)]]])
        if np.max(np.abs(got - wantm)) > 1e-9:
            viol.setdefault("cmat", {"obligation": f"{self.name}::copula-simulated-variance-is-sigma2-plus-the-adjustment", "bounded": self.name,
                                     "witness": {"margins": "CGMY y=1.3 x2 (sigma = 0), Clayton", "h": h, "simulated_variance_matrix": got.tolist(), "central_cell_covariance": wantm.tolist()}})
        # copula chain, mean of every margin: process drift + sum over the 2-d states of x_k * rate  against the mean of the
        # truncated margin (the real initialisation compensates with the MARGIN's cell masses, the states carry JOINT masses)
        ev += 1
        try:
            from rpylib.process.markovchain.markovchainlevycopula import MarkovChainLevyCopula
            from rpylib.product.product import Product
            from rpylib.product.underlying import Spot
            from rpylib.product.payoff import Vanilla, PayoffType
            cmh = battery.copula_model(2, "clayton")
            gc = CTMCUniformGrid(h=0.1, model=cmh)
            pc = MarkovChainLevyCopula(levy_copula_model=cmh, grid=gc, method=SamplingMethod.INVERSION)
            pc.initialisation(Product(Spot(), Vanilla(100.0, PayoffType.CALL), 1.0))
            axes_, oc = gc.axes, gc.origin_coordinate.value
            lo_ = lambda ax, i: 0.5 * (ax[max(i - 1, 0)] + ax[i])
            hi_ = lambda ax, i: 0.5 * (ax[i] + ax[min(i + 1, len(ax) - 1)])
            sx = np.zeros(2)
            for i in range(len(axes_[0])):
                for j in range(len(axes_[1])):
                    if (i, j) != (oc[0], oc[1]):
                        sx += float(pc.model.mass(a=(lo_(axes_[0], i), lo_(axes_[1], j)), b=(hi_(axes_[0], i), hi_(axes_[1], j)))) * np.array([axes_[0][i], axes_[1][j]])
            dr = np.ravel(pc.process_drift())
            for k in range(2):
                nuk = cmh.models[k].levy_triplet.nu
                l_, r_ = gc.truncations[k]
                want = cmh.models[k].levy_triplet.a + quad(lambda x: x * float(nuk(x)), l_, 0)[0] + quad(lambda x: x * float(nuk(x)), 0, r_)[0]
                got = float(dr[k] + sx[k])
                if abs(got - want) > 1e-9:
                    viol.setdefault(f"cmean{k}", {"obligation": f"{self.name}::copula-chain-mean-of-a-margin-equals-the-mean-of-the-truncated-margin", "bounded": self.name,
                                                  "witness": {"model": "Clayton copula of two HEM margins", "h": 0.1, "margin": k, "chain_mean": got, "mean_of_the_truncated_margin": float(want),
                                                              "sum_over_states_of_x_times_rate": float(sx[k])}})
        except Exception as e:
            viol.setdefault("cmean", {"obligation": f"{self.name}::copula-chain-mean-of-a-margin-equals-the-mean-of-the-truncated-margin", "bounded": self.name, "witness": {"exception": f"{type(e).__name__}: {e}"}})
        return {"name": self.name, "evaluations": ev, "distinct_nontrivial": ev, "violations": list(viol.values()), "samples": samples,
                "bound": "battery models x h x {uniform, geometric} x refinement 0..1; one infinite-variation 2-d copula (CGMY y=1.3, Clayton), h=0.1; one 2-d copula chain mean (HEM margins, Clayton, h=0.1)"}

    def replay(self, rec):
        r = self.run("quick", 0)
        hit = [v for v in r["violations"] if v["obligation"] == rec["obligation"]]
        return (bool(hit), hit[0]["witness"] if hit else {})


BOUNDED = [MeanBattery()]


def LATE_UNITS():
    # "deterministic drift plus rate-weighted grid states": the deterministic drift of an exponential model is
    # r - d + omega of the model AS IT IS when the chain is built (rates reassigned after construction included): the
    # martingale lemma of c10 (real drift / process_drift / characteristic-function bodies in analytic mode)
    from contracts import c10
    return [c10.Martingale()]
