"""C11 — the Levy copulas are Levy copulas: grounded, d-increasing, uniform margins.

Clayton: the real __call__ / x_first_derivative / conditional distribution bodies are executed symbolically per orthant of
the arguments; identities go to sympy (positive symbols |u_i|, signs fixed by the orthant).  Independent / completely
dependent copulas: piecewise-linear, decided by z3 on every finite/infinite pattern of the rectangle's corners.
"""
import itertools
import os

import numpy as np
import sympy as sp
import z3

from pyvc.contract import FunctionContract, Lemma, VC, Req
from pyvc.sym import And, Or, Not, Implies, If, Eq, compare, smax, smin, is_sym, Sym, lift, as_real_term, as_int_term, INF, PyRaise

PROPERTY_ID = "C11"
LEVEL = "proof"
LV = "rpylib.distribution.levycopula:"


def warm_up(vc, cop, dims=(2, 3)):
    """history for a copula under test: ANOTHER Clayton copula (other parameters) has been evaluated in both dimensions, and
    the copula under test itself in the given dimensions -- anything remembered from a first use (per class, per object, per
    dimension) must not leak into the evaluation that follows"""
    th0, et0 = vc.real("theta_of_another_copula"), vc.real("eta_of_another_copula")
    vc.assume(And(th0 > 0, et0 > 0, et0 < 1))
    other = vc.new(LV + "ClaytonCopula", theta=th0, eta=et0)
    for d in (2, 3):
        pt = np.array([0.5 + 0.25 * k for k in range(d)], dtype=object)
        vc.interp.call(other, [pt], {})
        vc.method(other, "x_first_derivative", pt)
    for d in dims:
        pt = np.array([0.5 + 0.25 * k for k in range(d)], dtype=object)
        vc.interp.call(cop, [pt], {})
        vc.method(cop, "x_first_derivative", pt)


def clayton(vc, reassigned=False):
    """a Clayton copula built by its REAL constructor; reassigned: built with other parameters first, theta and eta assigned
    afterwards (public attributes, theta through its validating descriptor) -- nothing may remember the constructor's values"""
    theta, eta = vc.real("theta"), vc.real("eta")
    vc.assume(And(theta > 0, eta >= 0, eta <= 1))
    vc.sp_symbol("theta", positive=True)
    vc.sp_symbol("eta", nonnegative=True)
    if not reassigned:
        return vc.new(LV + "ClaytonCopula", theta=theta, eta=eta), theta, eta
    th0, et0 = vc.real("theta_at_construction"), vc.real("eta_at_construction")
    vc.assume(And(th0 > 0, et0 >= 0, et0 <= 1))
    cop = vc.new(LV + "ClaytonCopula", theta=th0, eta=et0)
    vc.interp.setattr(cop, "theta", theta)
    vc.interp.setattr(cop, "eta", eta)
    return cop, theta, eta


def pinned(vc, eta):
    """sympy substitution for eta when the path condition forces its value (the code branches on a zero orthant weight)"""
    et = sp.Symbol("eta", nonnegative=True)
    for v in (0, 1):
        if not vc.path._feasible(as_real_term(lift(eta)) != v):
            return {et: sp.Integer(v)}
    return {}


def signed_args(vc, signs, prefix="u"):
    """one symbolic argument per coordinate with the given sign; returns (Sym values, sympy positive magnitudes)"""
    us, mags = [], []
    for k, s in enumerate(signs):
        m = vc.real(f"{prefix}{k}")            # magnitude |u_k| > 0
        vc.assume(m > 0)
        mags.append(vc.sp_symbol(f"{prefix}{k}", positive=True))
        us.append(m if s > 0 else -m)
    return us, mags


def sampler(mags, extra=None):
    def f(rng):
        pt = {m: rng.uniform(0.2, 3.0) for m in mags}
        pt.update({sp.Symbol("theta", positive=True): rng.uniform(0.3, 3.0), sp.Symbol("eta", nonnegative=True): rng.uniform(0.05, 0.95)})
        if extra:
            pt.update(extra(rng))
        return pt
    return f


class ClaytonGroundedAndMargins(Lemma):
    """Clayton: F = 0 when an argument is 0; every one-dimensional margin (real `margin` helper, other arguments summed
    over +-inf with their signs) is the identity, d = 2, 3, either sign of the remaining argument"""
    prop = "C11"
    cases = tuple((d, i, s) for d in (2, 3) for i in range(d) for s in (+1, -1)) + ((2, 0, +1, "parameters reassigned"), (2, 1, -1, "parameters reassigned"), (3, 1, +1, "parameters reassigned")) \
        + ((2, 0, +1, "history"), (3, 0, +1, "history"))

    def __init__(self):
        self.name = "property:clayton-grounded-and-margins"

    def prove(self, vc, case):
        d, i, s = case[:3]
        re_ = len(case) > 3 and case[3] == "parameters reassigned"
        hist = len(case) > 3 and case[3] == "history"
        nm = f"{self.name}[d={d},margin={i},{'+' if s > 0 else '-'}{',parameters reassigned after construction' if re_ else ''}{',after other copulas and dimensions were evaluated' if hist else ''}]"
        cop, theta, eta = clayton(vc, reassigned=re_)
        if hist:
            vc.assume(And(eta > 0, eta < 1))
            warm_up(vc, cop, dims=(5 - d,))
        (u,), (mag,) = signed_args(vc, [s])
        it = vc.interp
        # grounded: zero at coordinate i, anything elsewhere
        others = vc.reals("w", d)
        arr = np.array([0.0 if k == i else others[k] for k in range(d)], dtype=object)
        vc.check(nm + "::grounded", it.call(cop, [arr], {}) == 0)
        margin = it.get_function("rpylib.model.levycopulamodel:margin")
        m = it.call(it.call(margin, [cop, [i], d], {}), [np.array([u], dtype=object)], {})
        vc.check_zero(nm + "::margin-is-the-identity", sp.simplify(sp.powdenest(vc.sp(m).subs(pinned(vc, eta)), force=True)) - s * mag, sampler([mag]))

    def replay(self, model, clause, case):
        from rpylib.distribution.levycopula import ClaytonCopula
        from rpylib.model.levycopulamodel import margin
        d, i, s = case[:3]
        if len(case) > 3 and case[3] == "parameters reassigned":
            c = ClaytonCopula(theta=2.5, eta=0.8)
            c.theta, c.eta = 0.7, 0.3
        else:
            c = ClaytonCopula(theta=0.7, eta=0.3)
        if len(case) > 3 and case[3] == "history":
            o_ = ClaytonCopula(theta=2.0, eta=0.6)
            for dd in (2, 3):
                o_(np.array([0.5, 0.75, 1.0][:dd])), o_.x_first_derivative(np.array([0.5, 0.75, 1.0][:dd]))
            c(np.array([0.5, 0.75, 1.0][:5 - d])), c.x_first_derivative(np.array([0.5, 0.75, 1.0][:5 - d]))
        u = s * 1.3
        got = margin(c, [i], d)(np.array([u]))
        z = np.array([0.0 if k == i else 0.4 * (k + 1) for k in range(d)])
        return (abs(got - u) > 1e-10 or c(z) != 0.0, {"theta": 0.7, "eta": 0.3, "u": u, "margin": float(got), "F_at_zero_coordinate": float(c(z))})


class ClaytonInfiniteCorners(Lemma):
    """Clayton at a corner with every argument infinite: the value is the limit of the finite formula -- +inf / -inf times
    the orthant weight eta / (1 - eta) when that weight is positive, 0 when the weight is 0 (never NaN)"""
    prop = "C11"
    cases = tuple(s for d in (2, 3) for s in itertools.product((+1, -1), repeat=d))

    def __init__(self):
        self.name = "property:clayton-all-infinite-corner"

    def prove(self, vc, signs):
        import math
        nm = f"{self.name}[{''.join('+' if s > 0 else '-' for s in signs)}]"
        cop, theta, eta = clayton(vc)
        val = vc.interp.call(cop, [np.array([s * INF for s in signs], dtype=float)], {})
        positive_orthant = int(np.prod(signs)) > 0
        weight = eta if positive_orthant else 1 - eta
        is_nan = (not is_sym(val)) and isinstance(val, float) and math.isnan(val)
        vc.check(nm + "::never-nan", not is_nan)
        if is_nan:
            return
        if vc.interp.truth(weight > 0):
            vc.check(nm + "::infinite-with-the-sign-of-the-orthant", (not is_sym(val)) and val == (INF if positive_orthant else -INF))
        else:
            vc.check(nm + "::zero-when-the-orthant-has-no-weight", val == 0)

    def replay(self, model, clause, signs):
        from rpylib.distribution.levycopula import ClaytonCopula
        out = {}
        bad = False
        for eta in (0.0, 0.3, 1.0):
            with np.errstate(all="ignore"):
                v = float(ClaytonCopula(theta=0.7, eta=eta)(np.array([s * np.inf for s in signs])))
            out[f"eta={eta}"] = v
            bad = bad or np.isnan(v)
        return (bool(bad), {"corner": [s * float("inf") for s in signs], "values": out})


class ClaytonMixedDerivative(Lemma):
    """Clayton, per orthant: x_first_derivative(u) = (prod u_i) * d^d F / du_1..du_d, and the mixed derivative equals a
    manifestly non-negative expression -- so F is d-increasing inside every orthant (volume = integral of it, A6)."""
    prop = "C11"
    cases = tuple(s for d in (2, 3) for s in itertools.product((+1, -1), repeat=d)) + ((+1, +1, "history"), (+1, -1, +1, "history"))

    def __init__(self):
        self.name = "property:clayton-mixed-derivative"

    def prove(self, vc, signs):
        hist = signs[-1] == "history"
        signs = tuple(s for s in signs if s != "history")
        d = len(signs)
        nm = f"{self.name}[{''.join('+' if s > 0 else '-' for s in signs)}{',after other copulas and dimensions were evaluated' if hist else ''}]"
        cop, theta, eta = clayton(vc)
        if hist:
            vc.assume(And(eta > 0, eta < 1))
            warm_up(vc, cop, dims=(5 - d,))          # the copula under test first used in the OTHER dimension
        us, mags = signed_args(vc, signs)
        it = vc.interp
        arr = np.array(us, dtype=object)
        F = vc.sp(it.call(cop, [arr], {}))
        X = vc.sp(vc.method(cop, "x_first_derivative", arr))
        pin = pinned(vc, eta)
        F, X = F.subs(pin), X.subs(pin)
        th, et = sp.Symbol("theta", positive=True), sp.Symbol("eta", nonnegative=True)
        et = pin.get(et, et)
        # d/du_k = sign_k * d/d|u_k|
        mixed = F
        for s, m in zip(signs, mags):
            mixed = s * sp.diff(mixed, m)
        prod_u = sp.Mul(*[s * m for s, m in zip(signs, mags)])
        samp = sampler(mags)
        vc.check_zero(nm + "::stated-derivative-is-product-of-arguments-times-mixed-partial", sp.powsimp(sp.powdenest(X - prod_u * mixed, force=True), force=True), samp)
        # the literal clause restricted to the surface |prod u| = 1 (where the known finding does not bite), and the exact
        # shape of the known deviation: everything but the missing factor |prod u| is pinned
        last = mags[-1]
        on_surface = {last: 1 / sp.Mul(*mags[:-1])}
        vc.check_zero(nm + "::literal-clause-on-the-surface-|prod u|=1", sp.powsimp(sp.powdenest((X - prod_u * mixed).subs(on_surface), force=True), force=True), sampler(mags[:-1]))
        vc.check_zero(nm + "::deviates-from-the-literal-clause-only-by-the-factor-|prod u|", sp.powsimp(sp.powdenest(X * sp.Mul(*mags) - prod_u * mixed, force=True), force=True), samp)
        same_sign = np.prod(signs) > 0
        coef = et if same_sign else (1 - et)
        S = sp.Add(*[m ** (-th) for m in mags])
        nonneg_form = sp.Integer(2) ** (2 - d) * sp.Mul(*[(1 + k * th) for k in range(d)]) * coef * sp.Mul(*[m ** (-th - 1) for m in mags]) * S ** (-1 / th - d)
        vc.check_zero(nm + "::mixed-partial-is-a-manifestly-non-negative-expression", sp.powsimp(sp.powdenest(mixed - nonneg_form, force=True), force=True), samp)

    def replay(self, model, clause, signs):
        from rpylib.distribution.levycopula import ClaytonCopula
        hist = signs[-1] == "history"
        signs = tuple(s for s in signs if s != "history")
        c = ClaytonCopula(theta=0.7, eta=0.3)
        d = len(signs)
        if hist:
            o_ = ClaytonCopula(theta=2.0, eta=0.6)
            for dd in (2, 3):
                o_(np.array([0.5, 0.75, 1.0][:dd])), o_.x_first_derivative(np.array([0.5, 0.75, 1.0][:dd]))
            c(np.array([0.5, 0.75, 1.0][:5 - d])), c.x_first_derivative(np.array([0.5, 0.75, 1.0][:5 - d]))
        u = np.array([s * (0.5 + 0.3 * k) for k, s in enumerate(signs)])
        h = 1e-4
        # finite-difference volume of a small rectangle around u, divided by its size ~ mixed derivative
        vol = 0.0
        for p in itertools.product((0, 1), repeat=d):
            corner = np.array([ui + (h if pi else -h) for ui, pi in zip(u, p)])
            vol += (-1) ** (d - sum(p)) * c(corner)
        mixed = vol / (2 * h) ** d
        want = c.x_first_derivative(u) / np.prod(u)
        return (abs(mixed - want) > 1e-4 * max(1.0, abs(want)) or mixed < -1e-8, {"u": u.tolist(), "finite_difference_mixed_derivative": float(mixed), "stated/prod(u)": float(want)})


class PiecewiseLinearCopulas(Lemma):
    """independent and completely dependent copulas, d = 2, 3: grounded, margins = identity, and every rectangle (a, b]
    with finite or +inf upper corners has a non-negative volume (real __call__ bodies; z3 decides all branch combinations)"""
    prop = "C11"
    # upper corners: f(inite) / i(nfinite, +inf);  "lower|upper": lower corners f(inite) / n (-inf), at least one -inf
    cases = tuple((c, d, k) for c in ("IndependentComponentsCopula", "DependentComponentsCopula") for d in (2, 3)
                  for k in ["grounded-margins"] + ["".join(p) for p in itertools.product("fi", repeat=d)]
                  + ["".join(lo) + "|" + "".join(up) for lo in itertools.product("fn", repeat=d) if "n" in lo for up in itertools.product("fi", repeat=d)])

    def __init__(self):
        self.name = "property:piecewise-linear-copulas"

    def prove(self, vc, case):
        cls, d, kind = case
        nm = f"{self.name}[{cls},d={d},{kind}]"
        it = vc.interp
        cop = vc.obj(LV + cls)
        F = lambda xs: it.call(cop, [np.array(list(xs), dtype=object)], {})
        if kind == "grounded-margins":
            u = vc.real("u")
            w = vc.reals("w", d)
            for i in range(d):
                vc.check(nm + f"::grounded{i}", F([0.0 if k == i else w[k] for k in range(d)]) == 0)
            vc.assume(u != 0)
            margin = it.get_function("rpylib.model.levycopulamodel:margin")
            for i in range(d):
                m = it.call(it.call(margin, [cop, [i], d], {}), [np.array([u], dtype=object)], {})
                vc.check(nm + f"::margin{i}-is-the-identity", m == u)
            return
        lows, ups = (kind.split("|") if "|" in kind else ("f" * d, kind))
        a = [(-INF if lows[k] == "n" else x) for k, x in enumerate(vc.reals("a", d))]
        b = []
        for k in range(d):
            if ups[k] == "f":
                bk = vc.real(f"b_{k}")
                if lows[k] == "f":
                    vc.assume(a[k] < bk)
            else:
                bk = INF
            b.append(bk)
        # volume by inclusion-exclusion over the corners, in extended-real arithmetic: finite terms are summed; a corner
        # contributing +inf makes the volume +inf (fine), one contributing -inf makes it -inf (a violation); both at once is
        # the indeterminate form -- the corner formula cannot express that volume, no verdict
        import math
        vol, plus, minus, nan = 0, False, False, False
        for p in itertools.product((0, 1), repeat=d):
            term = F([b[k] if p[k] else a[k] for k in range(d)])
            sgn = 1 if (d - sum(p)) % 2 == 0 else -1
            if not is_sym(term) and isinstance(term, (float, np.floating)) and (math.isinf(term) or math.isnan(term)):
                if math.isnan(term):
                    nan = True
                elif sgn * term > 0:
                    plus = True
                else:
                    minus = True
                continue
            vol = vol + term if sgn > 0 else vol - term
        if nan:
            vc.check(nm + "::corner-values-are-not-nan", False)
        elif plus and minus:
            vc.path.cover(nm + "::indeterminate-corner-sum")
        elif minus:
            vc.check(nm + "::rectangle-volume-non-negative", False)
        elif plus:
            vc.check(nm + "::rectangle-volume-non-negative", True)
        else:
            vc.check(nm + "::rectangle-volume-non-negative", vol >= 0)

    def replay(self, model, clause, case):
        import importlib
        cls, d, kind = case
        C = getattr(importlib.import_module("rpylib.distribution.levycopula"), cls)()
        f = lambda v, dflt: float(v["float"]) if isinstance(v, dict) else (float(v) if v is not None else dflt)
        if kind == "grounded-margins":
            from rpylib.model.levycopulamodel import margin
            uv = model.get("u")
            u = f(uv, 0.7)
            u = max(min(u, 50.0), -50.0) or 0.7
            out, bad = {}, False
            for uu in (u, -u):
                for i in range(d):
                    got = float(margin(C, [i], d)(np.array([uu])))
                    out[f"margin{i}({uu})"] = got
                    bad = bad or abs(got - uu) > 1e-12
                    z = np.array([0.0 if k == i else 0.3 * (k + 1) for k in range(d)])
                    bad = bad or float(C(z)) != 0.0
            return (bool(bad), {"copula": cls, "dimension": d, **out})
        lows, ups = (kind.split("|") if "|" in kind else ("f" * d, kind))
        am = model.get("a") if isinstance(model.get("a"), list) else [None] * d
        a = [(-np.inf if lows[k] == "n" else f(am[k], -1.0 + k)) for k in range(d)]
        b = [f(model.get(f"b_{k}"), (a[k] if np.isfinite(a[k]) else -2.0) + 1.0) if ups[k] == "f" else np.inf for k in range(d)]
        vol = 0.0
        for p in itertools.product((0, 1), repeat=d):
            vol += (-1) ** (d - sum(p)) * C(np.array([b[k] if p[k] else a[k] for k in range(d)]))
        return (bool(vol < -1e-12) or bool(np.isnan(vol)), {"copula": cls, "a": a, "b": b, "volume": float(vol)})


class ClaytonConditional(Lemma):
    """Clayton 2-d conditional distribution F_eps(x) (real `_condition_distribution_2d`), per sign of eps and x:
    limits 0 at -inf, 1 at +inf, continuous at 0, derivative equals a manifestly non-negative expression; and the real
    `_inverse_conditional_distribution_2d` inverts it wherever it is strictly increasing (weight of the half-line > 0)."""
    prop = "C11"
    cases = tuple((se, sx) for se in (+1, -1) for sx in (+1, -1)) + ((+1, -1, "parameters reassigned"), (-1, -1, "parameters reassigned"))

    def __init__(self):
        self.name = "property:clayton-conditional-distribution"

    def prove(self, vc, case):
        se, sx = case[:2]
        re_ = len(case) > 2
        nm = f"{self.name}[eps{'+' if se > 0 else '-'},x{'+' if sx > 0 else '-'}{',parameters reassigned after construction' if re_ else ''}]"
        cop, theta, eta = clayton(vc, reassigned=re_)
        (eps,), (e,) = signed_args(vc, [se], "eps")
        (x,), (m,) = signed_args(vc, [sx], "x")
        th, et = sp.Symbol("theta", positive=True), sp.Symbol("eta", nonnegative=True)
        Fz = vc.method(cop, "conditional_distribution", eps, np.array([x], dtype=object))
        Fz = Fz[0] if isinstance(Fz, np.ndarray) else Fz
        Fz = vc.resolve(Fz)
        F = sp.powdenest(vc.sp(Fz), force=True)
        if os.environ.get("C11_DEBUG"):
            print("F =", F)
        samp = sampler([e, m])
        # weight of the half line containing x
        w = et if se * sx > 0 else 1 - et
        P = (1 + (e / m) ** th) ** (-1 - 1 / th)
        vc.check_zero(nm + "::derivative-is-a-manifestly-non-negative-expression",
                      sp.powsimp(sp.powdenest(sx * sp.diff(F, m) - w * sp.diff(P, m), force=True), force=True), samp)
        dP = sp.diff(P, m)
        vc.check_zero(nm + "::dP/dm-positive-form", sp.powsimp(sp.powdenest(dP - (1 + th) * (1 + (e / m) ** th) ** (-2 - 1 / th) * e ** th * m ** (-th - 1), force=True), force=True), samp)
        # limits through t = (|eps| / |x|)^theta: |x| -> inf is t -> 0+, |x| -> 0+ is t -> inf
        t = sp.Symbol("t", positive=True)
        Ft = F.subs((e / m) ** th, t)
        vc.check(nm + "::depends-on-x-only-through-(eps/x)^theta", not Ft.has(m))
        vc.check_zero(nm + "::limit-at-infinity", lambda: sp.simplify(sp.limit(Ft, t, 0, "+") - (1 if sx > 0 else 0)), sampler([e]))
        at0 = (1 - et) if se > 0 else et          # both one-sided limits must be this value => continuity at 0
        # (1 + t)^(-1 - 1/theta) -> 0 as t -> inf because the exponent is negative: substitute s = 1/(1+t) -> 0+
        s_ = sp.Symbol("s", positive=True)
        Fs = sp.powdenest(Ft.subs(t, 1 / s_ - 1), force=True)
        vc.check_zero(nm + "::limit-at-zero", lambda: sp.simplify(sp.limit(Fs, s_, 0, "+") - at0), sampler([e]))
        # inverse: only where F_eps is strictly increasing
        wz = eta if se * sx > 0 else 1 - eta
        vc.assume(wz > 0)
        inv = vc.method(cop, "inverse_conditional_distribution", eps, np.array([Fz], dtype=object))
        inv = inv[0] if isinstance(inv, np.ndarray) else inv
        inv = vc.resolve(inv)
        vc.check_zero(nm + "::stated-inverse-inverts-it", sp.simplify(sp.powsimp(sp.powdenest(vc.sp(inv), force=True), force=True)) - sx * m, samp)

    def replay(self, model, clause, case):
        from rpylib.distribution.levycopula import ClaytonCopula
        se, sx = case[:2]
        if len(case) > 2:
            c = ClaytonCopula(theta=2.5, eta=0.8)
            c.theta, c.eta = 0.7, 0.3
        else:
            c = ClaytonCopula(theta=0.7, eta=0.3)
        eps, x = se * 0.8, sx * 1.7
        v = c.conditional_distribution(eps, np.array([x]))
        back = c.inverse_conditional_distribution(eps, v)
        xs = np.array([-1e9, -2.0, -1e-9, 1e-9, 2.0, 1e9])
        vals = [float(c.conditional_distribution(eps, np.array([t]))[0]) for t in xs]
        bad = abs(float(back[0]) - x) > 1e-8 or any(b < a - 1e-12 for a, b in zip(vals, vals[1:])) or abs(vals[0]) > 1e-6 or abs(vals[-1] - 1) > 1e-6 or abs(vals[2] - vals[3]) > 1e-6
        return (bool(bad), {"eps": eps, "x": x, "F": float(v[0]), "inverse": float(back[0]), "F_on_grid": vals})


UNITS = [ClaytonGroundedAndMargins(), ClaytonInfiniteCorners(), ClaytonMixedDerivative(), ClaytonConditional(), PiecewiseLinearCopulas()]
ASSUMPTIONS = ["A1: floats are mathematical reals", "A6: a function with non-negative mixed partial derivative on an orthant gives non-negative volumes to rectangles inside it (d-dimensional FTC); volumes across orthants follow from additivity + groundedness",
               "A4: sympy's calculus / power simplification with positive symbols"]
TRUSTED_BASE = ["sympy 1.14", "z3 5.1", "pyvc interpreter + numpy models, z3->sympy translation"]
BOUNDED = []
