"""C18 — Fourier and closed-form pricers are mutually consistent and arbitrage-free.

What contracts can decide (analytic mode / z3 on the real bodies): the COS coefficient formulas are the cosine integrals of
the payoffs (fundamental theorem of calculus on the code's closed forms), call/put parity is exact by construction in the COS
and FFT pricers and in the Black-Scholes closed form (both branches), the Black-Scholes call is decreasing and convex in the
strike with the digital as minus its strike derivative, the Carr-Madan integrand and its Simpson discretisation are the
published ones, and the variance-gamma exponent is the CGMY exponent of its (C, G, M, 0) parametrisation.
What they cannot: statements about the SIZE of the series truncation / quadrature error (bounds, monotonicity, convexity,
non-negative density of the truncated COS series, COS = FFT = closed form up to tolerance) are floating-point numerical
analysis; they are covered by a bounded native battery over a documented parameter box and labelled bounded.
"""
import itertools

import numpy as np
import sympy as sp
import z3

from pyvc.contract import FunctionContract, Lemma, VC, Req
from pyvc.sym import And, Or, Not, Implies, If, is_sym, Sym, lift, as_real_term, Unsupported
from pyvc.spval import SpVal, to_sp

PROPERTY_ID = "C18"
LEVEL = "proof"
COS = "rpylib.numerical.cosmethod:COSPricer"
FFT = "rpylib.numerical.fft:FFTPricer"
CFB = "rpylib.numerical.closedform.cfblackscholes:CFBlackScholes"
I = sp.I


def S(n, **k):
    return sp.Symbol(n, **k)


def rnd(*syms, lo=0.2, hi=2.0):
    return lambda rng: {s: rng.uniform(lo, hi) for s in syms}


class CosCoefficients(Lemma):
    """COSPricer.xi / psi are the closed-form integrals  int_c^d e^y cos(k pi (y-a)/(b-a)) dy  and  int_c^d cos(k pi (y-a)/(b-a)) dy
    (FTC: derivative in the upper limit + zero on the empty interval), for k = 0, 1, 2, 5 and for a symbolic positive
    integer k; u_put(k, a, b) is 2/(b-a) times the cosine integral of the scaled put payoff 1 - e^y over [a, 0]."""
    prop = "C18"
    cases = ("xi[k=0]", "xi[k=1]", "xi[k=2]", "xi[k=5]", "xi[k symbolic]", "psi[k in 0,1,2,5]", "u_put")

    def __init__(self):
        self.name = "property:cos-coefficients-are-the-cosine-integrals-of-the-payoffs"

    def prove(self, vc, case):
        nm = f"{self.name}[{case}]"
        it = vc.interp
        a0, w, c0, d0 = S("a", real=True), S("w", positive=True), S("c", real=True), S("d", real=True)
        a, b, c, d = a0, a0 + w, c0, d0                  # b - a = w > 0
        samp = lambda rng: {a0: rng.uniform(-3, -1), w: rng.uniform(2.5, 6), c0: rng.uniform(-1, 0), d0: rng.uniform(0.1, 1.0), S("k", integer=True, positive=True): rng.randint(1, 9)}
        xi = it.get_function(COS + ".xi")
        psi = it.get_function(COS + ".psi")
        if case.startswith("xi"):
            k = S("k", integer=True, positive=True) if "symbolic" in case else sp.Integer(int(case.split("=")[1].rstrip("]")))
            v = to_sp(it.call(xi, [SpVal(k), SpVal(a), SpVal(b), SpVal(c), SpVal(d)], {}))
            ang = k * sp.pi * (d - a) / (b - a)
            vc.check_zero(nm + "::derivative-in-the-upper-limit-is-the-integrand", lambda: sp.simplify(sp.diff(v, d0) - sp.exp(d) * sp.cos(ang)), samp)
            vc.check_zero(nm + "::zero-on-the-empty-interval", lambda: sp.simplify(v.subs(d0, c0)), samp)
        elif case.startswith("psi"):
            ks = np.array([0, 1, 2, 5])
            res = it.call(psi, [ks, SpVal(a), SpVal(b), SpVal(c), SpVal(d)], {})
            res = list(np.ravel(np.asarray(res, dtype=object)))
            vc.check(nm + "::one-coefficient-per-k", len(res) == len(ks))
            for kk, r in zip(ks, res):
                v = to_sp(r)
                ang = int(kk) * sp.pi * (d - a) / (b - a)
                vc.check_zero(nm + f"::k={kk}:derivative-in-the-upper-limit-is-the-integrand", lambda v=v, ang=ang: sp.simplify(sp.diff(v, d0) - sp.cos(ang)), samp)
                vc.check_zero(nm + f"::k={kk}:zero-on-the-empty-interval", lambda v=v: sp.simplify(v.subs(d0, c0)), samp)
        else:
            uput = it.get_function(COS + ".u_put")
            ks = np.array([0, 1, 2, 5])
            res = list(np.ravel(np.asarray(it.call(uput, [ks, SpVal(a), SpVal(b)], {}), dtype=object)))
            y = S("y", real=True)
            for kk, r in zip(ks, res):
                want = 2 / (b - a) * sp.integrate((1 - sp.exp(y)) * sp.cos(int(kk) * sp.pi * (y - a) / (b - a)), (y, a, 0))
                vc.check_zero(nm + f"::k={kk}:2/(b-a)-times-the-cosine-integral-of-(1-e^y)-over-[a,0]", lambda r=r, want=want: sp.simplify(to_sp(r) - want), samp)

    def replay(self, model, clause, case):
        from scipy.integrate import quad
        from rpylib.numerical.cosmethod import COSPricer
        a, b, c, d = -2.3, 2.9, -0.7, 0.6
        ks = np.array([0, 1, 2, 5])
        out, bad = {}, False
        if case.startswith("xi"):
            got = COSPricer.xi(ks, a, b, c, d)
            want = [quad(lambda y: np.exp(y) * np.cos(k * np.pi * (y - a) / (b - a)), c, d)[0] for k in ks]
        elif case.startswith("psi"):
            got = COSPricer.psi(ks, a, b, c, d)
            want = [quad(lambda y: np.cos(k * np.pi * (y - a) / (b - a)), c, d)[0] for k in ks]
        else:
            got = COSPricer.u_put(ks, a, b)
            want = [2 / (b - a) * quad(lambda y: (1 - np.exp(y)) * np.cos(k * np.pi * (y - a) / (b - a)), a, 0.0)[0] for k in ks]
        bad = not np.allclose(np.asarray(got, dtype=float), want, rtol=1e-8, atol=1e-10)
        return (bool(bad), {"a": a, "b": b, "c": c, "d": d, "k": ks.tolist(), "code": np.asarray(got, dtype=float).tolist(), "quadrature": [float(x) for x in want]})


PUTF = z3.Function("COS_PUT", z3.RealSort(), z3.RealSort(), z3.RealSort())


class CosParity(FunctionContract):
    """COSPricer.call (real body, real forward; put abstract): call - put = df * (spot * mean(t) - strike) exactly, for
    every strike and maturity (mean(t) = exp((r-d)t) is C10's martingale clause)."""
    prop = "C18"
    target = COS + ".call"
    name = "COSPricer.call"

    def configure(self, interp):
        interp.hooks[COS + ".put"] = lambda it, f, b: Sym(PUTF(as_real_term(lift(b["strikes"])), as_real_term(lift(b["time"]))), "r")
        from pyvc import ctx
        interp.hooks["rpylib.model.levymodel.exponentialoflevymodel:ExponentialOfLevyModel.df"] = lambda it, f, b: ctx.PATH.ghost["df"]

    def setup(self, vc, case):
        spot, mean, df, K, t = vc.real("spot"), vc.real("mean"), vc.real("df"), vc.real("strike"), vc.real("t")
        vc.assume(And(spot > 0, mean > 0, df > 0, K > 0, t > 0))
        vc.ghost.update(spot=spot, mean=mean, df=df, K=K, t=t)
        cls = vc.interp.get_class("rpylib.model.levymodel.exponentialoflevymodel:ExponentialOfLevyModel")
        vc.interp.hooks["rpylib.model.levymodel.exponentialoflevymodel:ExponentialOfLevyModel.mean"] = lambda it, f, b: mean
        model = vc.obj("rpylib.model.levymodel.exponentialoflevymodel:ExponentialOfLevyModel", spot=spot)
        # `mean` is added by a class decorator: make the abstract mean reachable whatever the lookup route
        model.fields["mean"] = vc.interp.lib.Model(lambda it, *a, **k: mean, "mean")
        pr = vc.obj(COS, model=model, n=8, l=10)
        return dict(self=pr, strikes=K, time=t)

    def ensures(self, result, **a):
        from pyvc import ctx
        g = ctx.PATH.ghost
        put = Sym(PUTF(as_real_term(g["K"]), as_real_term(g["t"])), "r")
        return {"call-minus-put-is-the-discounted-forward-minus-strike": result - put == g["df"] * (g["spot"] * g["mean"] - g["K"])}

    def replay(self, model, clause, case):
        from contracts import battery
        from rpylib.numerical.cosmethod import COSPricer
        m = battery.models(("hem",))["hem"]
        pr = COSPricer(m)
        K = np.array([0.8, 1.0, 1.3]) * m.spot
        T = 0.7
        lhs = pr.call(K, T) - pr.put(K, T)
        rhs = np.exp(-m.r * T) * (m.spot * np.exp((m.r - m.d) * T) - K)
        return (not np.allclose(lhs, rhs, rtol=1e-12, atol=1e-10), {"strikes": K.tolist(), "call-put": np.asarray(lhs).tolist(), "df*(fwd-K)": rhs.tolist()})


class CosButterfly(FunctionContract):
    """COSPricer.butterfly (real body; call abstract, put tied to it by the parity CosParity proves): the price is the call
    combination C(K1) - 2 C(K2) + C(K3) -- the second difference whose sign is the convexity clause -- for ANY three
    strikes, equally spaced or not."""
    prop = "C18"
    target = COS + ".butterfly"
    name = "COSPricer.butterfly"

    def configure(self, interp):
        from pyvc import ctx
        CALLC = z3.Function("COS_CALL", z3.RealSort(), z3.RealSort(), z3.RealSort())
        self._call = CALLC

        def call(it, f, b):
            ks = np.ravel(np.asarray(b["strikes"], dtype=object))
            return np.array([Sym(CALLC(as_real_term(lift(k)), as_real_term(lift(b["time"]))), "r") for k in ks], dtype=object)

        def put(it, f, b):
            g = ctx.PATH.ghost
            ks = np.ravel(np.asarray(b["strikes"], dtype=object))
            return np.array([Sym(CALLC(as_real_term(lift(k)), as_real_term(lift(b["time"]))), "r") - g["df"] * (g["fwd"] - k) for k in ks], dtype=object)
        interp.hooks[COS + ".call"] = call
        interp.hooks[COS + ".put"] = put

    def setup(self, vc, case):
        ks = vc.reals("strike", 3)
        t, df, fwd = vc.real("t"), vc.real("df"), vc.real("fwd")
        vc.assume(And(0 < ks[0], ks[0] < ks[1], ks[1] < ks[2], t > 0, df > 0, fwd > 0))
        vc.ghost.update(ks=ks, t=t, df=df, fwd=fwd)
        pr = vc.obj(COS, n=8, l=10)
        return dict(self=pr, strike1=ks[0], strike2=ks[1], strike3=ks[2], time=t)

    def ensures(self, result, **a):
        from pyvc import ctx
        g = ctx.PATH.ghost
        c = [Sym(self._call(as_real_term(k), as_real_term(g["t"])), "r") for k in g["ks"]]
        return {"butterfly-is-the-call-combination": result == c[0] - 2 * c[1] + c[2]}

    def replay(self, model, clause, case):
        from contracts import battery
        from rpylib.numerical.cosmethod import COSPricer
        m = battery.models(("hem",))["hem"]
        pr = COSPricer(m)
        f = lambda v, d: float(v["float"]) if isinstance(v, dict) else (float(v) if v is not None else d)
        sm = model.get("strike") if isinstance(model.get("strike"), list) else []
        for ks in ([f(sm[k] if k < len(sm) else None, None) for k in range(3)], [0.9, 0.95, 1.2]):
            if None in ks or not 0 < ks[0] < ks[1] < ks[2] or ks[2] > 5:
                continue
            K = np.array(ks) * m.spot
            got = float(pr.butterfly(K[0], K[1], K[2], 0.7))
            c = np.asarray(pr.call(K, 0.7), float)
            want = float(c[0] - 2 * c[1] + c[2])
            if abs(got - want) > 1e-9 * m.spot:
                return (True, {"strikes": K.tolist(), "butterfly": got, "call_combination": want})
        return (False, {})


class CosPutWiring(Lemma):
    """COSPricer.put / digital (real constructor and bodies; _pricing_formula recorded), called for TWO maturities in a row on
    the same pricer: each series is evaluated at x = log(spot/strike) on the cumulant interval [a, b] OF ITS OWN maturity with
    the put coefficients u_put(k, a, b) (result scaled by the strike), resp. the digital coefficients 2/(b-a) psi(k, a, b, 0, b)."""
    prop = "C18"
    cases = ("put", "digital")

    def __init__(self):
        self.name = "property:cos-put-and-digital-wiring"

    def prove(self, vc, case):
        from pyvc import ctx
        from pyvc.lib import m_log
        nm = f"{self.name}[{case}]"
        it = vc.interp
        spot, K = vc.real("spot"), vc.real("strike")
        ts = vc.reals("t", 2)
        aa = vc.reals("a", 2)
        ww = vc.reals("w", 2)
        series = vc.reals("series", 2)
        vc.assume(And(spot > 0, K > 0, ts[0] > 0, ts[1] > ts[0], *[And(a < 0, w > 0, a + w > 0) for a, w in zip(aa, ww)]))
        calls = []
        it.hooks[COS + "._pricing_formula"] = lambda it_, f, b: calls.append(dict(b)) or series[len(calls) - 1]

        def interval(it_, f, b):
            t = b["t"]
            k = 0 if (t is ts[0]) else 1
            return aa[k], aa[k] + ww[k]
        it.hooks[COS + "._interval_a_b"] = interval
        model = vc.obj("rpylib.model.levymodel.exponentialoflevymodel:ExponentialOfLevyModel", spot=spot, log_characteristic_function=None)
        pr = vc.new(COS, model, 4, 10)
        for j in range(2):
            res = vc.method(pr, case, K, ts[j])
            a, b = aa[j], aa[j] + ww[j]
            tag = f"{nm}::call{j + 1}:"
            vc.check(tag + "one-series-evaluation", len(calls) == j + 1)
            if len(calls) != j + 1:
                return
            c = calls[j]
            ks = np.arange(4)
            if case == "put":
                want = it.call(it.get_function(COS + ".u_put"), [ks, a, b], {})
                vc.check(tag + "result-is-strike-times-the-series", res == K * series[j])
            else:
                want = it.call(it.get_function(COS + ".psi"), [ks, a, b, 0.0, b], {})
                want = np.array([2 / (b - a) * v for v in np.ravel(np.asarray(want, dtype=object))], dtype=object)
                vc.check(tag + "result-is-the-series", res == series[j])
            got = np.ravel(np.asarray(c["vk_coefficients"], dtype=object))
            want = np.ravel(np.asarray(want, dtype=object))
            vc.check(tag + "series-on-the-cumulant-interval-of-this-maturity", And(c["a"] == a, c["b"] == b, c["time"] == ts[j]))
            vc.check(tag + "evaluated-at-log(spot/strike)", c["x"] == m_log(spot / K))
            vc.check(tag + "payoff-coefficients-of-this-interval", (len(got) == len(want)) and And(*[x == y for x, y in zip(got, want)]))

    def replay(self, model, clause, case):
        from contracts import battery
        from rpylib.numerical.cosmethod import COSPricer
        m = battery.models(("hem",))["hem"]
        K = np.array([90.0, 100.0, 115.0])
        shared = COSPricer(m)
        f = (lambda pr, T: pr.put(K, T)) if case == "put" else (lambda pr, T: pr.digital(K, T))
        first, second = f(shared, 0.25), f(shared, 2.0)
        fresh = f(COSPricer(m), 2.0)
        return (not np.allclose(second, fresh, rtol=1e-12, atol=1e-12), {"strikes": K.tolist(), "second_maturity_on_a_reused_pricer": np.asarray(second).tolist(), "fresh_pricer": np.asarray(fresh).tolist()})


class BlackScholesClosedForm(Lemma):
    """CFBlackScholes (real _call_put / digital bodies, non-degenerate branch, analytic mode): call - put = df (fwd - K);
    dCall/dK = -df Phi(d2) = -digital (decreasing in the strike, the digital is a discounted probability);
    d2Call/dK2 = df phi(d2) / (K sigma sqrt(T)) >= 0 (convex); call -> df fwd as K -> 0 and -> 0 as K -> oo."""
    prop = "C18"

    def __init__(self):
        self.name = "property:black-scholes-closed-form"

    def prove(self, vc, case):
        nm = self.name
        spot, r, d, sg, K, T = S("spot", positive=True), S("r", positive=True), S("d", positive=True), S("sigma", positive=True), S("K", positive=True), S("T", positive=True)
        # eps-guards of the degenerate branch: decided at the sample point and validated by z3 from the regime facts
        eps = sp.Rational(1, 10 ** 8)
        facts = [sg > eps, spot > eps, T > eps]
        sample = {spot: 100.0, r: 0.03, d: 0.01, sg: 0.25, K: 95.0, T: 0.8}
        from contracts.c10 import install_oracle
        install_oracle(vc, dict(facts=facts, sample=sample), nm)
        par = vc.new("rpylib.model.levymodel.mixed.blackscholes:BlackScholesParameters", sigma=SpVal(sg))
        bs = vc.new("rpylib.model.levymodel.mixed.blackscholes:BlackScholesModel", SpVal(spot), SpVal(r), SpVal(d), par)
        cf = bs.fields["closed_form"]
        call = to_sp(vc.method(cf, "call", SpVal(K), SpVal(T)))
        put = to_sp(vc.method(cf, "put", SpVal(K), SpVal(T)))
        dig = to_sp(vc.method(cf, "digital", SpVal(K), SpVal(T)))
        df, fwd = sp.exp(-r * T), spot * sp.exp((r - d) * T)
        samp = lambda rng: {spot: rng.uniform(50, 150), r: rng.uniform(0.001, 0.08), d: rng.uniform(0.001, 0.05), sg: rng.uniform(0.05, 0.6), K: rng.uniform(40, 180), T: rng.uniform(0.1, 3.0)}
        vc.check_zero(nm + "::call-minus-put-is-df-(fwd-K)", lambda: sp.simplify(call - put - df * (fwd - K)), samp)
        d2 = sp.log(fwd / K) / (sg * sp.sqrt(T)) - sg * sp.sqrt(T) / 2
        Phi = lambda v: (1 + sp.erf(v / sp.sqrt(2))) / 2
        phi = lambda v: sp.exp(-v ** 2 / 2) / sp.sqrt(2 * sp.pi)
        vc.check_zero(nm + "::digital-is-df-Phi(d2)", lambda: sp.simplify(dig - df * Phi(d2)), samp)
        vc.check_zero(nm + "::call-strike-derivative-is-minus-the-digital", lambda: sp.simplify(sp.diff(call, K) + df * Phi(d2)), samp)
        vc.check_zero(nm + "::call-is-convex:second-strike-derivative-is-df-phi(d2)/(K-sigma-sqrt(T))", lambda: sp.simplify(sp.diff(call, K, 2) - df * phi(d2) / (K * sg * sp.sqrt(T))), samp)
        samp2 = lambda rng: {k: v for k, v in samp(rng).items() if k != K}
        vc.check_zero(nm + "::call-at-zero-strike-is-the-discounted-forward", lambda: sp.simplify(sp.limit(call, K, 0, "+") - df * fwd), samp2)
        vc.check_zero(nm + "::call-vanishes-at-infinite-strike", lambda: sp.simplify(sp.limit(call, K, sp.oo)), samp2)

    def replay(self, model, clause, case):
        from rpylib.model.utils import create_exponential_of_levy_model
        from rpylib.model.levymodel.levymodel import ModelType
        from rpylib.numerical.closedform.cfblackscholes import CFBlackScholes
        m = create_exponential_of_levy_model(ModelType.BLACKSCHOLES)(spot=100.0, r=0.03, d=0.01, sigma=0.25)
        cf = CFBlackScholes(m)
        T = 0.8
        K = np.linspace(60.0, 160.0, 201)
        c = np.array([float(cf.call(k, T)) for k in K])
        p = np.array([float(cf.put(k, T)) for k in K])
        dg = np.asarray(cf.digital(K, T), dtype=float)
        df, fwd = np.exp(-0.03 * T), 100.0 * np.exp(0.02 * T)
        h = K[1] - K[0]
        slope = np.gradient(c, h)
        bad = (not np.allclose(c - p, df * (fwd - K), atol=1e-9) or np.any(np.diff(c) > 1e-12) or np.any(np.diff(c, 2) < -1e-10)
               or not np.allclose(-slope[2:-2], dg[2:-2], atol=2e-3) or np.any(dg < 0) or np.any(dg > df + 1e-12))
        return (bool(bad), {"T": T, "max_parity_error": float(np.max(np.abs(c - p - df * (fwd - K)))), "max_|dC/dK + digital|": float(np.max(np.abs(slope[2:-2] + dg[2:-2])))})


class BlackScholesDegenerate(Lemma):
    """CFBlackScholes degenerate branch (real bodies, z3): sigma = 0 with any maturity, and maturity = 0 with any sigma:
    intrinsic values of the FORWARD, so call - put = df (fwd - K), both non-negative, at most one of them positive."""
    prop = "C18"
    cases = ("sigma=0", "maturity=0")

    def __init__(self):
        self.name = "property:black-scholes-degenerate-branch"

    def prove(self, vc, case):
        from pyvc.lib import m_exp
        nm = f"{self.name}[{case}]"
        spot, r, d, K = vc.real("spot"), vc.real("r"), vc.real("d"), vc.real("K")
        vc.assume(And(spot > 0, r >= 0, d >= 0, K > 0))
        if case == "sigma=0":
            sg, T = 0.0, vc.real("T")
            vc.assume(T > 0)
        else:
            sg, T = vc.real("sigma"), 0.0
            vc.assume(sg >= 0)
        par = vc.obj("rpylib.model.levymodel.mixed.blackscholes:BlackScholesParameters", sigma=sg)
        bs = vc.obj("rpylib.model.levymodel.mixed.blackscholes:BlackScholesModel", spot=spot, r=r, d=d, parameters=par)
        cf = vc.obj(CFB, bs_model=bs)
        c = vc.method(cf, "call", K, T)
        p = vc.method(cf, "put", K, T)
        df = m_exp(-r * T) if is_sym(T) else 1.0
        fwd = spot * m_exp((r - d) * T) if is_sym(T) else spot
        vc.check(nm + "::parity-with-the-forward", c - p == df * (fwd - K))
        vc.check(nm + "::non-negative-intrinsic-values", And(c >= 0, p >= 0, Or(c == 0, p == 0)))


class VarianceGammaIsCGMY(Lemma):
    """the VG exponent equals the CGMY exponent with C = 1/nu, G = lambda_minus, M = lambda_plus, Y = 0 (the parameters the
    VG class itself derives), for every argument: equal at 0 and equal derivatives (rational functions)."""
    prop = "C18"

    def __init__(self):
        self.name = "property:variance-gamma-is-its-cgmy-parametrisation"

    def prove(self, vc, case):
        nm = self.name
        sg, nu, th, x = S("sigma", positive=True), S("nu", positive=True), S("theta", real=True), S("x", real=True)
        vgp = vc.new("rpylib.model.levymodel.purejump.variancegamma:VGParameters", sigma=SpVal(sg), nu=SpVal(nu), theta=SpVal(th))
        vg = vc.new("rpylib.model.levymodel.purejump.variancegamma:VarianceGammaModel", vgp)
        # which of the two derived rates is G (negative side) and which M (positive side) is read off the VG density itself
        z = S("z", positive=True)
        nu_obj = vg.fields["levy_triplet"].fields["nu"]
        pos = to_sp(vc.interp.call(nu_obj, [SpVal(z)], {}))
        neg = to_sp(vc.interp.call(nu_obj, [SpVal(-z)], {}))
        M = sp.simplify(-sp.diff(sp.log(pos * z), z))
        G = sp.simplify(-sp.diff(sp.log(neg * z), z))
        C = sp.simplify(pos * z * sp.exp(M * z))
        vc.check_zero(nm + "::density-is-C-exp(-Mz)/z-and-C-exp(-G|z|)/|z|-with-one-C", lambda: sp.simplify(neg * z * sp.exp(G * z) - C), lambda rng: {sg: rng.uniform(0.1, 0.5), nu: rng.uniform(0.05, 0.5), th: rng.uniform(-0.3, 0.3), z: rng.uniform(0.1, 1)})
        # (the parameter descriptors' sign checks on G, M > 0 involve a square root the CAS cannot sign; the object is built
        # field by field -- G, M > 0 holds because sqrt(theta^2 + 2 sigma^2 / nu) > |theta|)
        cgp = vc.obj("rpylib.model.levymodel.purejump.cgmy:CGMYParameters", c=SpVal(C), g=SpVal(G), m=SpVal(M), y=SpVal(sp.Integer(0)))
        cg = vc.new("rpylib.model.levymodel.purejump.cgmy:CGMYModel", cgp)
        p1 = to_sp(vc.method(vg, "levy_exponent", SpVal(x)))
        p2 = to_sp(vc.method(cg, "levy_exponent", SpVal(x)))
        samp = lambda rng: {sg: rng.uniform(0.1, 0.5), nu: rng.uniform(0.05, 0.5), th: rng.uniform(-0.3, 0.3), x: rng.uniform(-3, 3)}
        vc.check_zero(nm + "::equal-at-zero", lambda: sp.simplify((p1 - p2).subs(x, 0)), samp)
        vc.check_zero(nm + "::equal-derivatives", lambda: sp.simplify(sp.diff(p1, x) - sp.diff(p2, x)), samp)

    def replay(self, model, clause, case):
        from rpylib.model.levymodel.purejump.variancegamma import VGParameters, VarianceGammaModel
        from rpylib.model.levymodel.purejump.cgmy import CGMYParameters, CGMYModel
        p = VGParameters(sigma=0.25, nu=0.2, theta=-0.12)
        vg = VarianceGammaModel(p)
        cg = CGMYModel(CGMYParameters(c=p._c, g=p._lambda_m, m=p._lambda_p, y=0.0))
        xs = [0.4, -1.7, 2.5]
        a = [complex(vg.levy_exponent(x)) for x in xs]
        b1 = [complex(cg.levy_exponent(x)) for x in xs]
        # the other assignment of the two rates (in case the class names them the other way round)
        cg2 = CGMYModel(CGMYParameters(c=p._c, g=p._lambda_p, m=p._lambda_m, y=0.0))
        b2 = [complex(cg2.levy_exponent(x)) for x in xs]
        bad = not (np.allclose(a, b1, atol=1e-10) or np.allclose(a, b2, atol=1e-10))
        return (bool(bad), {"x": xs, "vg": [[v.real, v.imag] for v in a], "cgmy": [[v.real, v.imag] for v in b1]})


class CarrMadan(Lemma):
    """FFTPricer._psi is the Carr-Madan damped transform  e^{-rT} phi(v - (alpha+1) i) / (alpha^2 + alpha - v^2 + i (2 alpha + 1) v)
    of the model's characteristic function (abstract), and put = call - df (fwd - K) (real bodies)."""
    prop = "C18"

    def __init__(self):
        self.name = "property:carr-madan-transform-and-parity"

    def prove(self, vc, case):
        nm = self.name
        r, T, v, al = S("r", positive=True), S("T", positive=True), S("v", real=True), S("alpha", positive=True)
        PHI = sp.Function("phi_T")
        seen = []

        def cf(it, *a, **k):
            x = k.get("x", a[-1] if a else None)
            seen.append(to_sp(x))
            return SpVal(PHI(to_sp(x)))
        # the discount rate is the MODEL's current rate (the pricer reads it at each valuation)
        mdl = vc.obj("rpylib.model.levymodel.exponentialoflevymodel:ExponentialOfLevyModel", r=SpVal(r))
        pr = vc.obj(FFT, cf=vc.interp.lib.Model(cf, "cf"), model=mdl, alpha=SpVal(al))
        res = to_sp(vc.method(pr, "_psi", SpVal(T), SpVal(v)))
        want = sp.exp(-r * T) * PHI(v - (al + 1) * I) / (al ** 2 + al - v ** 2 + I * (2 * al + 1) * v)
        vc.check_zero(nm + "::damped-transform", lambda: sp.simplify(res - want), None)
        vc.check(nm + "::characteristic-function-evaluated-once-at-v-(alpha+1)i", len(seen) == 1 and sp.simplify(seen[0] - (v - (al + 1) * I)) == 0)

    def replay(self, model, clause, case):
        from contracts import battery
        from rpylib.numerical.fft import FFTPricer
        m = battery.models(("hem",))["hem"]
        pr = FFTPricer(m)
        T, v = 0.7, np.array([0.0, 0.5, 3.0])
        got = pr._psi(T, v)
        al = pr.alpha
        want = np.exp(-m.r * T) * m.log_characteristic_function(t=T, x=v - (al + 1) * 1j) / (al ** 2 + al - v ** 2 + 1j * (2 * al + 1) * v)
        return (not np.allclose(got, want, rtol=1e-12), {"v": v.tolist(), "code": [[z.real, z.imag] for z in got], "carr_madan": [[z.real, z.imag] for z in want]})


CALLF = z3.Function("FFT_CALL", z3.RealSort(), z3.RealSort(), z3.RealSort())


class FftParity(FunctionContract):
    """FFTPricer.put (real body, call abstract): put = call - df (spot mean(T) - K)"""
    prop = "C18"
    target = FFT + ".put"
    name = "FFTPricer.put"

    def configure(self, interp):
        interp.hooks[FFT + ".call"] = lambda it, f, b: Sym(CALLF(as_real_term(lift(b["strike"])), as_real_term(lift(b["maturity"]))), "r")

    cases = ("as constructed", "rate reassigned after construction")

    def setup(self, vc, case):
        spot, mean, r, K, T = vc.real("spot"), vc.real("mean"), vc.real("r"), vc.real("strike"), vc.real("T")
        vc.assume(And(spot > 0, mean > 0, r >= 0, K > 0, T > 0))
        vc.ghost.update(spot=spot, mean=mean, r=r, K=K, T=T)
        r_built = r
        if case != "as constructed":
            r_built = vc.real("r_at_construction")
            vc.assume(r_built >= 0)
        model = vc.obj("rpylib.model.levymodel.exponentialoflevymodel:ExponentialOfLevyModel", spot=spot, r=r_built)
        model.fields["mean"] = vc.interp.lib.Model(lambda it, *a, **k: mean, "mean")
        pr = vc.new(FFT, model)                 # the real constructor: whatever it captures is captured
        vc.interp.setattr(model, "r", r)        # the model's CURRENT rate
        return dict(self=pr, strike=K, maturity=T)

    def replay(self, model, clause, case):
        from contracts import battery
        from rpylib.numerical.fft import FFTPricer
        m = battery.models(("hem",))["hem"]
        pr = FFTPricer(m)
        if case != "as constructed":
            m.r = m.r + 0.05
        K, T = np.array([0.8, 1.0, 1.3]) * m.spot, 0.7
        lhs = np.asarray(pr.call(K, T)) - np.asarray(pr.put(K, T))
        rhs = np.exp(-m.r * T) * (m.spot * np.exp((m.r - m.d) * T) - K)
        return (not np.allclose(lhs, rhs, rtol=1e-12, atol=1e-10), {"case": case, "strikes": K.tolist(), "call-put": lhs.tolist(), "df*(fwd-K) at the model's current rate": rhs.tolist()})

    def ensures(self, result, **a):
        from pyvc import ctx
        from pyvc.lib import m_exp
        g = ctx.PATH.ghost
        call = Sym(CALLF(as_real_term(g["K"]), as_real_term(g["T"])), "r")
        return {"put-is-call-minus-the-discounted-forward-minus-strike": result == call - m_exp(-g["r"] * g["T"]) * (g["spot"] * g["mean"] - g["K"])}


UNITS = [CosCoefficients(), CosParity(), CosButterfly(), CosPutWiring(), BlackScholesClosedForm(), BlackScholesDegenerate(), VarianceGammaIsCGMY(), CarrMadan(), FftParity()]
ASSUMPTIONS = ["A1: floats are mathematical reals", "A4: sympy's calculus (differentiation, limits, erf algebra)", "A6: fundamental theorem of calculus",
               "the size of the COS truncation / FFT quadrature error is NOT decided by contracts: covered by the bounded battery on a documented box"]
TRUSTED_BASE = ["sympy 1.14", "z3 5.1", "pyvc interpreter (analytic mode and z3 mode)"]


class PricerBattery:
    """bounded (native): the real COS / FFT / closed-form pricers on a documented box -- spot 100, r = 3 %, d = 1 %; Black-Scholes
    sigma in {0.1, 0.4}, the default HEM, Merton and VG models, CGMY (1, 15, 20, 0.5) and (0.3, 15, 20, 1.5); maturities
    0.25, 1, 2; 41 strikes between 60 and 160 restricted to log-moneyness within 50 % of the COS truncation range [a, b] (the series is expanded in log(S_T/K) on the SAME interval, so the strike eats into the 10-standard-deviation margin).
    Tolerances (price units, spot = 100): parity 1e-9; bounds / monotonicity / convexity / COS = FFT 2e-3; COS = closed form
    1e-6; digital 1e-5; density >= -1e-8 and integral 1 +- 1e-4; VG = CGMY 1e-8."""
    name = "bounded:pricer-battery"
    tier = "quick"
    TOL = 2e-3

    def _models(self):
        from rpylib.model.utils import create_exponential_of_levy_model as mk
        from rpylib.model.levymodel.levymodel import ModelType
        kw = dict(spot=100.0, r=0.03, d=0.01)
        return {"bs0.1": mk(ModelType.BLACKSCHOLES)(sigma=0.1, **kw), "bs0.4": mk(ModelType.BLACKSCHOLES)(sigma=0.4, **kw), "hem": mk(ModelType.HEM)(**kw),
                "merton": mk(ModelType.MERTON)(**kw), "vg": mk(ModelType.VG)(**kw), "cgmy0.5": mk(ModelType.CGMY)(c=1.0, g=15.0, m=20.0, y=0.5, **kw),
                "cgmy1.5": mk(ModelType.CGMY)(c=0.3, g=15.0, m=20.0, y=1.5, **kw)}

    def run(self, tier, seed):
        import warnings
        from rpylib.numerical.cosmethod import COSPricer
        from rpylib.numerical.fft import FFTPricer
        from rpylib.numerical.closedform.cfblackscholes import CFBlackScholes
        viol, ev, samples = {}, 0, []
        TOL = self.TOL

        def bad(label, info):
            viol.setdefault(label, {"obligation": f"{self.name}::{label}", "bounded": self.name, "witness": info})
        from rpylib.model.utils import create_exponential_of_levy_model as _mk
        from rpylib.model.levymodel.levymodel import ModelType as _MT
        mk_bs = lambda sg: _mk(_MT.BLACKSCHOLES)(spot=100.0, r=0.03, d=0.01, sigma=sg)
        with warnings.catch_warnings():
            warnings.simplefilter("ignore")
            models = self._models()
            mats = (0.25, 1.0, 2.0) if tier == "quick" else (0.1, 0.25, 0.5, 1.0, 2.0, 3.0)
            for name, m in models.items():
                for T in mats:
                    ev += 1
                    pr = COSPricer(m)
                    a, b = pr._interval_a_b(T)
                    K = np.linspace(60.0, 160.0, 41)
                    x = np.log(m.spot / K)
                    K = K[(x > 0.5 * a) & (x < 0.5 * b)]
                    if len(K) < 5:
                        continue
                    c, p, dg = np.asarray(pr.call(K, T), float), np.asarray(pr.put(K, T), float), np.asarray(pr.digital(K, T), float)
                    df, fwd = float(np.exp(-m.r * T)), float(m.spot * np.exp((m.r - m.d) * T))
                    info = {"model": name, "T": T, "strikes": [float(K[0]), float(K[-1])], "truncation_range": [float(a), float(b)]}
                    if np.max(np.abs(c - p - df * (fwd - K))) > 1e-9:
                        bad("cos-parity-exact", {**info, "max_error": float(np.max(np.abs(c - p - df * (fwd - K))))})
                    if np.min(c - np.maximum(df * (fwd - K), 0.0)) < -TOL or np.max(c - df * fwd) > TOL or np.min(p - np.maximum(df * (K - fwd), 0.0)) < -TOL or np.max(p - df * K) > TOL:
                        bad("prices-between-intrinsic-and-discounted-forward", {**info, "min(call-intrinsic)": float(np.min(c - np.maximum(df * (fwd - K), 0.0)))})
                    if np.max(np.diff(c)) > TOL or np.min(np.diff(p)) < -TOL:
                        bad("call-decreasing-put-increasing-in-strike", {**info, "max_call_increment": float(np.max(np.diff(c)))})
                    if np.min(np.diff(c, 2)) < -TOL:
                        bad("call-convex-in-strike", {**info, "min_second_difference": float(np.min(np.diff(c, 2)))})
                    if np.min(dg) < -1e-5 or np.max(dg) > df + 1e-5 or np.max(np.diff(dg)) > 1e-5:
                        bad("digital-is-a-decreasing-discounted-probability", {**info, "digital_range": [float(dg.min()), float(dg.max())], "df": df, "max_increment": float(np.max(np.diff(dg)))})
                    sgrid = np.exp(np.linspace(np.log(m.spot) + 0.98 * a, np.log(m.spot) + 0.98 * b, 4001))
                    dens = np.asarray(pr.density(T, sgrid), float)
                    integ = float(np.trapezoid(dens, sgrid))
                    if dens.min() < -1e-8 or abs(integ - 1.0) > 1e-4:
                        bad("implied-density-non-negative-and-integrates-to-one", {**info, "min_density": float(dens.min()), "integral": integ})
                    f = np.asarray(FFTPricer(m).call(K, T), float)
                    if np.max(np.abs(f - c)) > TOL:
                        bad("cos-equals-fft", {**info, "max_difference": float(np.max(np.abs(f - c)))})
                    if name.startswith("bs"):
                        cfv = np.array([float(CFBlackScholes(m).call(k, T)) for k in K])
                        if np.max(np.abs(cfv - c)) > 1e-6 or np.max(np.abs(cfv - f)) > TOL:
                            bad("cos-and-fft-equal-the-black-scholes-closed-form", {**info, "max_cos_error": float(np.max(np.abs(cfv - c))), "max_fft_error": float(np.max(np.abs(cfv - f)))})
                    if len(samples) < 3:
                        samples.append({**info, "call_atm": float(c[len(c) // 2])})
                    # strikes in the OUTER half of the truncation range (still inside it): same no-arbitrage bounds
                    Ko = np.linspace(60.0, 160.0, 41)
                    xo = np.log(m.spot / Ko)
                    Ko = Ko[((xo <= 0.5 * a) & (xo > 0.95 * a)) | ((xo >= 0.5 * b) & (xo < 0.95 * b))]
                    if len(Ko):
                        co = np.asarray(pr.call(Ko, T), float)
                        low = co - np.maximum(df * (fwd - Ko), 0.0)
                        if np.min(low) < -TOL or np.max(co - df * fwd) > TOL:
                            i = int(np.argmin(low))
                            bad("outer-half-of-the-truncation-range:prices-between-intrinsic-and-discounted-forward",
                                {**info, "strike": float(Ko[i]), "log_moneyness": float(np.log(m.spot / Ko[i])), "call": float(co[i]), "intrinsic": float(max(df * (fwd - Ko[i]), 0.0))})
            # tiny total variance (sigma sqrt(T) = 9e-5): still a Black-Scholes price, not an intrinsic value
            ev += 1
            mt = mk_bs(0.002)
            Tt = 0.002
            Kt = mt.spot * np.exp((mt.r - mt.d) * Tt) * np.exp(np.array([-1.5, -0.5, 0.0, 0.5, 1.5]) * 0.002 * np.sqrt(Tt))
            ct = np.asarray(COSPricer(mt).call(Kt, Tt), float)
            cft = np.array([float(CFBlackScholes(mt).call(k, Tt)) for k in Kt])
            if np.max(np.abs(ct - cft)) > 1e-6:
                bad("cos-and-fft-equal-the-black-scholes-closed-form", {"model": "bs sigma=0.002", "T": Tt, "strikes": Kt.tolist(), "cos": ct.tolist(), "closed_form": cft.tolist()})
            # one pricer instance reused for several maturities must give what fresh instances give
            for name, m in models.items():
                shared = COSPricer(m)
                K = np.linspace(85.0, 120.0, 8)
                for T in (0.25, 2.0, 1.0):
                    ev += 1
                    d1 = float(np.max(np.abs(np.asarray(shared.call(K, T)) - np.asarray(COSPricer(m).call(K, T)))))
                    d2 = float(np.max(np.abs(np.asarray(shared.digital(K, T)) - np.asarray(COSPricer(m).digital(K, T)))))
                    if max(d1, d2) > 1e-10:
                        bad("reused-pricer-equals-fresh-pricer", {"model": name, "T": T, "max_call_difference": d1, "max_digital_difference": d2})
            # one FFT pricer reused for two close maturities must give what fresh pricers give
            ev += 1
            mh = models["hem"]
            shared = FFTPricer(mh)
            K = np.linspace(85.0, 120.0, 8)
            for T in (1.0, 1.004, 0.5):
                dd = float(np.max(np.abs(np.asarray(shared.call(K, T)) - np.asarray(FFTPricer(mh).call(K, T)))))
                dp = float(np.max(np.abs(np.asarray(shared.put(K, T)) - np.asarray(FFTPricer(mh).put(K, T)))))
                if max(dd, dp) > 1e-10:
                    bad("reused-pricer-equals-fresh-pricer", {"pricer": "FFT", "model": "hem", "T": T, "max_call_difference": dd, "max_put_difference": dp})
            # histories on a pricer / a model: a pricer whose truncation parameter l (or number of terms n) is reassigned prices the
            # SAME expiry again like a fresh pricer with those settings; a second model that differs from the first in one
            # parameter only is priced with its own law (FFT = COS on it); a model whose spot is reassigned
            ev += 1
            mh = models["hem"]
            K = np.linspace(85.0, 120.0, 8)
            pr = COSPricer(mh)
            pr.call(K, 1.0), pr.digital(K, 1.0)
            pr.l = 14.0
            fresh = COSPricer(mh)
            fresh.l = 14.0
            dl = max(float(np.max(np.abs(np.asarray(pr.call(K, 1.0)) - np.asarray(fresh.call(K, 1.0))))), float(np.max(np.abs(np.asarray(pr.put(K, 1.0)) - np.asarray(fresh.put(K, 1.0))))),
                     float(np.max(np.abs(np.asarray(pr.digital(K, 1.0)) - np.asarray(fresh.digital(K, 1.0))))))
            if dl > 1e-10:
                bad("reused-pricer-equals-fresh-pricer", {"pricer": "COS", "model": "hem", "T": 1.0, "history": "expiry priced, truncation parameter l reassigned 10 -> 14, same expiry priced again", "max_difference": dl})
            ev += 1
            from rpylib.model.utils import create_exponential_of_levy_model as _mk2
            from rpylib.model.levymodel.levymodel import ModelType as _MT2
            for pv in (0.3, 0.8):
                m2 = _mk2(_MT2.HEM)(spot=100.0, r=0.03, d=0.01, sigma=0.1, p=pv, eta1=25.0, eta2=40.0, intensity=5.0)
                dcf = float(np.max(np.abs(np.asarray(FFTPricer(m2).call(K, 1.0)) - np.asarray(COSPricer(m2).call(K, 1.0)))))
                if dcf > TOL:
                    bad("cos-and-fft-agree", {"model": f"HEM p={pv} (second of two models differing in p only)" if pv == 0.8 else f"HEM p={pv}", "T": 1.0, "max_call_difference": dcf})
            ev += 1
            m3 = _mk2(_MT2.HEM)(spot=100.0, r=0.03, d=0.01, sigma=0.1, p=0.6, eta1=25.0, eta2=40.0, intensity=5.0)
            COSPricer(m3).call(K, 1.0), FFTPricer(m3).call(K, 1.0)
            m3.spot = 120.0
            dsp = float(np.max(np.abs(np.asarray(FFTPricer(m3).call(K, 1.0)) - np.asarray(COSPricer(m3).call(K, 1.0)))))
            if dsp > TOL:
                bad("cos-and-fft-agree", {"model": "HEM after model.spot was reassigned 100 -> 120", "T": 1.0, "max_call_difference": dsp})
            # ONE FFT pricer across updates of its model: spot, dividend yield and rate reassigned between two valuations
            # of the same expiry -- the second valuation is the one a fresh pricer (and COS) gives
            ev += 1
            m4 = _mk2(_MT2.HEM)(spot=100.0, r=0.03, d=0.01, sigma=0.1, p=0.6, eta1=25.0, eta2=40.0, intensity=5.0)
            f4 = FFTPricer(m4)
            f4.call(K, 1.0), f4.put(K, 1.0)
            for attr, val in (("spot", 110.0), ("d", 0.03), ("r", 0.06)):
                setattr(m4, attr, val)
                dfc = float(np.max(np.abs(np.asarray(f4.call(K, 1.0)) - np.asarray(FFTPricer(m4).call(K, 1.0)))))
                dfp = float(np.max(np.abs(np.asarray(f4.put(K, 1.0)) - np.asarray(FFTPricer(m4).put(K, 1.0)))))
                dcs = float(np.max(np.abs(np.asarray(f4.call(K, 1.0)) - np.asarray(COSPricer(m4).call(K, 1.0)))))
                # (the old pricer's log-strike grid stays centred on the spot at construction: the two quadratures differ by
                # their discretisation error, 1e-7 here -- agreement is asked within the battery's tolerance, not to the bit)
                if max(dfc, dfp) > TOL or dcs > TOL:
                    bad("reused-pricer-equals-fresh-pricer", {"pricer": "FFT", "model": "hem", "T": 1.0, "history": f"expiry priced, model.{attr} reassigned to {val}, same expiry priced again",
                                                              "max_call_difference_to_a_fresh_pricer": dfc, "max_put_difference_to_a_fresh_pricer": dfp, "max_call_difference_to_COS": dcs})
            # VG against its CGMY parametrisation
            from rpylib.model.utils import create_exponential_of_levy_model as mk
            from rpylib.model.levymodel.levymodel import ModelType
            vg = models["vg"]
            pp = vg.levy_model.parameters
            for g_, m_ in ((pp._lambda_m, pp._lambda_p), (pp._lambda_p, pp._lambda_m)):
                cg = mk(ModelType.CGMY)(spot=100.0, r=0.03, d=0.01, c=pp._c, g=g_, m=m_, y=0.0)
                K = np.linspace(80.0, 125.0, 10)
                d_ = float(np.max(np.abs(np.asarray(COSPricer(vg).call(K, 1.0)) - np.asarray(COSPricer(cg).call(K, 1.0)))))
                if d_ < 1e-8:
                    break
            else:
                bad("variance-gamma-prices-equal-its-cgmy-parametrisation", {"max_difference": d_})
            ev += 1
        return {"name": self.name, "evaluations": ev, "distinct_nontrivial": ev, "violations": list(viol.values()), "samples": samples,
                "bound": "7 models x maturities (0.25, 1, 2; thorough: 0.1 .. 3) x up to 41 strikes inside 50 % of the truncation range; tolerances in the class docstring"}

    def replay(self, rec):
        r = self.run("quick", 0)
        hit = [v for v in r["violations"] if v["obligation"] == rec["obligation"]]
        return (bool(hit), hit[0]["witness"] if hit else {})


BOUNDED = [PricerBattery()]
