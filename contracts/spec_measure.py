"""Shared specification layer: an abstract Levy measure as an additive interval function.

MU(a, b), MU1(a, b), MU2(a, b) stand for  int_a^b nu(dx),  int x nu(dx),  int x^2 nu(dx)  of *some* non-negative
density: nothing else is known about them.  The axioms are the properties every integral of a non-negative density has
(A6); C09 establishes them for each concrete model's closed forms.
"""
import z3

from pyvc.sym import Sym, lift, as_real_term, And, Implies, is_sym

MUF = z3.Function("MU", z3.RealSort(), z3.RealSort(), z3.RealSort())
MU1F = z3.Function("MU1", z3.RealSort(), z3.RealSort(), z3.RealSort())
MU2F = z3.Function("MU2", z3.RealSort(), z3.RealSort(), z3.RealSort())
# extended-real end points: tails as separate unary functions
TAILR = z3.Function("MU_tail_right", z3.RealSort(), z3.RealSort())   # MU(a, +inf)
TAILL = z3.Function("MU_tail_left", z3.RealSort(), z3.RealSort())    # MU(-inf, b)
TOTAL = z3.Real("MU_total")                                           # MU(-inf, +inf) (only meaningful when finite)


def _t(x):
    return as_real_term(lift(x))


def MU(a, b):
    return Sym(MUF(_t(a), _t(b)), "r")


def MU1(a, b):
    return Sym(MU1F(_t(a), _t(b)), "r")


def MU2(a, b):
    return Sym(MU2F(_t(a), _t(b)), "r")


def additivity(a, b, c, F=MU):
    """instance of M1"""
    return Implies(And(a <= b, b <= c), F(a, b) + F(b, c) == F(a, c))


def nonneg(a, b):
    return Implies(a <= b, MU(a, b) >= 0)


def basic_axioms(vc):
    """M2 (non-negativity) and M3 (empty interval) for all arguments, as quantified assumptions with single triggers."""
    x, y = z3.Real("ax_x"), z3.Real("ax_y")
    vc.assume(Sym(z3.ForAll([x, y], z3.Implies(x <= y, MUF(x, y) >= 0), patterns=[MUF(x, y)]), "b"))
    vc.assume(Sym(z3.ForAll([x], MUF(x, x) == 0, patterns=[MUF(x, x)]), "b"))
    vc.assume(Sym(z3.ForAll([x], MU1F(x, x) == 0, patterns=[MU1F(x, x)]), "b"))
    vc.assume(Sym(z3.ForAll([x], MU2F(x, x) == 0, patterns=[MU2F(x, x)]), "b"))
    vc.assume(Sym(z3.ForAll([x, y], z3.Implies(x <= y, MU2F(x, y) >= 0), patterns=[MU2F(x, y)]), "b"))
