"""C14 — index/state enumerations are bijections.

Integer layer: contracts over unbounded mathematical integers; `floor(sqrt(z))` of an
integer z is the exact integer square root (lemma instances added by the library
model of floor∘sqrt, see pyvc/lib.py m_floor) — the float layer is the separate
bounded lemma `FloatRootLemma` below.
"""
import math

from pyvc.contract import FunctionContract, Lemma, VC, Req
from pyvc.interp import LoopSpec
from pyvc.sym import And, Or, Not, Implies, If, Eq, compare, smax, smin, is_sym, Sym

PROPERTY_ID = "C14"
LEVEL = "proof"
P = "rpylib.distribution.pairing:"


# ----------------------------------------------------------------- spec functions (from the literature, not the code)
def SZ(x, y):
    """Szudzik 'elegant' pairing."""
    return If(x >= y, x * x + x + y, x + y * y) if (is_sym(x) or is_sym(y)) else (x * x + x + y if x >= y else x + y * y)


def RS(x, y):
    """Rosenberg-Strong pairing, 2-d."""
    m = smax(x, y)
    return m * (m + 1) + x - y


def CANTOR2(x, y):
    """twice the Cantor pairing (kept doubled to stay in linear-integer-friendly form)."""
    return (x + y) * (x + y) + 3 * x + y


SPEC2D = {"Szudzik": SZ, "RosenbergStrong": RS}


def opaque(name):
    """Uninterpreted stand-in for a spec function: composition proofs see it only through proved lemmas
    (injectivity, value at the origin) -- the 'opaque / reveal' discipline that keeps NIA out of EUF+LIA proofs."""
    import z3
    from pyvc.sym import lift, as_int_term
    f = z3.Function("spec_" + name, z3.IntSort(), z3.IntSort(), z3.IntSort())

    def spec(x, y):
        return Sym(f(as_int_term(lift(x)), as_int_term(lift(y))), "i")
    return spec


def nonneg(*xs):
    return And(*[x >= 0 for x in xs])


def native(fq):
    import importlib
    modname, qual = fq.split(":")
    o = importlib.import_module(modname)
    for p in qual.split("."):
        o = getattr(o, p)
    return o


# ----------------------------------------------------------------- 2-d pairings
class Pairing2d(FunctionContract):
    prop = "C14"

    def __init__(self, cls, spec):
        self.cls, self.spec = cls, spec
        self.target = f"{P}{cls}.pairing2d"
        self.name = f"{cls}.pairing2d"

    def setup(self, vc, case):
        return dict(x=vc.int("x"), y=vc.int("y"))

    def requires(self, x, y):
        return nonneg(x, y)

    def ensures(self, result, x, y):
        return {"equals-spec": result == self.spec(x, y), "natural": result >= 0}

    def modular_result(self, vc, x, y):
        return vc.fresh("paired", "i")

    def replay(self, model, clause, case):
        x, y = model["x"], model["y"]
        r = native(self.target)(x, y)
        ok = self.ensures(r, x, y)[clause]
        return (not ok, {"input": [x, y], "native_result": r})


class Projection2d(FunctionContract):
    prop = "C14"

    def __init__(self, cls, spec):
        self.cls, self.spec = cls, spec
        self.target = f"{P}{cls}.projection2d"
        self.name = f"{cls}.projection2d"

    def setup(self, vc, case):
        return dict(z=vc.int("z"))

    def requires(self, z):
        return z >= 0

    def ensures(self, result, z):
        ok_shape = isinstance(result, tuple) and len(result) == 2
        if not ok_shape:
            return {"shape": False}
        a, b = result
        return {"natural-coordinates": nonneg(a, b), "right-inverse": self.spec(a, b) == z}

    def modular_result(self, vc, z):
        return (vc.fresh("p0", "i"), vc.fresh("p1", "i"))

    def replay(self, model, clause, case):
        z = model["z"]
        r = native(self.target)(z)
        e = self.ensures(tuple(int(v) for v in r), z)
        ok = e.get(clause, False)
        return (not ok, {"input": z, "native_result": list(r)})


class Injective2d(Lemma):
    """spec(x,y) = spec(u,v) on naturals implies (x,y) = (u,v): pure arithmetic over the spec function."""
    prop = "C14"

    def __init__(self, cls, spec):
        self.cls, self.spec = cls, spec
        self.name = f"lemma:{cls}.spec-injective"

    def statement(self, x, y, u, v):
        return Implies(And(nonneg(x, y, u, v), self.spec(x, y) == self.spec(u, v)), And(x == u, y == v))

    def prove(self, vc, case):
        x, y, u, v = vc.int("x"), vc.int("y"), vc.int("u"), vc.int("v")
        vc.assume(nonneg(x, y, u, v))
        # hints: the maxima agree (shell index), then linear
        m, n = smax(x, y), smax(u, v)
        vc.assume(self.spec(x, y) == self.spec(u, v))
        vc.check(f"{self.name}::same-shell", m == n)
        vc.check(f"{self.name}::injective", And(x == u, y == v))
        vc.check(f"{self.name}::zero-at-origin", self.spec(0, 0) == 0)


class Bijection2d(Lemma):
    """Property statement for one pairing class, from the two contracts and the injectivity lemma only."""
    prop = "C14"

    def __init__(self, cls, pair_c, proj_c, inj):
        self.cls, self.pair_c, self.proj_c, self.inj = cls, pair_c, proj_c, inj
        self.name = f"property:{cls}.2d-bijection"

    def prove(self, vc, case):
        x, y, z = vc.int("x"), vc.int("y"), vc.int("z")
        vc.assume(nonneg(x, y, z))
        # left inverse: projection(pairing(x, y)) == (x, y)
        w = vc.fresh("w", "i")
        vc.assume(And(*self.pair_c.ensures(w, x, y).values()))
        vc.check(f"{self.name}::pairing-lands-in-projection-domain", self.proj_c.requires(w))
        r = self.proj_c.modular_result(vc, w)
        vc.assume(And(*self.proj_c.ensures(r, w).values()))
        vc.assume(self.inj.statement(r[0], r[1], x, y))          # use(lemma) at (r, (x,y))
        vc.check(f"{self.name}::projection-after-pairing-is-identity", And(r[0] == x, r[1] == y))
        # right inverse: pairing(projection(z)) == z and projection(z) in N^2
        q = self.proj_c.modular_result(vc, z)
        vc.assume(And(*self.proj_c.ensures(q, z).values()))
        vc.check(f"{self.name}::projection-lands-in-pairing-domain", self.pair_c.requires(q[0], q[1]))
        w2 = vc.fresh("w2", "i")
        vc.assume(And(*self.pair_c.ensures(w2, q[0], q[1]).values()))
        vc.check(f"{self.name}::pairing-after-projection-is-identity", w2 == z)


UNITS = []
C = {}
for _cls, _spec in SPEC2D.items():
    pc, qc, inj = Pairing2d(_cls, _spec), Projection2d(_cls, _spec), Injective2d(_cls, _spec)
    C[_cls] = (pc, qc, inj)
    UNITS += [pc, qc, inj, Bijection2d(_cls, pc, qc, inj)]

ASSUMPTIONS = [
    "A1-exception: math.sqrt/floor are modelled exactly (floor(sqrt(z)) = integer square root); the float layer is the bounded FloatRootLemma",
    "Python ints are unbounded mathematical integers (true in CPython)",
]
TRUSTED_BASE = ["z3 5.1 (NIA)", "cvc5 1.4 on z3 unknowns", "pyvc interpreter + library models (pyvc/lib.py)"]
BOUNDED = []


# ----------------------------------------------------------------- Cantor
class EvenProduct(Lemma):
    """n(n+1) is even (z3 does not see the parity of a product unaided: explicit quotient/remainder instance)."""
    prop = "C14"
    name = "lemma:consecutive-product-even"

    def statement(self, n):
        return (n * (n + 1)) % 2 == 0

    def prove(self, vc, case):
        n = vc.int("n")
        k, r = n // 2, n % 2
        vc.check(f"{self.name}::expand", n * (n + 1) == 2 * (2 * k * k + 2 * k * r + k + r))
        vc.check(f"{self.name}::even", self.statement(n))


EVEN = EvenProduct()


class CantorPairing(Pairing2d):
    def __init__(self):
        super().__init__("Cantor", None)

    def setup(self, vc, case):
        a = super().setup(vc, case)
        vc.assume(EVEN.statement(a["x"] + a["y"]))     # use(lemma EvenProduct, x + y)
        return a

    def ensures(self, result, x, y):
        return {"equals-spec": 2 * result == CANTOR2(x, y), "natural": result >= 0}


class CantorProjection(Projection2d):
    """omega = floor((-1 + sqrt(1 + 8 z)) / 2) is the triangular root: w(w+1) <= 2z < (w+1)(w+2)."""

    def __init__(self):
        super().__init__("Cantor", None)

        def hint(L, vc):
            w, z = L.omega, L.z
            s = vc.interp.lib.m_isqrt(1 + 8 * z)
            vc.check("Cantor.projection2d::hint:root-bracket", And(2 * w + 1 <= s, s <= 2 * w + 2))
            vc.check("Cantor.projection2d::hint:w-natural", w >= 0)
            vc.check("Cantor.projection2d::hint:lower", (2 * w + 1) * (2 * w + 1) <= 1 + 8 * z)
            vc.check("Cantor.projection2d::hint:upper", 1 + 8 * z < (2 * w + 3) * (2 * w + 3))
            vc.check("Cantor.projection2d::hint:triangular-root", And(w * (w + 1) <= 2 * z, 2 * z < (w + 1) * (w + 2)))
            vc.assume(EVEN.statement(w))                # use(lemma EvenProduct, omega)
            h = (w * (w + 1)) // 2
            vc.check("Cantor.projection2d::hint:half-is-integer", And(2 * h == w * (w + 1), (w * (w + 3)) // 2 == h + w))
            vc.ghost["h"], vc.ghost["w"] = h, w
        self.hints = {"omega": hint}

    def ensures(self, result, z):
        if not (isinstance(result, tuple) and len(result) == 2):
            return {"shape": False}
        a, b = result
        out = {}
        from pyvc import ctx
        g = ctx.PATH.ghost if ctx.PATH is not None else {}
        if "h" in g:    # proof hint (prover only): the two truncations are exact
            out["hint:coordinates-exact"] = And(a == z - g["h"], b == g["h"] + g["w"] - z)
        out.update({"natural-coordinates": nonneg(a, b), "right-inverse": CANTOR2(a, b) == 2 * z})
        return out


class CantorInjective(Injective2d):
    def __init__(self):
        super().__init__("Cantor", CANTOR2)

    def prove(self, vc, case):
        x, y, u, v = vc.int("x"), vc.int("y"), vc.int("u"), vc.int("v")
        vc.assume(nonneg(x, y, u, v))
        vc.assume(CANTOR2(x, y) == CANTOR2(u, v))
        s, t = x + y, u + v
        # two-step lemma: equal anti-diagonals first
        vc.check(f"{self.name}::not-smaller-diagonal", Not(s < t))
        vc.check(f"{self.name}::not-larger-diagonal", Not(s > t))
        vc.check(f"{self.name}::injective", And(x == u, y == v))
        vc.check(f"{self.name}::zero-at-origin", CANTOR2(0, 0) == 0)


class CantorBijection(Bijection2d):
    pass


_cp, _cq, _ci = CantorPairing(), CantorProjection(), CantorInjective()
C["Cantor"] = (_cp, _cq, _ci)


class CantorBij(Lemma):
    prop = "C14"
    name = "property:Cantor.2d-bijection"

    def prove(self, vc, case):
        x, y, z = vc.int("x"), vc.int("y"), vc.int("z")
        vc.assume(nonneg(x, y, z))
        w = vc.fresh("w", "i")
        vc.assume(And(*_cp.ensures(w, x, y).values()))
        vc.check(f"{self.name}::pairing-lands-in-projection-domain", _cq.requires(w))
        r = _cq.modular_result(vc, w)
        vc.assume(And(*_cq.ensures(r, w).values()))
        vc.assume(_ci.statement(r[0], r[1], x, y))
        vc.check(f"{self.name}::projection-after-pairing-is-identity", And(r[0] == x, r[1] == y))
        q = _cq.modular_result(vc, z)
        vc.assume(And(*_cq.ensures(q, z).values()))
        w2 = vc.fresh("w2", "i")
        vc.assume(And(*_cp.ensures(w2, q[0], q[1]).values()))
        vc.check(f"{self.name}::pairing-after-projection-is-identity", w2 == z)


UNITS += [EVEN, _cp, _cq, _ci, CantorBij()]


# ----------------------------------------------------------------- Z <-> N foldings
def MZ(n):
    """0, 1, -1, 2, -2, ... -> 0, 1, 2, 3, 4, ...   (spec, from the property text)"""
    return If(n > 0, 2 * n - 1, -2 * n) if is_sym(n) else (2 * n - 1 if n > 0 else -2 * n)


class MappingToZ(FunctionContract):
    prop = "C14"
    target = P + "mapping_to_z"
    name = "mapping_to_z"

    def setup(self, vc, case):
        return dict(n=vc.int("n"))

    def ensures(self, result, n):
        return {"equals-spec": result == MZ(n), "natural": result >= 0, "zero-iff-zero": (result == 0) == (n == 0)}

    def modular_result(self, vc, n):
        return vc.fresh("mz", "i")

    def replay(self, model, clause, case):
        n = model["n"]
        r = native(self.target)(n)
        return (not self.ensures(r, n)[clause], {"input": n, "native_result": r})


class ProjectionToZ(FunctionContract):
    prop = "C14"
    target = P + "projection_to_z"
    name = "projection_to_z"

    def setup(self, vc, case):
        return dict(z=vc.int("z"))

    def requires(self, z):
        return z >= 0

    def ensures(self, result, z):
        return {"right-inverse": MZ(result) == z, "zero-iff-zero": (result == 0) == (z == 0)}

    def modular_result(self, vc, z):
        return vc.fresh("pz", "i")

    def replay(self, model, clause, case):
        z = model["z"]
        r = native(self.target)(z)
        return (not self.ensures(r, z)[clause], {"input": z, "native_result": r})


class FoldingBijection(Lemma):
    prop = "C14"
    name = "property:Z-folding-bijection"

    def prove(self, vc, case):
        n, k, z = vc.int("n"), vc.int("k"), vc.int("z")
        vc.check(f"{self.name}::spec-injective", Implies(MZ(n) == MZ(k), n == k))
        m, p = MappingToZ(), ProjectionToZ()
        w = vc.fresh("w", "i")
        vc.assume(And(*m.ensures(w, n).values()))
        vc.check(f"{self.name}::mapping-lands-in-domain", p.requires(w))
        r = vc.fresh("r", "i")
        vc.assume(And(*p.ensures(r, w).values()))
        vc.check(f"{self.name}::projection-after-mapping", r == n)
        vc.assume(z >= 0)
        q = vc.fresh("q", "i")
        vc.assume(And(*p.ensures(q, z).values()))
        w2 = vc.fresh("w2", "i")
        vc.assume(And(*m.ensures(w2, q).values()))
        vc.check(f"{self.name}::mapping-after-projection", w2 == z)


UNITS += [MappingToZ(), ProjectionToZ(), FoldingBijection()]


# ----------------------------------------------------------------- N^d pairings by nesting (Pairing.pairing / .projection), d = 3
class NestedPairing3(Lemma):
    """Pairing.pairing((x0,x1,x2)) and Pairing.projection(z, 3): real bodies, 2-d maps through their contracts."""
    prop = "C14"

    def __init__(self, cls):
        self.cls = cls
        self.name = f"property:{cls}.3d-bijection"

    def prove(self, vc, case):
        it = vc.interp
        pc, qc, inj = C[self.cls]
        it.modular = {pc.target: pc, qc.target: qc}
        o = vc.obj(P + self.cls)
        x = tuple(vc.ints("x", 3))
        z = vc.int("z")
        vc.assume(nonneg(*x, z))
        w = it.call(it.getattr(o, "pairing"), [x], {})
        vc.check(f"{self.name}::pairing-natural", w >= 0)
        r = it.call(it.getattr(o, "projection"), [w, 3], {})
        vc.check(f"{self.name}::projection-shape", isinstance(r, tuple) and len(r) == 3)
        # inner value p with spec(p, x2) = spec(spec(x0,x1), x2); injectivity twice
        sp = pc.spec if pc.spec is not None else None
        inner = vc.fresh("inner", "i")
        vc.assume(And(*pc.ensures(inner, x[0], x[1]).values()))
        vc.ghost["inner"] = inner
        for a, b, c, d in self._instances(vc, r, x, inner):
            vc.assume(inj.statement(a, b, c, d))
        vc.check(f"{self.name}::projection-after-pairing-is-identity", And(*[ri == xi for ri, xi in zip(r, x)]))
        q = it.call(it.getattr(o, "projection"), [z, 3], {})
        vc.check(f"{self.name}::projection-natural", nonneg(*q))
        w2 = it.call(it.getattr(o, "pairing"), [tuple(q)], {})
        vc.check(f"{self.name}::pairing-after-projection-is-identity", w2 == z)

    def _instances(self, vc, r, x, inner):
        # the projection produced (p, r2) with spec(p, r2) = w, then (r0, r1) with spec(r0, r1) = p
        p = vc.fresh("p", "i")
        pc, qc, inj = C[self.cls]
        vc.assume(And(*pc.ensures(p, r[0], r[1]).values()))   # p := pairing2d(r0, r1)  (defines p; total function)
        return [(p, r[2], inner, x[2]), (r[0], r[1], x[0], x[1])]

    def replay(self, model, clause, case):
        o = native(P + self.cls)()
        x = tuple(model.get("x", [0, 0, 0]))
        z = model.get("z", 0)
        info = {"x": list(x), "z": z}
        try:
            w = o.pairing(x)
            r = tuple(int(v) for v in o.projection(w, 3))
            q = tuple(int(v) for v in o.projection(z, 3))
            w2 = o.pairing(q)
            info.update(pairing=w, projection_of_pairing=list(r), projection=list(q), pairing_of_projection=w2)
            bad = r != x or w2 != z or any(v < 0 for v in q)
        except Exception as e:
            info["exception"] = f"{type(e).__name__}: {e}"
            bad = True
        return (bad, info)


UNITS += [NestedPairing3("Szudzik")]


# ----------------------------------------------------------------- PairingToZd: N <-> Z^d \ {0}
class ZdBijection(Lemma):
    """pair/project of PairingToZd (omit_zero=True): real bodies of pair, project, pairing, projection, the nested
    Pairing.pairing/projection and the two foldings; the 2-d natural pairing through its contract."""
    prop = "C14"

    def __init__(self, cls, d):
        self.cls, self.d = cls, d
        self.name = f"property:PairingToZd[{cls},d={d}].bijection"

    def prove(self, vc, case):
        it = vc.interp
        S = opaque(self.cls)
        # contracts restated over the opaque spec (for Cantor S stands for the doubled value's half, i.e. the pairing itself)
        pc, qc = Pairing2d(self.cls, S), Projection2d(self.cls, S)
        inj = Injective2d(self.cls, S)      # statement schema only; proved with the revealed spec in its own unit
        vc.assume(S(0, 0) == 0)             # use(lemma zero-at-origin)
        mz, pz = MappingToZ(), ProjectionToZ()
        it.modular = {pc.target: pc, qc.target: qc, mz.target: mz, pz.target: pz}
        d = self.d
        o = vc.obj(P + "PairingToZd", n_pairing=vc.obj(P + self.cls), dimension=d, _omitting_zero=1)
        i = vc.int("i")
        vc.assume(i >= 0)
        s = it.call(it.getattr(o, "project"), [i], {})
        vc.check(f"{self.name}::state-shape", isinstance(s, tuple) and len(s) == d)
        vc.check(f"{self.name}::never-the-origin", Or(*[c != 0 for c in s]))
        back = it.call(it.getattr(o, "pair"), [tuple(s)], {})
        vc.check(f"{self.name}::index-of-state-inverts-state-of-index", back == i)
        x = tuple(vc.ints("x", d))
        vc.assume(Or(*[c != 0 for c in x]))
        ys0 = [MZ(c) for c in x]
        vc.assume(inj.statement(ys0[0], ys0[1], 0, 0))                   # use(injectivity) at the origin
        if d == 3:
            p0 = vc.fresh("p0", "i")
            vc.assume(And(*pc.ensures(p0, ys0[0], ys0[1]).values()))
            vc.assume(inj.statement(p0, ys0[2], 0, 0))
        j = it.call(it.getattr(o, "pair"), [x], {})
        vc.check(f"{self.name}::index-natural", j >= 0)
        t = it.call(it.getattr(o, "project"), [j], {})
        # injectivity instances for the nested 2-d pairings
        ys = [MZ(c) for c in x]
        ts = [MZ(c) for c in t]
        if d == 2:
            vc.assume(inj.statement(ts[0], ts[1], ys[0], ys[1]))
        else:
            pa, pb = vc.fresh("pa", "i"), vc.fresh("pb", "i")
            vc.assume(And(*pc.ensures(pa, ts[0], ts[1]).values()))
            vc.assume(And(*pc.ensures(pb, ys[0], ys[1]).values()))
            vc.assume(inj.statement(pa, ts[2], pb, ys[2]))
            vc.assume(inj.statement(ts[0], ts[1], ys[0], ys[1]))
        vc.check(f"{self.name}::state-of-index-inverts-index-of-state", And(*[a == b for a, b in zip(t, x)]))

    def replay(self, model, clause, case):
        mod = native(P + "PairingToZd")
        o = mod(native(P + self.cls)(), self.d, True)
        i = model.get("i", 0)
        x = tuple(model.get("x", [1] * self.d))
        info = {"i": i, "x": list(x)}
        try:
            s = tuple(int(v) for v in o.project(i))
            back = o.pair(s)
            j = o.pair(x)
            t = tuple(int(v) for v in o.project(j))
            info.update(project_i=list(s), pair_back=back, pair_x=j, project_back=list(t))
            bad = back != i or all(c == 0 for c in s) or t != x or j < 0
        except Exception as e:
            info["exception"] = f"{type(e).__name__}: {e}"
            bad = True
        return (bad, info)


UNITS += [ZdBijection("Szudzik", 2), ZdBijection("Szudzik", 3), ZdBijection("Cantor", 2)]


# ----------------------------------------------------------------- PairingToZ1d: N <-> [-L, R] \ {0}
class Z1dBijection(Lemma):
    """State-of-index on [l, r] (l < 0 < r): every index i in [0, L+R) gives a distinct non-zero state inside the
    interval, pair inverts it, and the result is a function of the index alone (any call order)."""
    prop = "C14"
    cases = ("L<R", "L>R", "L=R")

    def __init__(self):
        self.name = "property:PairingToZ1d.bijection"

    def _mk(self, vc, case):
        it = vc.interp
        l, r = vc.int("l"), vc.int("r")
        vc.assume(And(l < 0, r > 0))
        vc.assume({"L<R": -l < r, "L>R": -l > r, "L=R": -l == r}[case])
        cls = it.get_class(P + "PairingToZ1d")
        o = it.instantiate(cls, [(l, r)], {})
        return it, o, l, r

    def prove(self, vc, case):
        it, o, l, r = self._mk(vc, case)
        n = self.name + f"[{case}]"
        i, j = vc.int("i"), vc.int("j")
        total = r - l
        vc.assume(And(i >= 0, i < total, j >= 0, j < total, i != j))
        # history: an arbitrary earlier call on another index j, then index i (cache dropped: project is the raw body)
        sj = it.call(it.getattr(o, "project"), [j], {})
        si = it.call(it.getattr(o, "project"), [i], {})
        vc.check(f"{n}::state-inside-interval", And(l <= si, si <= r))
        vc.check(f"{n}::never-the-origin", si != 0)
        back = it.call(it.getattr(o, "pair"), [si], {})
        vc.check(f"{n}::index-of-state-inverts-state-of-index", back == i)
        # same index on a fresh object (no earlier call) must give the same state
        it2, o2, _, _ = it, it.instantiate(it.get_class(P + "PairingToZ1d"), [(l, r)], {}), l, r
        si_fresh = it.call(it.getattr(o2, "project"), [i], {})
        vc.check(f"{n}::independent-of-call-order", si == si_fresh)
        x = vc.int("x")
        vc.assume(And(l <= x, x <= r, x != 0))
        k = it.call(it.getattr(o2, "pair"), [x], {})
        vc.check(f"{n}::index-in-range", And(k >= 0, k < total))

    def replay(self, model, clause, case):
        cls = native(P + "PairingToZ1d")
        l, r, i, j = model.get("l", -2), model.get("r", 5), model.get("i", 0), model.get("j", 1)
        o, o2 = cls((l, r)), cls((l, r))
        info = {"interval": [l, r], "i": i, "j": j}
        try:
            # bypass functools.cache on project: call the undecorated body in the same order as the proof
            raw = cls.project.__wrapped__
            sj = raw(o, j)
            si = raw(o, i)
            fresh = raw(o2, i)
            back = o.pair(si)
            info.update(project_j=sj, project_i_after_j=si, project_i_fresh=fresh, pair_back=back)
            bad = not (l <= si <= r) or si == 0 or back != i or si != fresh
            if "x" in model:
                k = o2.pair(model["x"])
                info["pair_x"] = k
                bad = bad or not (0 <= k < r - l)
        except Exception as e:
            info["exception"] = f"{type(e).__name__}: {e}"
            bad = True
        return (bad, info)


UNITS += [Z1dBijection()]
