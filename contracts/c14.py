"""C14 — index/state enumerations are bijections.

Integer layer: contracts over unbounded mathematical integers; `floor(sqrt(z))` of an
integer z is the exact integer square root (lemma instances added by the library
model of floor∘sqrt, see pyvc/lib.py m_floor) — the float layer is the separate
bounded lemma `FloatRootLemma` below.
"""
import math

from pyvc.contract import FunctionContract, Lemma, VC, Req
from pyvc.interp import LoopSpec
from pyvc.sym import And, Or, Not, Implies, If, Eq, compare, smax, smin, is_sym, Sym

PROPERTY_ID = "C14"
LEVEL = "proof"
P = "rpylib.distribution.pairing:"


# ----------------------------------------------------------------- spec functions (from the literature, not the code)
def SZ(x, y):
    """Szudzik 'elegant' pairing."""
    return If(x >= y, x * x + x + y, x + y * y) if (is_sym(x) or is_sym(y)) else (x * x + x + y if x >= y else x + y * y)


def RS(x, y):
    """Rosenberg-Strong pairing, 2-d."""
    m = smax(x, y)
    return m * (m + 1) + x - y


def CANTOR2(x, y):
    """twice the Cantor pairing (kept doubled to stay in linear-integer-friendly form)."""
    return (x + y) * (x + y) + 3 * x + y


SPEC2D = {"Szudzik": SZ, "RosenbergStrong": RS}


def opaque(name):
    """Uninterpreted stand-in for a spec function: composition proofs see it only through proved lemmas
    (injectivity, value at the origin) -- the 'opaque / reveal' discipline that keeps NIA out of EUF+LIA proofs."""
    import z3
    from pyvc.sym import lift, as_int_term
    f = z3.Function("spec_" + name, z3.IntSort(), z3.IntSort(), z3.IntSort())

    def spec(x, y):
        return Sym(f(as_int_term(lift(x)), as_int_term(lift(y))), "i")
    return spec


def nonneg(*xs):
    return And(*[x >= 0 for x in xs])


def native(fq):
    import importlib
    modname, qual = fq.split(":")
    o = importlib.import_module(modname)
    for p in qual.split("."):
        o = getattr(o, p)
    return o


# ----------------------------------------------------------------- 2-d pairings
class Pairing2d(FunctionContract):
    prop = "C14"

    def __init__(self, cls, spec):
        self.cls, self.spec = cls, spec
        self.target = f"{P}{cls}.pairing2d"
        self.name = f"{cls}.pairing2d"

    def setup(self, vc, case):
        return dict(x=vc.int("x"), y=vc.int("y"))

    def requires(self, x, y):
        return nonneg(x, y)

    def ensures(self, result, x, y):
        return {"equals-spec": result == self.spec(x, y), "natural": result >= 0}

    def modular_result(self, vc, x, y):
        return vc.fresh("paired", "i")

    def replay(self, model, clause, case):
        x, y = model["x"], model["y"]
        r = native(self.target)(x, y)
        ok = self.ensures(r, x, y)[clause]
        return (not ok, {"input": [x, y], "native_result": r})


class Projection2d(FunctionContract):
    prop = "C14"

    def __init__(self, cls, spec):
        self.cls, self.spec = cls, spec
        self.target = f"{P}{cls}.projection2d"
        self.name = f"{cls}.projection2d"

    def setup(self, vc, case):
        return dict(z=vc.int("z"))

    def requires(self, z):
        return z >= 0

    def ensures(self, result, z):
        ok_shape = isinstance(result, tuple) and len(result) == 2
        if not ok_shape:
            return {"shape": False}
        a, b = result
        return {"natural-coordinates": nonneg(a, b), "right-inverse": self.spec(a, b) == z}

    def modular_result(self, vc, z):
        return (vc.fresh("p0", "i"), vc.fresh("p1", "i"))

    def replay(self, model, clause, case):
        z = model["z"]
        r = native(self.target)(z)
        e = self.ensures(tuple(int(v) for v in r), z)
        ok = e.get(clause, False)
        return (not ok, {"input": z, "native_result": list(r)})


class Injective2d(Lemma):
    """spec(x,y) = spec(u,v) on naturals implies (x,y) = (u,v): pure arithmetic over the spec function."""
    prop = "C14"

    def __init__(self, cls, spec):
        self.cls, self.spec = cls, spec
        self.name = f"lemma:{cls}.spec-injective"

    def statement(self, x, y, u, v):
        return Implies(And(nonneg(x, y, u, v), self.spec(x, y) == self.spec(u, v)), And(x == u, y == v))

    def prove(self, vc, case):
        x, y, u, v = vc.int("x"), vc.int("y"), vc.int("u"), vc.int("v")
        vc.assume(nonneg(x, y, u, v))
        # hints: the maxima agree (shell index), then linear
        m, n = smax(x, y), smax(u, v)
        vc.assume(self.spec(x, y) == self.spec(u, v))
        vc.check(f"{self.name}::same-shell", m == n)
        vc.check(f"{self.name}::injective", And(x == u, y == v))
        vc.check(f"{self.name}::zero-at-origin", self.spec(0, 0) == 0)


class Bijection2d(Lemma):
    """Property statement for one pairing class, from the two contracts and the injectivity lemma only."""
    prop = "C14"

    def __init__(self, cls, pair_c, proj_c, inj):
        self.cls, self.pair_c, self.proj_c, self.inj = cls, pair_c, proj_c, inj
        self.name = f"property:{cls}.2d-bijection"

    def prove(self, vc, case):
        x, y, z = vc.int("x"), vc.int("y"), vc.int("z")
        vc.assume(nonneg(x, y, z))
        # left inverse: projection(pairing(x, y)) == (x, y)
        w = vc.fresh("w", "i")
        vc.assume(And(*self.pair_c.ensures(w, x, y).values()))
        vc.check(f"{self.name}::pairing-lands-in-projection-domain", self.proj_c.requires(w))
        r = self.proj_c.modular_result(vc, w)
        vc.assume(And(*self.proj_c.ensures(r, w).values()))
        vc.assume(self.inj.statement(r[0], r[1], x, y))          # use(lemma) at (r, (x,y))
        vc.check(f"{self.name}::projection-after-pairing-is-identity", And(r[0] == x, r[1] == y))
        # right inverse: pairing(projection(z)) == z and projection(z) in N^2
        q = self.proj_c.modular_result(vc, z)
        vc.assume(And(*self.proj_c.ensures(q, z).values()))
        vc.check(f"{self.name}::projection-lands-in-pairing-domain", self.pair_c.requires(q[0], q[1]))
        w2 = vc.fresh("w2", "i")
        vc.assume(And(*self.pair_c.ensures(w2, q[0], q[1]).values()))
        vc.check(f"{self.name}::pairing-after-projection-is-identity", w2 == z)


UNITS = []
C = {}
for _cls, _spec in SPEC2D.items():
    pc, qc, inj = Pairing2d(_cls, _spec), Projection2d(_cls, _spec), Injective2d(_cls, _spec)
    C[_cls] = (pc, qc, inj)
    UNITS += [pc, qc, inj, Bijection2d(_cls, pc, qc, inj)]

ASSUMPTIONS = [
    "A1-exception: math.sqrt/floor are modelled exactly (floor(sqrt(z)) = integer square root); the float layer is the bounded FloatRootLemma",
    "Python ints are unbounded mathematical integers (true in CPython)",
]
TRUSTED_BASE = ["z3 5.1 (NIA)", "cvc5 1.4 on z3 unknowns", "pyvc interpreter + library models (pyvc/lib.py)"]
BOUNDED = []


# ----------------------------------------------------------------- Cantor
class EvenProduct(Lemma):
    """n(n+1) is even (z3 does not see the parity of a product unaided: explicit quotient/remainder instance)."""
    prop = "C14"
    name = "lemma:consecutive-product-even"

    def statement(self, n):
        return (n * (n + 1)) % 2 == 0

    def prove(self, vc, case):
        n = vc.int("n")
        k, r = n // 2, n % 2
        vc.check(f"{self.name}::expand", n * (n + 1) == 2 * (2 * k * k + 2 * k * r + k + r))
        vc.check(f"{self.name}::even", self.statement(n))


EVEN = EvenProduct()


class CantorPairing(Pairing2d):
    def __init__(self):
        super().__init__("Cantor", None)

    def setup(self, vc, case):
        a = super().setup(vc, case)
        vc.assume(EVEN.statement(a["x"] + a["y"]))     # use(lemma EvenProduct, x + y)
        return a

    def ensures(self, result, x, y):
        return {"equals-spec": 2 * result == CANTOR2(x, y), "natural": result >= 0}


class CantorProjection(Projection2d):
    """omega = floor((-1 + sqrt(1 + 8 z)) / 2) is the triangular root: w(w+1) <= 2z < (w+1)(w+2)."""

    def __init__(self):
        super().__init__("Cantor", None)

        def hint(L, vc):
            w, z = L.omega, L.z
            s = vc.interp.lib.m_isqrt(1 + 8 * z)
            vc.check("Cantor.projection2d::hint:root-bracket", And(2 * w + 1 <= s, s <= 2 * w + 2))
            vc.check("Cantor.projection2d::hint:w-natural", w >= 0)
            vc.check("Cantor.projection2d::hint:lower", (2 * w + 1) * (2 * w + 1) <= 1 + 8 * z)
            vc.check("Cantor.projection2d::hint:upper", 1 + 8 * z < (2 * w + 3) * (2 * w + 3))
            vc.check("Cantor.projection2d::hint:triangular-root", And(w * (w + 1) <= 2 * z, 2 * z < (w + 1) * (w + 2)))
            vc.assume(EVEN.statement(w))                # use(lemma EvenProduct, omega)
            h = (w * (w + 1)) // 2
            vc.check("Cantor.projection2d::hint:half-is-integer", And(2 * h == w * (w + 1), (w * (w + 3)) // 2 == h + w))
            vc.ghost["h"], vc.ghost["w"] = h, w
        self.hints = {"omega": hint}

    def ensures(self, result, z):
        if not (isinstance(result, tuple) and len(result) == 2):
            return {"shape": False}
        a, b = result
        out = {}
        from pyvc import ctx
        g = ctx.PATH.ghost if ctx.PATH is not None else {}
        if "h" in g:    # proof hint (prover only): the two truncations are exact
            out["hint:coordinates-exact"] = And(a == z - g["h"], b == g["h"] + g["w"] - z)
        out.update({"natural-coordinates": nonneg(a, b), "right-inverse": CANTOR2(a, b) == 2 * z})
        return out


class CantorInjective(Injective2d):
    def __init__(self):
        super().__init__("Cantor", CANTOR2)

    def prove(self, vc, case):
        x, y, u, v = vc.int("x"), vc.int("y"), vc.int("u"), vc.int("v")
        vc.assume(nonneg(x, y, u, v))
        vc.assume(CANTOR2(x, y) == CANTOR2(u, v))
        s, t = x + y, u + v
        # two-step lemma: equal anti-diagonals first
        vc.check(f"{self.name}::not-smaller-diagonal", Not(s < t))
        vc.check(f"{self.name}::not-larger-diagonal", Not(s > t))
        vc.check(f"{self.name}::injective", And(x == u, y == v))
        vc.check(f"{self.name}::zero-at-origin", CANTOR2(0, 0) == 0)


class CantorBijection(Bijection2d):
    pass


_cp, _cq, _ci = CantorPairing(), CantorProjection(), CantorInjective()
C["Cantor"] = (_cp, _cq, _ci)


class CantorBij(Lemma):
    prop = "C14"
    name = "property:Cantor.2d-bijection"

    def prove(self, vc, case):
        x, y, z = vc.int("x"), vc.int("y"), vc.int("z")
        vc.assume(nonneg(x, y, z))
        w = vc.fresh("w", "i")
        vc.assume(And(*_cp.ensures(w, x, y).values()))
        vc.check(f"{self.name}::pairing-lands-in-projection-domain", _cq.requires(w))
        r = _cq.modular_result(vc, w)
        vc.assume(And(*_cq.ensures(r, w).values()))
        vc.assume(_ci.statement(r[0], r[1], x, y))
        vc.check(f"{self.name}::projection-after-pairing-is-identity", And(r[0] == x, r[1] == y))
        q = _cq.modular_result(vc, z)
        vc.assume(And(*_cq.ensures(q, z).values()))
        w2 = vc.fresh("w2", "i")
        vc.assume(And(*_cp.ensures(w2, q[0], q[1]).values()))
        vc.check(f"{self.name}::pairing-after-projection-is-identity", w2 == z)


UNITS += [EVEN, _cp, _cq, _ci, CantorBij()]


# ----------------------------------------------------------------- Z <-> N foldings
def MZ(n):
    """0, 1, -1, 2, -2, ... -> 0, 1, 2, 3, 4, ...   (spec, from the property text)"""
    return If(n > 0, 2 * n - 1, -2 * n) if is_sym(n) else (2 * n - 1 if n > 0 else -2 * n)


class MappingToZ(FunctionContract):
    prop = "C14"
    target = P + "mapping_to_z"
    name = "mapping_to_z"

    def setup(self, vc, case):
        return dict(n=vc.int("n"))

    def ensures(self, result, n):
        return {"equals-spec": result == MZ(n), "natural": result >= 0, "zero-iff-zero": (result == 0) == (n == 0)}

    def modular_result(self, vc, n):
        return vc.fresh("mz", "i")

    def replay(self, model, clause, case):
        n = model["n"]
        r = native(self.target)(n)
        return (not self.ensures(r, n)[clause], {"input": n, "native_result": r})


class ProjectionToZ(FunctionContract):
    prop = "C14"
    target = P + "projection_to_z"
    name = "projection_to_z"

    def setup(self, vc, case):
        return dict(z=vc.int("z"))

    def requires(self, z):
        return z >= 0

    def ensures(self, result, z):
        return {"right-inverse": MZ(result) == z, "zero-iff-zero": (result == 0) == (z == 0)}

    def modular_result(self, vc, z):
        return vc.fresh("pz", "i")

    def replay(self, model, clause, case):
        z = model["z"]
        r = native(self.target)(z)
        return (not self.ensures(r, z)[clause], {"input": z, "native_result": r})


class FoldingBijection(Lemma):
    prop = "C14"
    name = "property:Z-folding-bijection"

    def prove(self, vc, case):
        n, k, z = vc.int("n"), vc.int("k"), vc.int("z")
        vc.check(f"{self.name}::spec-injective", Implies(MZ(n) == MZ(k), n == k))
        m, p = MappingToZ(), ProjectionToZ()
        w = vc.fresh("w", "i")
        vc.assume(And(*m.ensures(w, n).values()))
        vc.check(f"{self.name}::mapping-lands-in-domain", p.requires(w))
        r = vc.fresh("r", "i")
        vc.assume(And(*p.ensures(r, w).values()))
        vc.check(f"{self.name}::projection-after-mapping", r == n)
        vc.assume(z >= 0)
        q = vc.fresh("q", "i")
        vc.assume(And(*p.ensures(q, z).values()))
        w2 = vc.fresh("w2", "i")
        vc.assume(And(*m.ensures(w2, q).values()))
        vc.check(f"{self.name}::mapping-after-projection", w2 == z)


UNITS += [MappingToZ(), ProjectionToZ(), FoldingBijection()]


# ----------------------------------------------------------------- N^d pairings by nesting (Pairing.pairing / .projection), d = 3
class NestedPairing3(Lemma):
    """Pairing.pairing((x0,x1,x2)) and Pairing.projection(z, 3): real bodies, 2-d maps through their contracts."""
    prop = "C14"

    def __init__(self, cls):
        self.cls = cls
        self.name = f"property:{cls}.3d-bijection"

    def prove(self, vc, case):
        it = vc.interp
        pc, qc, inj = C[self.cls]
        it.modular = {pc.target: pc, qc.target: qc}
        o = vc.obj(P + self.cls)
        x = tuple(vc.ints("x", 3))
        z = vc.int("z")
        vc.assume(nonneg(*x, z))
        w = it.call(it.getattr(o, "pairing"), [x], {})
        vc.check(f"{self.name}::pairing-natural", w >= 0)
        r = it.call(it.getattr(o, "projection"), [w, 3], {})
        vc.check(f"{self.name}::projection-shape", isinstance(r, tuple) and len(r) == 3)
        # inner value p with spec(p, x2) = spec(spec(x0,x1), x2); injectivity twice
        sp = pc.spec if pc.spec is not None else None
        inner = vc.fresh("inner", "i")
        vc.assume(And(*pc.ensures(inner, x[0], x[1]).values()))
        vc.ghost["inner"] = inner
        for a, b, c, d in self._instances(vc, r, x, inner):
            vc.assume(inj.statement(a, b, c, d))
        vc.check(f"{self.name}::projection-after-pairing-is-identity", And(*[ri == xi for ri, xi in zip(r, x)]))
        q = it.call(it.getattr(o, "projection"), [z, 3], {})
        vc.check(f"{self.name}::projection-natural", nonneg(*q))
        w2 = it.call(it.getattr(o, "pairing"), [tuple(q)], {})
        vc.check(f"{self.name}::pairing-after-projection-is-identity", w2 == z)

    def _instances(self, vc, r, x, inner):
        # the projection produced (p, r2) with spec(p, r2) = w, then (r0, r1) with spec(r0, r1) = p
        p = vc.fresh("p", "i")
        pc, qc, inj = C[self.cls]
        vc.assume(And(*pc.ensures(p, r[0], r[1]).values()))   # p := pairing2d(r0, r1)  (defines p; total function)
        return [(p, r[2], inner, x[2]), (r[0], r[1], x[0], x[1])]

    def replay(self, model, clause, case):
        o = native(P + self.cls)()
        x = tuple(model.get("x", [0, 0, 0]))
        z = model.get("z", 0)
        info = {"x": list(x), "z": z}
        try:
            w = o.pairing(x)
            r = tuple(int(v) for v in o.projection(w, 3))
            q = tuple(int(v) for v in o.projection(z, 3))
            w2 = o.pairing(q)
            info.update(pairing=w, projection_of_pairing=list(r), projection=list(q), pairing_of_projection=w2)
            bad = r != x or w2 != z or any(v < 0 for v in q)
        except Exception as e:
            info["exception"] = f"{type(e).__name__}: {e}"
            bad = True
        return (bad, info)


UNITS += [NestedPairing3("Szudzik")]


# ----------------------------------------------------------------- N^d pairings by nesting: induction over the dimension
def nested_spec(spec2, x):
    """spec_d(x) = spec2(spec_{d-1}(x[:-1]), x[-1]),  spec_2 = spec2"""
    acc = spec2(x[0], x[1])
    for c in x[2:]:
        acc = spec2(acc, c)
    return acc


class NestedPairingRec(FunctionContract):
    """Pairing.pairing(x), x in N^d (real recursive body; the recursive call at dimension d-1 through THIS contract, the 2-d
    map through its contract): the result is the nested spec value -- the induction step, instantiated at d = 3, 4, 5."""
    prop = "C14"
    cases = (3, 4, 5)

    def __init__(self, cls):
        self.cls = cls
        self.spec2 = C[cls][0].spec
        self.target = f"{P}Pairing.pairing"
        self.name = f"{cls}.pairing[nested]"
        self.modular = (C[cls][0],)

    def configure(self, interp):
        interp.modular[self.target] = self

    def setup(self, vc, d):
        return dict(self=vc.obj(P + self.cls), x=tuple(vc.ints("x", d)))

    def requires(self, self_=None, x=None, **kw):
        return nonneg(*x)

    def ensures(self, result, self_=None, x=None, **kw):
        if len(x) == 2:
            return {"equals-nested-spec": result == self.spec2(x[0], x[1]), "natural": result >= 0}
        return {"equals-nested-spec": result == nested_spec(self.spec2, x), "natural": result >= 0}

    def modular_result(self, vc, self_=None, x=None, **kw):
        return vc.fresh("nested", "i")

    def replay(self, model, clause, d):
        o = native(P + self.cls)()
        x = tuple(int(v) for v in (model or {}).get("x", [1] * d))
        sp = lambda a, b: int(native(f"{P}{self.cls}.pairing2d")(a, b))
        want = sp(x[0], x[1])
        for c in x[2:]:
            want = sp(want, c)
        try:
            got = int(o.pairing(x))
        except Exception as e:
            return (True, {"x": list(x), "exception": f"{type(e).__name__}: {e}"})
        return (got != want, {"x": list(x), "pairing": got, "nested_2d_value": want})


class NestedProjectionRec(FunctionContract):
    """Pairing.projection(z, d) (real recursive body; recursive call at d-1 through THIS contract, 2-d projection through its
    contract): a d-tuple of naturals whose nested spec value is z -- induction step at d = 3, 4, 5."""
    prop = "C14"
    cases = (3, 4, 5)

    def __init__(self, cls):
        self.cls = cls
        self.spec2 = C[cls][0].spec
        self.target = f"{P}Pairing.projection"
        self.name = f"{cls}.projection[nested]"
        self.modular = (C[cls][1],)

    def configure(self, interp):
        interp.modular[self.target] = self

    def setup(self, vc, d):
        return dict(self=vc.obj(P + self.cls), z=vc.int("z"), dim=d)

    def requires(self, self_=None, z=None, dim=None, **kw):
        return z >= 0

    def ensures(self, result, self_=None, z=None, dim=None, **kw):
        if not (isinstance(result, tuple) and len(result) == dim):
            return {"shape": False}
        return {"shape": True, "natural-coordinates": nonneg(*result), "right-inverse": nested_spec(self.spec2, result) == z}

    def modular_result(self, vc, self_=None, z=None, dim=None, **kw):
        return tuple(vc.fresh(f"q{i}", "i") for i in range(dim))

    def replay(self, model, clause, d):
        o = native(P + self.cls)()
        z = int((model or {}).get("z", 12345))
        try:
            r = tuple(int(v) for v in o.projection(z, d))
        except Exception as e:
            return (True, {"z": z, "dim": d, "exception": f"{type(e).__name__}: {e}"})
        sp = lambda a, b: int(native(f"{P}{self.cls}.pairing2d")(a, b))
        ok = len(r) == d and all(v >= 0 for v in r)
        if ok:
            acc = sp(r[0], r[1])
            for c in r[2:]:
                acc = sp(acc, c)
            ok = acc == z
        return (not ok, {"z": z, "dim": d, "projection": list(r)})


class NestedBijection(Lemma):
    """property statement for the nested d-dimensional maps, from the two nested contracts and the 2-d injectivity lemma:
    projection(pairing(x), d) = x and pairing(projection(z, d)) = z, d = 3, 4, 5."""
    prop = "C14"
    cases = (3, 4, 5)

    def __init__(self, cls):
        self.cls = cls
        self.name = f"property:{cls}.nested-bijection"

    def prove(self, vc, d):
        pc, qc, inj = C[self.cls]
        spec2 = pc.spec
        n = f"{self.name}[{d}]"
        pr, qr = NestedPairingRec(self.cls), NestedProjectionRec(self.cls)
        x, z = tuple(vc.ints("x", d)), vc.int("z")
        vc.assume(nonneg(*x, z))
        w = vc.fresh("w", "i")
        vc.assume(And(*pr.ensures(w, x=x).values()))
        vc.check(n + "::pairing-lands-in-projection-domain", qr.requires(z=w, dim=d))
        r = qr.modular_result(vc, z=w, dim=d)
        vc.assume(And(*qr.ensures(r, z=w, dim=d).values()))
        # peel the last coordinate d-1 times: spec2 injective at (spec_k(r[:k]), r[k]) vs (spec_k(x[:k]), x[k]); the inner
        # values are naturals (2-d contract)
        for k in range(d - 1, 1, -1):
            a, b = nested_spec(spec2, r[:k]), nested_spec(spec2, x[:k])
            vc.assume(And(a >= 0, b >= 0))                         # `natural` clause of the 2-d pairing contract
            vc.assume(inj.statement(a, r[k], b, x[k]))
        vc.assume(inj.statement(r[0], r[1], x[0], x[1]))
        vc.check(n + "::projection-after-pairing-is-identity", And(*[a == b for a, b in zip(r, x)]))
        q = qr.modular_result(vc, z=z, dim=d)
        vc.assume(And(*qr.ensures(q, z=z, dim=d).values()))
        vc.check(n + "::projection-lands-in-pairing-domain", pr.requires(x=q))
        w2 = vc.fresh("w2", "i")
        vc.assume(And(*pr.ensures(w2, x=q).values()))
        vc.check(n + "::pairing-after-projection-is-identity", w2 == z)


UNITS += [NestedPairingRec("Szudzik"), NestedProjectionRec("Szudzik"), NestedBijection("Szudzik")]


# ----------------------------------------------------------------- PairingToZd: N <-> Z^d \ {0}
class ZdBijection(Lemma):
    """pair/project of PairingToZd (omit_zero=True): real bodies of pair, project, pairing, projection, the nested
    Pairing.pairing/projection and the two foldings; the 2-d natural pairing through its contract."""
    prop = "C14"

    def __init__(self, cls, d):
        self.cls, self.d = cls, d
        self.name = f"property:PairingToZd[{cls},d={d}].bijection"

    def prove(self, vc, case):
        it = vc.interp
        S = opaque(self.cls)
        # contracts restated over the opaque spec (for Cantor S stands for the doubled value's half, i.e. the pairing itself)
        pc, qc = Pairing2d(self.cls, S), Projection2d(self.cls, S)
        inj = Injective2d(self.cls, S)      # statement schema only; proved with the revealed spec in its own unit
        vc.assume(S(0, 0) == 0)             # use(lemma zero-at-origin)
        mz, pz = MappingToZ(), ProjectionToZ()
        it.modular = {pc.target: pc, qc.target: qc, mz.target: mz, pz.target: pz}
        d = self.d
        o = vc.obj(P + "PairingToZd", n_pairing=vc.obj(P + self.cls), dimension=d, _omitting_zero=1)
        i = vc.int("i")
        vc.assume(i >= 0)
        s = it.call(it.getattr(o, "project"), [i], {})
        vc.check(f"{self.name}::state-shape", isinstance(s, tuple) and len(s) == d)
        vc.check(f"{self.name}::never-the-origin", Or(*[c != 0 for c in s]))
        back = it.call(it.getattr(o, "pair"), [tuple(s)], {})
        vc.check(f"{self.name}::index-of-state-inverts-state-of-index", back == i)
        x = tuple(vc.ints("x", d))
        vc.assume(Or(*[c != 0 for c in x]))
        ys0 = [MZ(c) for c in x]
        vc.assume(inj.statement(ys0[0], ys0[1], 0, 0))                   # use(injectivity) at the origin
        if d == 3:
            p0 = vc.fresh("p0", "i")
            vc.assume(And(*pc.ensures(p0, ys0[0], ys0[1]).values()))
            vc.assume(inj.statement(p0, ys0[2], 0, 0))
        j = it.call(it.getattr(o, "pair"), [x], {})
        vc.check(f"{self.name}::index-natural", j >= 0)
        t = it.call(it.getattr(o, "project"), [j], {})
        # injectivity instances for the nested 2-d pairings
        ys = [MZ(c) for c in x]
        ts = [MZ(c) for c in t]
        if d == 2:
            vc.assume(inj.statement(ts[0], ts[1], ys[0], ys[1]))
        else:
            pa, pb = vc.fresh("pa", "i"), vc.fresh("pb", "i")
            vc.assume(And(*pc.ensures(pa, ts[0], ts[1]).values()))
            vc.assume(And(*pc.ensures(pb, ys[0], ys[1]).values()))
            vc.assume(inj.statement(pa, ts[2], pb, ys[2]))
            vc.assume(inj.statement(ts[0], ts[1], ys[0], ys[1]))
        vc.check(f"{self.name}::state-of-index-inverts-index-of-state", And(*[a == b for a, b in zip(t, x)]))

    def replay(self, model, clause, case):
        mod = native(P + "PairingToZd")
        o = mod(native(P + self.cls)(), self.d, True)
        i = model.get("i", 0)
        x = tuple(model.get("x", [1] * self.d))
        info = {"i": i, "x": list(x)}
        try:
            s = tuple(int(v) for v in o.project(i))
            back = o.pair(s)
            j = o.pair(x)
            t = tuple(int(v) for v in o.project(j))
            info.update(project_i=list(s), pair_back=back, pair_x=j, project_back=list(t))
            bad = back != i or all(c == 0 for c in s) or t != x or j < 0
        except Exception as e:
            info["exception"] = f"{type(e).__name__}: {e}"
            bad = True
        return (bad, info)


UNITS += [ZdBijection("Szudzik", 2), ZdBijection("Szudzik", 3), ZdBijection("Cantor", 2)]


# ----------------------------------------------------------------- PairingToZ1d: N <-> [-L, R] \ {0}
class Z1dBijection(Lemma):
    """State-of-index on [l, r] (l < 0 < r): every index i in [0, L+R) gives a distinct non-zero state inside the
    interval, pair inverts it, and the result is a function of the index alone (any call order)."""
    prop = "C14"
    cases = ("L<R", "L>R", "L=R")

    def __init__(self):
        self.name = "property:PairingToZ1d.bijection"

    def _mk(self, vc, case):
        it = vc.interp
        l, r = vc.int("l"), vc.int("r")
        vc.assume(And(l < 0, r > 0))
        vc.assume({"L<R": -l < r, "L>R": -l > r, "L=R": -l == r}[case])
        cls = it.get_class(P + "PairingToZ1d")
        o = it.instantiate(cls, [(l, r)], {})
        return it, o, l, r

    def prove(self, vc, case):
        it, o, l, r = self._mk(vc, case)
        n = self.name + f"[{case}]"
        i, j = vc.int("i"), vc.int("j")
        total = r - l
        vc.assume(And(i >= 0, i < total, j >= 0, j < total, i != j))
        # history: an arbitrary earlier call on another index j, then index i (cache dropped: project is the raw body)
        sj = it.call(it.getattr(o, "project"), [j], {})
        si = it.call(it.getattr(o, "project"), [i], {})
        vc.check(f"{n}::state-inside-interval", And(l <= si, si <= r))
        vc.check(f"{n}::never-the-origin", si != 0)
        back = it.call(it.getattr(o, "pair"), [si], {})
        vc.check(f"{n}::index-of-state-inverts-state-of-index", back == i)
        # same index on a fresh object (no earlier call) must give the same state
        it2, o2, _, _ = it, it.instantiate(it.get_class(P + "PairingToZ1d"), [(l, r)], {}), l, r
        si_fresh = it.call(it.getattr(o2, "project"), [i], {})
        vc.check(f"{n}::independent-of-call-order", si == si_fresh)
        x = vc.int("x")
        vc.assume(And(l <= x, x <= r, x != 0))
        k = it.call(it.getattr(o2, "pair"), [x], {})
        vc.check(f"{n}::index-in-range", And(k >= 0, k < total))

    def replay(self, model, clause, case):
        cls = native(P + "PairingToZ1d")
        l, r, i, j = model.get("l", -2), model.get("r", 5), model.get("i", 0), model.get("j", 1)
        o, o2 = cls((l, r)), cls((l, r))
        info = {"interval": [l, r], "i": i, "j": j}
        try:
            # bypass functools.cache on project: call the undecorated body in the same order as the proof
            raw = cls.project.__wrapped__
            sj = raw(o, j)
            si = raw(o, i)
            fresh = raw(o2, i)
            back = o.pair(si)
            info.update(project_j=sj, project_i_after_j=si, project_i_fresh=fresh, pair_back=back)
            bad = not (l <= si <= r) or si == 0 or back != i or si != fresh
            if "x" in model:
                k = o2.pair(model["x"])
                info["pair_x"] = k
                bad = bad or not (0 <= k < r - l)
        except Exception as e:
            info["exception"] = f"{type(e).__name__}: {e}"
            bad = True
        return (bad, info)


UNITS += [Z1dBijection()]


# ----------------------------------------------------------------- Rosenberg-Strong in d dimensions (the overriding n-d methods)
def RSd(x):
    """spec: r_1(x) = x_1;  r_d(x) = r_{d-1}(x_1..x_{d-1}) + m^d + (m - x_d)((m+1)^{d-1} - m^{d-1}),  m = max(x)."""
    d = len(x)
    if d == 1:
        return x[0]
    m = smax(list(x))
    return RSd(x[:-1]) + m ** d + (m - x[-1]) * ((m + 1) ** (d - 1) - m ** (d - 1))


class RSndProjection(FunctionContract):
    """RosenbergStrong.projection(z, dim): result in N^dim, r_dim(result) = z, and z lies in the shell of max(result)."""
    prop = "C14"
    target = P + "RosenbergStrong.projection"
    cases = (1, 2, 3)
    raises_exact = False

    def __init__(self, spec=None):
        self.spec = spec or RSd
        self.name = "RosenbergStrong.projection"
        self.loops = {
            0: LoopSpec(lambda L, g: L.m >= 0, decreases=lambda L: L.m),
            1: LoopSpec(lambda L, g: And(L.m >= 0, L.m ** L.dim <= L.z), decreases=lambda L: L.z - L.m),
        }
        self.modular = (self,)
        N = "RosenbergStrong.projection::hint:"

        def hint_xd(L, vc):
            m, z, dim = L.m, L.z, L.dim
            r, t = z - L.m_d, m - L.xd
            vc.check(N + "offset-in-shell", And(r >= 0, r < (m + 1) ** dim - m ** dim))
            vc.check(N + "layer-quotient", Or(And(r < L.m_d1, t == 0),
                                              And(r >= L.m_d1, t * L.aux <= r - L.m_d1, r - L.m_d1 < (t + 1) * L.aux)))
            vc.check(N + "layer-index-range", And(t >= 0, t <= m))

        def hint_p(L, vc):
            m, z, dim = L.m, L.z, L.dim
            t = m - L.xd
            zz = z - L.m_d - t * L.aux
            vc.check(N + "remainder-range", And(zz >= 0, zz < (m + 1) ** (dim - 1), Or(t == 0, zz >= L.m_d1)))
            M2 = smax(list(L.p))
            vc.check(N + "inner-max-bounded", M2 <= m)
            vc.check(N + "inner-max-attained-off-top-layer", Or(t == 0, M2 == m))
        self.hints = {"xd": hint_xd, "p": hint_p}

    def setup(self, vc, case):
        o = vc.obj(P + "RosenbergStrong")
        return dict(self=o, z=vc.int("z"), dim=case)

    def requires(self, z=None, dim=None, **kw):
        return z >= 0

    def ensures(self, result, z=None, dim=None, **kw):
        if not (isinstance(result, tuple) and len(result) == dim):
            return {"shape": False}
        if self.spec is not RSd:
            return {"natural-coordinates": nonneg(*result), "right-inverse": self.spec(result) == z}
        m = smax(list(result))
        return {"natural-coordinates": nonneg(*result),
                "shell": And(m ** dim <= z, z < (m + 1) ** dim),
                "right-inverse": RSd(result) == z}

    def modular_result(self, vc, z=None, dim=None, **kw):
        return tuple(vc.fresh(f"q{i}", "i") for i in range(dim))

    def replay(self, model, clause, case):
        o = native(P + "RosenbergStrong")()
        z = model.get("z", 0)
        try:
            r = tuple(int(v) for v in o.projection(z, case))
            ok = self.ensures(r, z=z, dim=case)[clause]
            return (not ok, {"z": z, "dim": case, "native_result": list(r)})
        except Exception as e:
            return (True, {"z": z, "dim": case, "exception": f"{type(e).__name__}: {e}"})


UNITS += [RSndProjection()]


class RSndPairing(FunctionContract):
    """RosenbergStrong.pairing(x): the literature formula r_d, natural, and inside the shell of max(x)."""
    prop = "C14"
    target = P + "RosenbergStrong.pairing"
    cases = (1, 2, 3, 4)

    def __init__(self, spec=None):
        self.name = "RosenbergStrong.pairing"
        self.spec = spec or RSd
        self.modular = (self,)

    def setup(self, vc, case):
        return dict(self=vc.obj(P + "RosenbergStrong"), x=tuple(vc.ints("x", case)))

    def requires(self, x=None, **kw):
        return nonneg(*x)

    def ensures(self, result, x=None, **kw):
        out = {"equals-spec": result == self.spec(tuple(x)), "natural": result >= 0}
        if self.spec is RSd:
            m, d = smax(list(x)), len(x)
            out["shell"] = And(m ** d <= result, result < (m + 1) ** d)
        return out

    def modular_result(self, vc, x=None, **kw):
        return vc.fresh("rs", "i")

    def replay(self, model, clause, case):
        o = native(P + "RosenbergStrong")()
        x = tuple(model.get("x", [0] * case))
        r = o.pairing(x)
        return (not self.ensures(r, x=x)[clause], {"x": list(x), "native_result": r})


class CubeMonotone(Lemma):
    prop = "C14"
    name = "lemma:cube-monotone"

    def statement(self, a, b):
        return Implies(And(a >= 0, a <= b), a * a * a <= b * b * b)

    def prove(self, vc, case):
        a, b = vc.int("a"), vc.int("b")
        vc.assume(And(a >= 0, a <= b))
        vc.check(self.name + "::factor", b * b * b - a * a * a == (b - a) * (b * b + a * b + a * a))
        vc.check(self.name + "::factors-nonnegative", And(b - a >= 0, b * b + a * b + a * a >= 0))
        vc.check(self.name + "::monotone", a * a * a <= b * b * b)


CUBE = CubeMonotone()


class RSndInjective(Lemma):
    prop = "C14"
    cases = (2, 3)

    def __init__(self):
        self.name = "lemma:RosenbergStrong.nd-spec-injective"

    def statement(self, x, u, spec=RSd):
        return Implies(And(nonneg(*x), nonneg(*u), spec(tuple(x)) == spec(tuple(u))), And(*[a == b for a, b in zip(x, u)]))

    def prove(self, vc, d):
        x, u = tuple(vc.ints("x", d)), tuple(vc.ints("u", d))
        vc.assume(And(nonneg(*x), nonneg(*u), RSd(x) == RSd(u)))
        n = f"{self.name}[{d}]"
        m, k = smax(list(x)), smax(list(u))
        # shell facts of both sides (each proved as a clause of RSndPairing), then: equal maxima, equal last coordinate, recurse
        for w, mw in ((x, m), (u, k)):
            vc.check(n + "::shell", And(mw ** d <= RSd(w), RSd(w) < (mw + 1) ** d))
        if d == 3:
            vc.assume(CUBE.statement(m + 1, k))      # use(lemma cube-monotone)
            vc.assume(CUBE.statement(k + 1, m))
        vc.check(n + "::same-shell", m == k)
        if d == 3:
            for w in (x, u):
                m2 = smax(list(w[:-1]))
                vc.check(n + "::inner-shell", And(m2 * m2 <= RSd(w[:-1]), RSd(w[:-1]) < (m2 + 1) * (m2 + 1), m2 <= m))
            vc.check(n + "::same-last", x[-1] == u[-1])
            vc.check(n + "::same-inner-value", RSd(x[:-1]) == RSd(u[:-1]))
            vc.assume(self.statement(x[:-1], u[:-1]))     # use(lemma at d-1)
        vc.check(n + "::injective", And(*[a == b for a, b in zip(x, u)]))


class RSndBijection(Lemma):
    prop = "C14"
    cases = (2, 3)

    def __init__(self):
        self.name = "property:RosenbergStrong.nd-bijection"

    def prove(self, vc, d):
        import z3
        from pyvc.sym import lift, as_int_term
        f = z3.Function(f"spec_RS{d}", *([z3.IntSort()] * (d + 1)))

        def S(x):
            return Sym(f(*[as_int_term(lift(c)) for c in x]), "i")
        n = f"{self.name}[{d}]"
        pc, qc, inj = RSndPairing(S), RSndProjection(), RSndInjective()
        qens = lambda r, z: {"natural-coordinates": nonneg(*r), "right-inverse": S(r) == z}
        x, z = tuple(vc.ints("x", d)), vc.int("z")
        vc.assume(nonneg(*x, z))
        w = vc.fresh("w", "i")
        vc.assume(And(*pc.ensures(w, x=x).values()))
        vc.check(n + "::pairing-lands-in-projection-domain", qc.requires(z=w, dim=d))
        r = qc.modular_result(vc, z=w, dim=d)
        vc.assume(And(*qens(r, w).values()))
        vc.assume(inj.statement(r, x, spec=S))
        vc.check(n + "::projection-after-pairing-is-identity", And(*[a == b for a, b in zip(r, x)]))
        q = qc.modular_result(vc, z=z, dim=d)
        vc.assume(And(*qens(q, z).values()))
        vc.check(n + "::projection-lands-in-pairing-domain", pc.requires(x=q))
        w2 = vc.fresh("w2", "i")
        vc.assume(And(*pc.ensures(w2, x=q).values()))
        vc.check(n + "::pairing-after-projection-is-identity", w2 == z)


UNITS += [CUBE, RSndPairing(), RSndInjective(), RSndBijection()]


class ZdBijectionRS(Lemma):
    """PairingToZd over RosenbergStrong (which overrides the n-d pairing/projection): real bodies of pair/project/
    pairing/projection of PairingToZd; RosenbergStrong.pairing/projection and the foldings through their contracts."""
    prop = "C14"
    cases = (2, 3)

    def __init__(self):
        self.name = "property:PairingToZd[RosenbergStrong].bijection"

    def prove(self, vc, d):
        import z3
        from pyvc.sym import lift, as_int_term
        it = vc.interp
        f = z3.Function(f"spec_RS{d}", *([z3.IntSort()] * (d + 1)))

        def S(x):
            return Sym(f(*[as_int_term(lift(c)) for c in x]), "i")
        n = f"{self.name}[{d}]"
        pc, qc, inj = RSndPairing(S), RSndProjection(S), RSndInjective()
        mz, pz = MappingToZ(), ProjectionToZ()
        it.modular = {pc.target: pc, qc.target: qc, mz.target: mz, pz.target: pz}
        zero = tuple([0] * d)
        vc.assume(S(zero) == 0)      # r_d(0,..,0) = 0: instance of RSndPairing::shell at x = 0
        o = vc.obj(P + "PairingToZd", n_pairing=vc.obj(P + "RosenbergStrong"), dimension=d, _omitting_zero=1)
        i = vc.int("i")
        vc.assume(i >= 0)
        s_ = it.call(it.getattr(o, "project"), [i], {})
        vc.check(n + "::state-shape", isinstance(s_, tuple) and len(s_) == d)
        vc.check(n + "::never-the-origin", Or(*[c != 0 for c in s_]))
        back = it.call(it.getattr(o, "pair"), [tuple(s_)], {})
        vc.check(n + "::index-of-state-inverts-state-of-index", back == i)
        x = tuple(vc.ints("x", d))
        vc.assume(Or(*[c != 0 for c in x]))
        ys = tuple(MZ(c) for c in x)
        vc.assume(inj.statement(ys, zero, spec=S))
        j = it.call(it.getattr(o, "pair"), [x], {})
        vc.check(n + "::index-natural", j >= 0)
        t = it.call(it.getattr(o, "project"), [j], {})
        vc.assume(inj.statement(tuple(MZ(c) for c in t), ys, spec=S))
        vc.check(n + "::state-of-index-inverts-index-of-state", And(*[a == b for a, b in zip(t, x)]))

    def replay(self, model, clause, d):
        return ZdBijection("RosenbergStrong", d).replay(model, clause, None)


UNITS += [ZdBijectionRS()]


# ----------------------------------------------------------------- lazy cartesian product
def digits(n, sizes, order="CM"):
    """mixed-radix digits of n.  CM (first index fastest): digit k = (n // prod(sizes[:k])) % sizes[k];
    RM (itertools.product order, last index fastest): digit k = (n // prod(sizes[k+1:])) % sizes[k]."""
    out = []
    for k in range(len(sizes)):
        den = 1
        for s in (sizes[:k] if order == "CM" else sizes[k + 1:]):
            den = den * s
        out.append((n // den) % sizes[k])
    return tuple(out)


class LazyProduct(FunctionContract):
    """lazy_indices_product(sizes): exactly prod(sizes) tuples, the n-th being the mixed-radix digits of n -- in either
    of the two digit orders (alternatives: the property fixes no enumeration order)."""
    prop = "C14"
    target = "rpylib.tools.generic:lazy_indices_product"
    cases = (1, 2, 3)

    def alt_group(self, case):
        return f"lazy_indices_product[{case}]"

    def __init__(self, order):
        self.order = order
        self.name = f"lazy_indices_product<{order}>"

        def inv(L, g):
            sizes = L.args
            total = 1
            for s in sizes:
                total = total * s
            out = [L.nb_of_elements == total]
            if g.get("last") is not None:
                out.append(Eq(tuple(g["last"]), digits(L._i - 1, sizes, order)))
            return And(*out)

        def step(L, g):
            g["last"] = L._frame.yields[-1]
        self.loops = {0: LoopSpec(inv, ghost_step=step, havoc={"__ghost__": lambda path, g: g.__setitem__("last", None)},
                                  label=f"lazy_indices_product<{order}>::n-th-tuple-is-the-mixed-radix-digits-of-n")}

    def setup(self, vc, case):
        return dict(args=vc.ints("size", case))

    def requires(self, args):
        return And(*[s >= 1 for s in args])

    def ensures(self, result, args):
        return {}

    def replay(self, model, clause, case):
        import itertools
        sizes = [int(v) for v in model.get("size", [2, 3][:case])]
        sizes = [max(1, min(s, 6)) for s in sizes]      # shrink: the law of the enumeration does not depend on magnitude
        got = list(native(self.target)(list(sizes)))
        want = list(itertools.product(*[range(s) for s in sizes]))
        bad = sorted(got) != sorted(want)          # the property: every tuple exactly once (any order)
        if not bad and any(int(v) != s for v, s in zip(model.get("size", []), sizes)):
            # the shrunken instance is fine: try the solver's own sizes if small enough
            big = [int(v) for v in model.get("size", [])]
            tot = 1
            for b in big:
                tot *= b
            if 0 < tot <= 200000:
                got = list(native(self.target)(list(big)))
                want = list(itertools.product(*[range(s) for s in big]))
                bad, sizes = sorted(got) != sorted(want), big
        return (bad, {"sizes": sizes, "native_first": [list(t) for t in got[:8]], "expected_first": [list(t) for t in want[:8]],
                      "distinct": len(set(got)), "expected_count": len(want)})


class DigitsBijective(Lemma):
    """n -> digits(n, sizes) is a bijection [0, prod sizes) -> prod [0, size_k): 'every index tuple exactly once'."""
    prop = "C14"
    name = "lemma:mixed-radix-digits-bijective"
    cases = (2, 3)      # stated for RM digits; CM digits of `sizes` are the reversed RM digits of the reversed sizes

    def prove(self, vc, d):
        order = "RM"
        sizes = vc.ints("size", d)
        vc.assume(And(*[s >= 1 for s in sizes]))
        total = 1
        for s in sizes:
            total = total * s
        n, k = vc.int("n"), vc.int("k")
        nm = f"{self.name}[{order},{d}]"
        vc.assume(And(n >= 0, n < total, k >= 0, k < total))
        dn, dk = digits(n, sizes, "RM"), digits(k, sizes, "RM")
        vc.check(nm + "::digits-in-range", And(*[And(a >= 0, a < s) for a, s in zip(dn, sizes)]))
        # reconstruction n = sum digit_k * weight_k (Horner), hence injective
        def horner(ds):
            acc = 0
            for a, s in zip(ds, sizes):
                acc = acc * s + a
            return acc
        if d == 3:
            vc.check(nm + "::leading-digit-exact", (n // (sizes[1] * sizes[2])) < sizes[0])
            q = n // sizes[2]
            vc.check(nm + "::nested-quotient", q // sizes[1] == n // (sizes[1] * sizes[2]))
        else:
            vc.check(nm + "::leading-digit-exact", (n // sizes[1]) < sizes[0])
        vc.check(nm + "::reconstruction", horner(dn) == n)
        vc.assume(horner(dk) == k)     # same statement at k (n is arbitrary)
        vc.check(nm + "::injective", Implies(Eq(dn, dk), n == k))
        # surjective: any tuple in range is the digits of its Horner value
        t = vc.ints("t", d)
        vc.assume(And(*[And(a >= 0, a < s) for a, s in zip(t, sizes)]))
        h = horner(t)
        vc.check(nm + "::horner-in-range", And(h >= 0, h < total))
        if d == 3:
            vc.check(nm + "::hint:last-two", And(h // sizes[2] == t[0] * sizes[1] + t[1], h % sizes[2] == t[2]))
            vc.check(nm + "::hint:leading", (h // (sizes[1] * sizes[2])) == t[0])
            mid = t[0] * sizes[1] + t[1]
            vc.check(nm + "::hint:middle", And(mid % sizes[1] == t[1], mid // sizes[1] == t[0]))
            vc.check(nm + "::hint:digit0", (h // (sizes[1] * sizes[2])) % sizes[0] == t[0])
            vc.check(nm + "::hint:digit1", (h // sizes[2]) % sizes[1] == t[1])
            vc.check(nm + "::hint:digit2", h % sizes[2] == t[2])
        vc.check(nm + "::surjective", Eq(digits(h, sizes, "RM"), tuple(t)))


UNITS += [LazyProduct("CM"), LazyProduct("RM"), DigitsBijective()]


# ----------------------------------------------------------------- StatesManager: lazily enumerated admissible states
class StatesManagerNext(FunctionContract):
    """project_index_to_state_increment(x): the admissible state of smallest index >= max(x, last+1); exhaustion is
    signalled only when no admissible index is left, i.e. every index up to AND INCLUDING the largest frontier index
    has been examined.  `is_outside` and the index->state map are abstract (uninterpreted OUT / PROJ)."""
    prop = "C14"
    target = P + "StatesManager.project_index_to_state_increment"
    name = "StatesManager.project_index_to_state_increment"

    def __init__(self):
        import z3
        self.OUT = z3.Function("OUT", z3.IntSort(), z3.BoolSort())
        self.PROJ = z3.Function("PROJ", z3.IntSort(), z3.IntSort())
        from pyvc.contract import ForAllInts

        def inv(L, g):
            start = g["start"]
            return And(L.xx >= start, L.self.fields["_last_logged_index"] == g["logged0"], ForAllInts("k", start, L.xx, lambda k: self.out(self.proj(k))))
        self.loops = {0: LoopSpec(inv, decreases=lambda L: L.self.fields["max_frontier_indices"] - L.xx + 1)}

    def out(self, s):
        from pyvc.sym import as_int_term, lift
        return Sym(self.OUT(as_int_term(lift(s))), "b")

    def proj(self, i):
        from pyvc.sym import as_int_term, lift
        return Sym(self.PROJ(as_int_term(lift(i))), "i")

    def configure(self, interp):
        interp.hooks[P + "StatesManager.is_outside"] = lambda it, f, b: self.out(b["state_increment"])
        interp.hooks[P + "PairingToZd.project"] = lambda it, f, b: self.proj(b["x"])
        interp.hooks[P + "StatesManager._sample_frontier_state_increment"] = lambda it, f, b: ctx_fresh("frontier")

    def setup(self, vc, case):
        mx, last, logged = vc.int("max_frontier_index"), vc.int("last_projected_index"), vc.int("last_logged_index")
        o = vc.obj(P + "StatesManager", max_frontier_indices=mx, _last_projected_index=last, _last_logged_index=logged,
                   pairing=vc.obj(P + "PairingToZd"))
        x, ml = vc.int("x"), vc.int("max_logged")
        vc.assume(And(last >= -1, logged >= -1, logged <= last, x >= 0, mx >= 0))
        # a caller that has logged the first `max_logged` states restarts behind the pairing index of the last logged one
        start = smax(x, If(x == ml, logged, last) + 1)
        vc.ghost["start"] = start
        vc.ghost["logged0"] = logged
        return dict(self=o, x=x, max_logged=ml)

    def ensures(self, result, self_=None, x=None, max_logged=None):
        from pyvc import ctx
        from pyvc.contract import ForAllInts
        g = ctx.PATH.ghost
        start, mx = g["start"], self_.fields["max_frontier_indices"]
        ok = isinstance(result, tuple) and len(result) == 2
        if not ok:
            return {"shape": False}
        state, exhausted = result
        r = self_.fields["_last_projected_index"]
        if exhausted is False:
            will_be_logged = Not(And(max_logged >= 0, max_logged <= x))
            return {"found:logged-index-follows-the-states-the-caller-logs": self_.fields["_last_logged_index"] == If(will_be_logged, r, g["logged0"]),
                    "found:index-not-before-start": r >= start,
                    "found:state-is-admissible": Not(self.out(state)),
                    "found:state-is-the-state-of-that-index": state == self.proj(r),
                    "found:no-admissible-index-skipped": ForAllInts("k", start, r, lambda k: self.out(self.proj(k)))}
        return {"exhausted:every-index-up-to-the-largest-frontier-index-examined":
                ForAllInts("k", start, mx + 1, lambda k: self.out(self.proj(k)))}

    def replay(self, model, clause, case):
        # native witness: 1-d grid of 7 points; enumerate all states through the real StatesManager
        import numpy as np
        from rpylib.grid.spatial import CTMCUniformGrid
        from rpylib.distribution.pairing import PairingToZ1d, Domain, Boundary, StatesManager
        grid = CTMCUniformGrid.create_from_fixed_nb_of_points(h=0.1, nb_of_points=7, dimension=1)
        o = grid.origin_coordinate.value
        pairing = PairingToZ1d((-o, grid.number_of_points() - o - 1))
        sm = StatesManager(pairing, Domain(Boundary(), grid, pairing), grid)
        seen, idx = [], 0
        for _ in range(20):
            st, done = sm.project_index_to_state_increment(idx)
            if done:
                break
            seen.append(int(st))
            idx = sm._last_projected_index + 1
        want = sorted(k - o for k in range(grid.number_of_points()) if k != o)
        return (sorted(seen) != want, {"grid_points": grid.number_of_points(), "states_enumerated_before_exhaustion": seen, "admissible_states": want})


def ctx_fresh(name):
    from pyvc import ctx
    return ctx.PATH.fresh(name, "i")


UNITS += [StatesManagerNext()]


# ================================================================= bounded stand-ins (never counted as proved)
class Bounded:
    name = ""
    tier = "quick"

    def run(self, tier, seed):
        raise NotImplementedError

    def replay(self, rec):
        return (False, {})


class StatesEnumerationBounded(Bounded):
    """B2 (native, exhaustive over a finite family): StatesManager over the real Domain/frontier computation enumerates
    exactly the admissible non-origin states of small d-dimensional grids (centred and off-centre origins, both
    pairings the factory uses).  Bound: axis sizes <= 7 (quick) / 9 (thorough), d in {1, 2, 3}."""
    name = "bounded:states-enumeration"

    def _grids(self, tier):
        from rpylib.grid.spatial import CTMCGrid
        sizes = [3, 5, 7] if tier == "quick" else [3, 5, 7, 9]
        for d in (1, 2, 3):
            for n in sizes:
                if d == 3 and n > (5 if tier == "quick" else 7):
                    continue
                for o in sorted({n // 2, 1, n - 2}):
                    axis = np_axis(n, o)
                    yield d, n, o, CTMCGrid(h=0.1, origin_coordinate=o, axes=[axis.copy() for _ in range(d)])

    def _enumerate(self, grid, pairing):
        import numpy as np
        from rpylib.distribution.pairing import Domain, Boundary, StatesManager
        sm = StatesManager(pairing, Domain(Boundary(), grid, pairing), grid)
        seen, idx = [], 0
        for _ in range(200000):
            st, done = sm.project_index_to_state_increment(idx)
            if done:
                break
            seen.append(tuple(int(v) for v in np.atleast_1d(st)))
            idx += 1          # the protocol of InversionMethod: the next index
        return seen

    def _case(self, d, n, o, grid, pname):
        import itertools
        from rpylib.distribution.pairing import PairingToZd, PairingToZ1d, Szudzik, RosenbergStrong
        if d == 1:
            pairing = PairingToZ1d((-o, n - o - 1))
        else:
            pairing = PairingToZd({"Szudzik": Szudzik, "RosenbergStrong": RosenbergStrong}[pname](), dimension=d)
        seen = self._enumerate(grid, pairing)
        want = set(itertools.product(*[range(-o, n - o) for _ in range(d)])) - {tuple([0] * d)}
        return seen, want

    def run(self, tier, seed):
        ev, viol, samples = 0, [], []
        for d, n, o, grid in self._grids(tier):
            for pname in (["-"] if d == 1 else (["Szudzik", "RosenbergStrong"] if d == 2 else ["RosenbergStrong"])):
                ev += 1
                try:
                    seen, want = self._case(d, n, o, grid, pname)
                    bad = sorted(seen) != sorted(want)
                    info = {"d": d, "axis_points": n, "origin_index": o, "pairing": pname, "enumerated": len(seen),
                            "distinct": len(set(seen)), "admissible": len(want), "missing": sorted(want - set(seen))[:6],
                            "repeated": sorted({s for s in seen if seen.count(s) > 1})[:6]}
                except Exception as e:
                    bad, info = True, {"d": d, "axis_points": n, "origin_index": o, "pairing": pname, "exception": f"{type(e).__name__}: {e}"}
                if len(samples) < 3:
                    samples.append(info)
                if bad:
                    viol.append({"obligation": f"{self.name}[pairing={pname},d={d}]::every-admissible-state-exactly-once",
                                 "bounded": self.name, "witness": info})
        # one violation record per obligation label (first witness)
        uniq = {}
        for v in viol:
            uniq.setdefault(v["obligation"], v)
        return {"name": self.name, "evaluations": ev, "distinct_nontrivial": ev, "violations": list(uniq.values()), "samples": samples,
                "bound": "axis sizes <= 7 (quick) / 9 (thorough), d <= 3, origin index in {1, n//2, n-2}", "exhaustive": True}

    def replay(self, rec):
        w = rec["witness"]
        from rpylib.grid.spatial import CTMCGrid
        grid = CTMCGrid(h=0.1, origin_coordinate=w["origin_index"], axes=[np_axis(w["axis_points"], w["origin_index"]) for _ in range(w["d"])])
        seen, want = self._case(w["d"], w["axis_points"], w["origin_index"], grid, w["pairing"])
        return (sorted(seen) != sorted(want), {"enumerated": len(seen), "admissible": len(want)})


def np_axis(n, o):
    import numpy as np
    return np.array([0.1 * (k - o) for k in range(n)])


class RoundTripBounded(Bounded):
    """B2 (native, exhaustive up to a bound): pairing(projection(z)) == z, projection(z) in N^d, projection(pairing(x)) == x
    for the maps with no deductive proof: HyperbolicPairing (d=2), PepisKalmar (d=2), RosenbergStrong d=4."""
    name = "bounded:round-trips"

    def run(self, tier, seed):
        import itertools
        from rpylib.distribution import pairing as P_
        N = {"HyperbolicPairing": 12000 if tier == "quick" else 60000, "PepisKalmar": 20000 if tier == "quick" else 200000,
             "RosenbergStrong4": 6561 if tier == "quick" else 65536}
        ev, viol, samples = 0, [], []
        for name, n in N.items():
            bad = None
            if name == "RosenbergStrong4":
                o, d = P_.RosenbergStrong(), 4
                proj = lambda z: tuple(int(v) for v in o.projection(z, 4))
                pair = lambda x: o.pairing(tuple(x))
            else:
                o, d = getattr(P_, name)(), 2
                proj = lambda z: tuple(int(v) for v in o.projection(z, 2))
                pair = lambda x: o.pairing(tuple(x))
            seen = set()
            for z in range(n):
                ev += 1
                try:
                    x = proj(z)
                    ok = len(x) == d and all(c >= 0 for c in x) and pair(x) == z and x not in seen
                    seen.add(x)
                except Exception as e:
                    ok, x = False, f"{type(e).__name__}: {e}"
                if not ok:
                    bad = {"map": name, "z": z, "projection": x if isinstance(x, str) else list(x)}
                    break
            if bad is None and d == 4:
                for x in itertools.product(range(5), repeat=4):
                    ev += 1
                    if proj(pair(x)) != x:
                        bad = {"map": name, "x": list(x), "pairing": pair(x), "projection_of_pairing": list(proj(pair(x)))}
                        break
            samples.append({"map": name, "indices_checked": n, "first_failure": bad})
            if bad is not None:
                viol.append({"obligation": f"{self.name}[{name}]::mutually-inverse-up-to-{n}", "bounded": self.name, "witness": bad})
        return {"name": self.name, "evaluations": ev, "distinct_nontrivial": ev, "violations": viol, "samples": samples,
                "bound": str(N), "exhaustive": True}

    def replay(self, rec):
        from rpylib.distribution import pairing as P_
        w = rec["witness"]
        name = w["map"]
        if name == "RosenbergStrong4":
            o = P_.RosenbergStrong()
            if "z" in w:
                x = tuple(int(v) for v in o.projection(w["z"], 4))
                return (o.pairing(x) != w["z"] or any(c < 0 for c in x), {"z": w["z"], "projection": list(x), "pairing": o.pairing(x)})
            x = tuple(w["x"])
            return (tuple(int(v) for v in o.projection(o.pairing(x), 4)) != x, {"x": list(x)})
        o = getattr(P_, name)()
        z = w["z"]
        x = tuple(int(v) for v in o.projection(z, 2))
        return (o.pairing(x) != z or any(c < 0 for c in x), {"z": z, "projection": list(x), "pairing_back": o.pairing(x)})


class LargeIndexBounded(Bounded):
    """B2 (native, sampled): the integer maps beyond the range of exact floating point (the contracts model sqrt / division as
    exact, assumption A1-exception): RosenbergStrong in dimension 3 at the last indices of the shells m = 10^6, 7*10^7,
    10^8 (indices up to 10^24), Szudzik / RosenbergStrong / Cantor in dimension 2 around squares up to 10^30, and the signed
    extension PairingToZd over RosenbergStrong: pairing(projection(z)) == z with natural coordinates."""
    name = "bounded:large-indices"

    def run(self, tier, seed):
        from rpylib.distribution import pairing as P_
        ev, viol, samples = 0, [], []
        rs = P_.RosenbergStrong()
        pts = []
        for m in (10 ** 6, 7 * 10 ** 7, 10 ** 8):
            aux = (m + 1) ** 2 - m ** 2
            pts += [(3, m ** 3 + m ** 2 + k * aux - 1) for k in (m, m - 1, m // 2, 1)]
        for d, z in pts:
            ev += 1
            try:
                x = tuple(int(v) for v in rs.projection(z, d))
                ok = len(x) == d and all(c >= 0 for c in x) and rs.pairing(x) == z
            except Exception as e:
                ok, x = False, f"{type(e).__name__}: {e}"
            if not ok:
                viol.append({"obligation": f"{self.name}[RosenbergStrong,d=3]::pairing-of-projection-is-the-index", "bounded": self.name,
                             "witness": {"z": str(z), "projection": x if isinstance(x, str) else [str(c) for c in x]}})
                break
        for name in ("Szudzik", "RosenbergStrong", "Cantor"):
            o = getattr(P_, name)()
            for r in (10 ** 8 + 7, 94906266, 10 ** 12 + 39, 10 ** 15 + 37):
                for z in (r * r - 1, r * r, r * r + r, r * r + 2 * r):
                    ev += 1
                    try:
                        x = tuple(int(v) for v in o.projection2d(z))
                        ok = all(c >= 0 for c in x) and o.pairing2d(*x) == z
                    except Exception as e:
                        ok, x = False, f"{type(e).__name__}: {e}"
                    if not ok:
                        viol.append({"obligation": f"{self.name}[{name},d=2]::pairing-of-projection-is-the-index", "bounded": self.name,
                                     "witness": {"z": str(z), "projection": x if isinstance(x, str) else [str(c) for c in x]}})
                        break
        ev += 1
        signed = P_.PairingToZd(P_.RosenbergStrong(), dimension=3, omit_zero=True)
        idx = 343000014700000069999998
        st = tuple(int(v) for v in signed.project(idx))
        if signed.pair(st) != idx:
            viol.append({"obligation": f"{self.name}[PairingToZd(RosenbergStrong),d=3]::index-of-state-inverts-state-of-index", "bounded": self.name,
                         "witness": {"index": str(idx), "state": [str(c) for c in st], "pair(state)": str(signed.pair(st))}})
        return {"name": self.name, "evaluations": ev, "distinct_nontrivial": ev, "violations": viol, "samples": samples,
                "bound": "12 indices of three 3-d shells up to 10^24; 48 indices around squares up to 10^30 for three 2-d maps; one signed 3-d index"}

    def replay(self, rec):
        r = self.run("quick", 0)
        hit = [v for v in r["violations"] if v["obligation"] == rec["obligation"]]
        return (bool(hit), hit[0]["witness"] if hit else {})


class DivisorSummatoryLargeBounded(Bounded):
    """B2 (native, thorough tier only, one evaluation of ~1e8 terms): numbers.a_n (divisor summatory function, the index map of
    the hyperbolic pairing) at n = 94906266^2 - 1 > 2^53, where floor(sqrt(n)) in floating point is off by one, against an
    independent chunked integer evaluation of 2 sum_{k <= isqrt(n)} n // k - isqrt(n)^2."""
    name = "bounded:divisor-summatory-beyond-2^53"
    tier = "thorough"

    def run(self, tier, seed):
        if tier != "thorough":
            return {"name": self.name, "evaluations": 0, "distinct_nontrivial": 0, "violations": [], "samples": [], "bound": "thorough tier only"}
        import math
        import numpy as np
        from rpylib.numerical.numbers import a_n
        n = 94906266 ** 2 - 1
        r = math.isqrt(n)
        tot, step = 0, 5_000_000
        for lo in range(1, r + 1, step):
            ks = np.arange(lo, min(lo + step, r + 1), dtype=np.int64)
            tot += int(np.sum(np.int64(n) // ks))
        want = 2 * tot - r * r
        got = int(a_n(n))
        viol = [] if got == want else [{"obligation": f"{self.name}::a_n-is-the-divisor-summatory-function", "bounded": self.name, "witness": {"n": str(n), "a_n": str(got), "exact": str(want)}}]
        return {"name": self.name, "evaluations": 1, "distinct_nontrivial": 1, "violations": viol, "samples": [{"n": str(n), "a_n": str(got)}], "bound": "one index"}

    def replay(self, rec):
        r = self.run("thorough", 0)
        return (bool(r["violations"]), r["violations"][0]["witness"] if r["violations"] else {})


BOUNDED = [StatesEnumerationBounded(), RoundTripBounded(), LargeIndexBounded(), DivisorSummatoryLargeBounded()]


def LATE_UNITS():
    # "the stateful index projection returns each admissible state exactly once": the projection is driven by the inversion
    # sampler, which restarts it behind the last state it stored -- the joint lemma (real bodies of both, store capped) lives
    # with the samplers (c02) and is part of this property too
    from contracts import c02
    return [c02.InversionOverTheStatesManager()]
