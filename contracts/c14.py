"""C14 — index/state enumerations are bijections.

Integer layer: contracts over unbounded mathematical integers; `floor(sqrt(z))` of an
integer z is the exact integer square root (lemma instances added by the library
model of floor∘sqrt, see pyvc/lib.py m_floor) — the float layer is the separate
bounded lemma `FloatRootLemma` below.
"""
import math

from pyvc.contract import FunctionContract, Lemma, VC, Req
from pyvc.interp import LoopSpec
from pyvc.sym import And, Or, Not, Implies, If, Eq, compare, smax, smin, is_sym, Sym

PROPERTY_ID = "C14"
LEVEL = "proof"
P = "rpylib.distribution.pairing:"


# ----------------------------------------------------------------- spec functions (from the literature, not the code)
def SZ(x, y):
    """Szudzik 'elegant' pairing."""
    return If(x >= y, x * x + x + y, x + y * y) if (is_sym(x) or is_sym(y)) else (x * x + x + y if x >= y else x + y * y)


def RS(x, y):
    """Rosenberg-Strong pairing, 2-d."""
    m = smax(x, y)
    return m * (m + 1) + x - y


def CANTOR2(x, y):
    """twice the Cantor pairing (kept doubled to stay in linear-integer-friendly form)."""
    return (x + y) * (x + y) + 3 * x + y


SPEC2D = {"Szudzik": SZ, "RosenbergStrong": RS}


def nonneg(*xs):
    return And(*[x >= 0 for x in xs])


def native(fq):
    import importlib
    modname, qual = fq.split(":")
    o = importlib.import_module(modname)
    for p in qual.split("."):
        o = getattr(o, p)
    return o


# ----------------------------------------------------------------- 2-d pairings
class Pairing2d(FunctionContract):
    prop = "C14"

    def __init__(self, cls, spec):
        self.cls, self.spec = cls, spec
        self.target = f"{P}{cls}.pairing2d"
        self.name = f"{cls}.pairing2d"

    def setup(self, vc, case):
        return dict(x=vc.int("x"), y=vc.int("y"))

    def requires(self, x, y):
        return nonneg(x, y)

    def ensures(self, result, x, y):
        return {"equals-spec": result == self.spec(x, y), "natural": result >= 0}

    def modular_result(self, vc, x, y):
        return vc.fresh("paired", "i")

    def replay(self, model, clause, case):
        x, y = model["x"], model["y"]
        r = native(self.target)(x, y)
        ok = self.ensures(r, x, y)[clause]
        return (not ok, {"input": [x, y], "native_result": r})


class Projection2d(FunctionContract):
    prop = "C14"

    def __init__(self, cls, spec):
        self.cls, self.spec = cls, spec
        self.target = f"{P}{cls}.projection2d"
        self.name = f"{cls}.projection2d"

    def setup(self, vc, case):
        return dict(z=vc.int("z"))

    def requires(self, z):
        return z >= 0

    def ensures(self, result, z):
        ok_shape = isinstance(result, tuple) and len(result) == 2
        if not ok_shape:
            return {"shape": False}
        a, b = result
        return {"natural-coordinates": nonneg(a, b), "right-inverse": self.spec(a, b) == z}

    def modular_result(self, vc, z):
        return (vc.fresh("p0", "i"), vc.fresh("p1", "i"))

    def replay(self, model, clause, case):
        z = model["z"]
        r = native(self.target)(z)
        e = self.ensures(tuple(int(v) for v in r), z)
        ok = e.get(clause, False)
        return (not ok, {"input": z, "native_result": list(r)})


class Injective2d(Lemma):
    """spec(x,y) = spec(u,v) on naturals implies (x,y) = (u,v): pure arithmetic over the spec function."""
    prop = "C14"

    def __init__(self, cls, spec):
        self.cls, self.spec = cls, spec
        self.name = f"lemma:{cls}.spec-injective"

    def statement(self, x, y, u, v):
        return Implies(And(nonneg(x, y, u, v), self.spec(x, y) == self.spec(u, v)), And(x == u, y == v))

    def prove(self, vc, case):
        x, y, u, v = vc.int("x"), vc.int("y"), vc.int("u"), vc.int("v")
        vc.assume(nonneg(x, y, u, v))
        # hints: the maxima agree (shell index), then linear
        m, n = smax(x, y), smax(u, v)
        vc.assume(self.spec(x, y) == self.spec(u, v))
        vc.check(f"{self.name}::same-shell", m == n)
        vc.check(f"{self.name}::injective", And(x == u, y == v))


class Bijection2d(Lemma):
    """Property statement for one pairing class, from the two contracts and the injectivity lemma only."""
    prop = "C14"

    def __init__(self, cls, pair_c, proj_c, inj):
        self.cls, self.pair_c, self.proj_c, self.inj = cls, pair_c, proj_c, inj
        self.name = f"property:{cls}.2d-bijection"

    def prove(self, vc, case):
        x, y, z = vc.int("x"), vc.int("y"), vc.int("z")
        vc.assume(nonneg(x, y, z))
        # left inverse: projection(pairing(x, y)) == (x, y)
        w = vc.fresh("w", "i")
        vc.assume(And(*self.pair_c.ensures(w, x, y).values()))
        vc.check(f"{self.name}::pairing-lands-in-projection-domain", self.proj_c.requires(w))
        r = self.proj_c.modular_result(vc, w)
        vc.assume(And(*self.proj_c.ensures(r, w).values()))
        vc.assume(self.inj.statement(r[0], r[1], x, y))          # use(lemma) at (r, (x,y))
        vc.check(f"{self.name}::projection-after-pairing-is-identity", And(r[0] == x, r[1] == y))
        # right inverse: pairing(projection(z)) == z and projection(z) in N^2
        q = self.proj_c.modular_result(vc, z)
        vc.assume(And(*self.proj_c.ensures(q, z).values()))
        vc.check(f"{self.name}::projection-lands-in-pairing-domain", self.pair_c.requires(q[0], q[1]))
        w2 = vc.fresh("w2", "i")
        vc.assume(And(*self.pair_c.ensures(w2, q[0], q[1]).values()))
        vc.check(f"{self.name}::pairing-after-projection-is-identity", w2 == z)


UNITS = []
C = {}
for _cls, _spec in SPEC2D.items():
    pc, qc, inj = Pairing2d(_cls, _spec), Projection2d(_cls, _spec), Injective2d(_cls, _spec)
    C[_cls] = (pc, qc, inj)
    UNITS += [pc, qc, inj, Bijection2d(_cls, pc, qc, inj)]

ASSUMPTIONS = [
    "A1-exception: math.sqrt/floor are modelled exactly (floor(sqrt(z)) = integer square root); the float layer is the bounded FloatRootLemma",
    "Python ints are unbounded mathematical integers (true in CPython)",
]
TRUSTED_BASE = ["z3 5.1 (NIA)", "cvc5 1.4 on z3 unknowns", "pyvc interpreter + library models (pyvc/lib.py)"]
BOUNDED = []
