"""C12 — rectangle mass of a copula model is a measure consistent with its margins.

The tail-integral layer is abstract: T_I(x) stands for margin_tail_integral(indices=I, x) = F^I(U_I(x)); the only facts
used are (G) T_I(x) = 0 as soon as one coordinate of x is infinite (the tail integral vanishes at infinity and the copula
is grounded, C11) and, for the one-dimensional tail integral, U_i(x) = sgn(x) nu_i(I(x)) from the real body.
"""
import itertools

import numpy as np
import z3

from pyvc.contract import FunctionContract, Lemma, VC, Req
from pyvc.sym import And, Or, Not, Implies, If, Eq, compare, smax, smin, is_sym, Sym, lift, as_real_term, as_int_term, INF, PyRaise

PROPERTY_ID = "C12"
LEVEL = "proof"
LC = "rpylib.model.levycopulamodel:"

_TF = {}


def T(indices, x):
    """abstract I-margin tail integral; zero when a coordinate is infinite (G)"""
    x = list(x)
    if any((not is_sym(v)) and v in (INF, -INF) for v in x):
        return 0.0
    key = tuple(indices)
    if key not in _TF:
        _TF[key] = z3.Function("T_" + "".join(str(i) for i in key), *([z3.RealSort()] * (len(key) + 1)))
    return Sym(_TF[key](*[as_real_term(lift(v)) for v in x]), "r")


def hook_tail(interp):
    def mti(it, f, b):
        idx = list(b["indices"])
        x = list(it.iterate(b["x"]))
        return T(idx, x)
    interp.hooks[LC + "LevyCopulaModel.margin_tail_integral"] = mti
    interp.hooks[LC + "LevyCopulaModel.marginal_tail_integral"] = lambda it, f, b: T([b["i"]], [b["x"]])


def interval(vc, name, pattern):
    """P / N / S: finite interval on the positive side, the negative side, straddling zero; Z / O: (a, 0] and (0, b], the
    two pieces of a straddling interval split exactly at zero (Z contains 0, so it counts as straddling when deciding whether
    the rectangle contains the origin); lower-case letters: the same
    with an infinite end -- p = (a, +inf) with a > 0, n = (-inf, b) with b < 0, l = (-inf, b) with b > 0, r = (a, +inf) with a < 0"""
    a, b = vc.real(name + "_lo"), vc.real(name + "_hi")
    if pattern == "Z":          # negative side, ending exactly at zero: (a, 0] -- the left piece of a split at zero
        vc.assume(a < 0)
        return a, 0.0
    if pattern == "O":          # positive side, starting exactly at zero: (0, b] -- the right piece of a split at zero
        vc.assume(b > 0)
        return 0.0, b
    if pattern in "PNS":
        vc.assume({"P": And(0 < a, a < b), "N": And(a < b, b < 0), "S": And(a < 0, 0 < b)}[pattern])
        return a, b
    if pattern == "p":
        vc.assume(a > 0)
        return a, INF
    if pattern == "n":
        vc.assume(b < 0)
        return -INF, b
    if pattern == "l":
        vc.assume(b > 0)
        return -INF, b
    vc.assume(a < 0)
    return a, INF


def model_obj(vc, d):
    return vc.obj(LC + "LevyCopulaModel", _full_indices=list(range(d)), _dimension=d)


class FastPaths(Lemma):
    """the hand-expanded _mass_2d / _mass_3d agree with the general recursion _mass_nd on every sign pattern of the
    rectangle (each coordinate positive, negative or straddling zero; at least one coordinate not straddling)"""
    prop = "C12"

    def __init__(self, d):
        self.d = d
        self.name = f"property:fast-path-{d}d-equals-general-formula"
        straddling = "Slr"
        finite = ["".join(p) for p in itertools.product("PNS", repeat=d) if "P" in p or "N" in p]
        if d == 2:
            withinf = ["".join(p) for p in itertools.product("PNSpnlr", repeat=2) if any(ch in "pnlr" for ch in p) and not all(ch in straddling for ch in p)]
        else:       # exactly one coordinate with an infinite end
            withinf = ["".join(p) for p in itertools.product("PNSpnlr", repeat=3) if sum(ch in "pnlr" for ch in p) == 1 and not all(ch in straddling for ch in p)]
        # rectangles with an end point exactly at zero (pieces of a split at zero); Z contains 0 like S does
        atzero = ["".join(p) for p in itertools.product("PNSZO", repeat=d) if ("Z" in p or "O" in p) and any(ch in "PNO" for ch in p)]
        self.cases = tuple(finite + withinf + atzero)

    def prove(self, vc, pattern):
        d = self.d
        hook_tail(vc.interp)
        o = model_obj(vc, d)
        ivs = [interval(vc, f"x{k}", pattern[k]) for k in range(d)]
        a, b = tuple(i[0] for i in ivs), tuple(i[1] for i in ivs)
        fast = vc.method(o, f"_mass_{d}d", a, b)
        gen = vc.method(o, "_mass_nd", a, b)
        vc.check(f"{self.name}[{pattern}]::equal", fast == gen)

    def replay(self, model, clause, pattern):
        from contracts import battery
        cm = battery.copula_model(self.d, "clayton")
        a, b = concrete_rectangle(model, pattern)
        fast = getattr(cm, f"_mass_{self.d}d")(tuple(a), tuple(b))
        gen = cm._mass_nd(tuple(a), tuple(b))
        return (abs(fast - gen) > 1e-9 * max(1.0, abs(gen)), {"a": a, "b": b, "fast": float(fast), "general": float(gen)})


def concrete_rectangle(model, pattern):
    """the counter-model's rectangle as floats (end points the solver left free, or placed outside the pattern's side,
    are replaced by defaults of the pattern)"""
    f = lambda v, dflt: float(v["float"]) if isinstance(v, dict) else (float(v) if v is not None else dflt)
    a, b = [], []
    for k, p in enumerate(pattern):
        if p in "pnlr":
            lo, hi = {"p": (0.1 * (1 + 0.1 * k), np.inf), "n": (-np.inf, -0.1 * (1 + 0.1 * k)), "l": (-np.inf, 0.25), "r": (-0.2, np.inf)}[p]
            a.append(lo)
            b.append(hi)
            continue
        dflt = {"P": (0.1, 0.3), "N": (-0.4, -0.1), "S": (-0.2, 0.25), "Z": (-0.3, 0.0), "O": (0.0, 0.35)}[p]
        lo = f(model.get(f"x{k}_lo"), dflt[0] * (1 + 0.1 * k))
        hi = f(model.get(f"x{k}_hi"), dflt[1] * (1 + 0.1 * k))
        lo, hi = (max(min(lo, 2.0), -2.0), max(min(hi, 2.0), -2.0))
        if p == "Z":
            hi = 0.0
        if p == "O":
            lo = 0.0
        if not lo < hi or (p == "P" and lo <= 0) or (p == "N" and hi >= 0) or (p == "S" and not lo < 0 < hi):
            lo, hi = dflt
        a.append(lo)
        b.append(hi)
    return a, b


class Additivity(Lemma):
    """mass is additive when the rectangle is split along an axis: at a point on the same side of zero as the interval
    (split coordinate P or N), strictly inside a straddling interval on either side of zero, and EXACTLY AT ZERO (a straddling
    coordinate cut into (a, 0] and (0, b]) -- general formula, d = 2, 3, the other coordinates any pattern that keeps the
    origin outside the rectangle"""
    prop = "C12"

    def __init__(self, d):
        self.d = d
        self.name = f"property:additivity-{d}d"
        same_side = ["".join(p) for p in itertools.product("PNS", repeat=d) if p[0] in "PN"]
        # the split coordinate straddles zero: the rest must keep the origin out
        at_zero = ["S" + "".join(p) + "@0" for p in itertools.product("PNS", repeat=d - 1) if any(ch in "PN" for ch in p)]
        off_zero = ["S" + "".join(p) + "@" + side for p in itertools.product("PNS", repeat=d - 1) if any(ch in "PN" for ch in p) for side in "-+"]
        self.cases = tuple(same_side + at_zero + off_zero)

    def _split(self, vc, case, a0, b0):
        pattern, _, where = case.partition("@")
        if where == "0":
            return pattern, 0.0
        c = vc.real("split")
        vc.assume(And(a0 < c, c < b0))
        if where == "-":
            vc.assume(c < 0)
        elif where == "+":
            vc.assume(c > 0)
        return pattern, c

    def prove(self, vc, case):
        d = self.d
        hook_tail(vc.interp)
        o = model_obj(vc, d)
        pattern = case.partition("@")[0]
        ivs = [interval(vc, f"x{k}", pattern[k]) for k in range(d)]
        a, b = tuple(i[0] for i in ivs), tuple(i[1] for i in ivs)
        pattern, c = self._split(vc, case, a[0], b[0])
        for fn in ("_mass_nd", f"_mass_{d}d"):
            whole = vc.method(o, fn, a, b)
            left = vc.method(o, fn, a, (c,) + b[1:])
            right = vc.method(o, fn, (c,) + a[1:], b)
            tag = "" if fn == "_mass_nd" else "[fast path]"
            vc.check(f"{self.name}[{case}]::split-along-the-first-axis{tag}", left + right == whole)

    def replay(self, model, clause, case):
        from contracts import battery
        cm = battery.copula_model(self.d, "clayton")
        pattern, _, where = case.partition("@")
        a, b = concrete_rectangle(model, pattern)
        f = lambda v, dflt: float(v["float"]) if isinstance(v, dict) else (float(v) if v is not None else dflt)
        if where == "0":
            c = 0.0
        else:
            c = f(model.get("split"), None)
            ok = c is not None and a[0] < c < b[0] and not (where == "-" and c >= 0) and not (where == "+" and c <= 0)
            if not ok:
                c = {"-": 0.5 * a[0], "+": 0.5 * b[0]}.get(where, 0.5 * (a[0] + b[0]))
        fn = getattr(cm, f"_mass_{self.d}d" if "fast path" in clause else "_mass_nd")
        whole = fn(tuple(a), tuple(b))
        left = fn(tuple(a), (c,) + tuple(b[1:]))
        right = fn((c,) + tuple(a[1:]), tuple(b))
        return (abs(left + right - whole) > 1e-9 * max(1.0, abs(whole)),
                {"a": a, "b": b, "split": c, "whole": float(whole), "left": float(left), "right": float(right)})


class MarginalConsistency(Lemma):
    """the one-coordinate margin mass is the marginal Levy mass: mass((a,), (b,), indices=[i]) = nu_i((a, b]) on either
    side of zero, from the real marginal_tail_integral U_i(x) = sgn(x) nu_i(I(x)) and additivity of nu_i;
    (0, b] STARTING EXACTLY AT ZERO is a separate case (sign(0) = +1, I(0) = (0, inf)).  The interval (a, 0] is not a case:
    with the other coordinates over the whole line its rectangle contains the origin, which the property excludes (for such
    an interval _mass_1d returns minus the mass of the complement, the convention the straddling recursion builds on);
    the pieces of a split at zero are covered, where the property places them, by the additivity lemmas (cases @0)."""
    prop = "C12"
    cases = ("P", "N", "P-starting-at-zero")
    name = "property:marginal-consistency"

    def prove(self, vc, case):
        from contracts.spec_measure import MU, additivity
        from contracts.c04 import NEG_INF, POS_INF
        from pyvc import ctx
        it = vc.interp
        ninf, pinf = Sym(NEG_INF, "r"), Sym(POS_INF, "r")

        def integ(i_, f, b_):
            e = lambda x: ninf if (not is_sym(x) and x == -INF) else (pinf if (not is_sym(x) and x == INF) else x)
            return MU(e(b_["a"]), e(b_["b"]))
        it.hooks["rpylib.model.levymodel.levymodel:LevyMeasure.integrate"] = integ
        nu = vc.obj("rpylib.model.levymodel.levymodel:LevyMeasure")
        o = vc.obj(LC + "LevyCopulaModel", _full_indices=[0, 1], _dimension=2, _marginal_levy_measure=[nu, nu])
        if case == "P":
            a, b = interval(vc, "x", "P")
        elif case == "N":
            a, b = interval(vc, "x", "N")
        else:
            a, b = 0.0, vc.real("x_hi")
            vc.assume(b > 0)
        vc.assume(And(ninf < -1000000, pinf > 1000000, ninf < a if is_sym(a) else True, (b < pinf) if is_sym(b) else True))
        for x, y, z in ((a, b, pinf), (ninf, a, b), (ninf, 0, pinf), (ninf, a, 0), (0, b, pinf)):
            vc.assume(additivity(x, y, z))
        m = vc.method(o, "_mass_2d", (a,), (b,), [0])
        vc.check(f"{self.name}[{case}]::margin-mass-is-the-marginal-levy-mass", m == MU(a, b))

    def replay(self, model, clause, case):
        from contracts import battery
        cm = battery.copula_model(2, "clayton")
        nu = cm.models[0].levy_triplet.nu
        a, b = {"P": (0.1, 0.4), "N": (-0.5, -0.1), "P-starting-at-zero": (0.0, 0.3)}[case]
        got = cm.mass((a,), (b,), [0])
        want = nu.integrate(a, b)
        return (abs(got - want) > 1e-9 * max(1.0, abs(want)), {"interval": [a, b], "mass": float(got), "marginal_levy_mass": float(want)})


class TailIntegralOfEachModel(Lemma):
    """marginal_tail_integral (real body) of a SECOND model instance evaluated at a level where another model (other
    margins) was evaluated before: the result is sgn(x) times the second model's own marginal mass of I(x) -- nothing
    computed for one model may leak into another (caches)."""
    prop = "C12"
    cases = (0.3, -0.3, 1, -2)          # the integer levels: rectangles are as often given with integer bounds
    name = "property:tail-integral-belongs-to-its-model"

    def prove(self, vc, x):
        it = vc.interp
        MUA = z3.Function("MU_model_A", z3.RealSort(), z3.RealSort(), z3.RealSort())
        MUB = z3.Function("MU_model_B", z3.RealSort(), z3.RealSort(), z3.RealSort())
        big = 10 ** 9

        def integ(i_, f, b_):
            e = lambda v: as_real_term(lift(-big if (not is_sym(v) and v == -INF) else (big if (not is_sym(v) and v == INF) else v)))
            F = MUA if b_["self"].fields["tag"] == "A" else MUB
            return Sym(F(e(b_["a"]), e(b_["b"])), "r")
        it.hooks["rpylib.model.levymodel.levymodel:LevyMeasure.integrate"] = integ
        mk = lambda tag: vc.obj(LC + "LevyCopulaModel", _full_indices=[0, 1], _dimension=2,
                                _marginal_levy_measure=[vc.obj("rpylib.model.levymodel.levymodel:LevyMeasure", tag=tag)] * 2)
        A, B = mk("A"), mk("B")
        nm = f"{self.name}[x={x}]"
        from pyvc.sym import PyRaise
        try:
            ua = vc.method(A, "marginal_tail_integral", 0, x)
            ub = vc.method(B, "marginal_tail_integral", 0, x)
        except PyRaise as e:
            vc.check(nm + f"::evaluates[{e.exc_type}]", False)
            return
        lo, hi = (x, big) if x >= 0 else (-big, x)
        sgn = 1 if x >= 0 else -1
        nm = f"{self.name}[x={x}]"
        vc.check(nm + "::first-model", ua == sgn * Sym(MUA(as_real_term(lift(lo)), as_real_term(lift(hi))), "r"))
        vc.check(nm + "::second-model-at-the-same-level", ub == sgn * Sym(MUB(as_real_term(lift(lo)), as_real_term(lift(hi))), "r"))

    def replay(self, model, clause, x):
        from contracts import battery
        a = battery.copula_model(2, "clayton", margins="hem")
        b = battery.copula_model(2, "clayton", margins="cgmy")
        try:
            ua = a.marginal_tail_integral(0, x)
            ub = b.marginal_tail_integral(0, x)
        except Exception as e:
            return (True, {"x": x, "exception": f"{type(e).__name__}: {e}"})
        want = np.sign(x) * (b.models[0].levy_triplet.nu.integrate(x, np.inf) if x >= 0 else b.models[0].levy_triplet.nu.integrate(-np.inf, x))
        return (abs(ub - want) > 1e-12 * max(1.0, abs(want)), {"x": x, "first_model": float(ua), "second_model": float(ub), "second_model_own_tail": float(want)})


class TailIntegralAfterTruncation(Lemma):
    """History on ONE copula model (real constructor, real truncate_levy_measure of the model and of its margins, real
    TruncatedLevyMeasure.integrate; the base measures abstract): marginal tail integrals evaluated AFTER the model was
    truncated do not depend on what was evaluated before the truncation -- the object with an earlier evaluation and a
    freshly built, identically truncated object return the same values, at the level evaluated earlier and at a new one.
    (Whether the rectangle mass follows the truncation is not stated here: it must only be ONE measure.)"""
    prop = "C12"
    cases = ((0.3, 0.2), (-0.3, -0.45), (1, 2))
    name = "property:tail-integral-after-truncation-is-history-free"

    def _build(self, vc):
        LM = "rpylib.model.levymodel.levymodel:"
        mk_model = lambda k: vc.obj(LM + "LevyModel", levy_triplet=vc.obj(LM + "LevyTriplet", nu=vc.obj(LM + "LevyMeasure", tag=k)))
        cop = vc.obj("rpylib.distribution.levycopula:LevyCopula")
        return vc.new(LC + "LevyCopulaModel", [mk_model(0), mk_model(1)], cop)

    def prove(self, vc, case):
        x, y = case
        it = vc.interp
        MUK = z3.Function("MU_margin", z3.IntSort(), z3.RealSort(), z3.RealSort(), z3.RealSort())
        big = 10 ** 9

        def integ(i_, f, b_):
            e = lambda v: as_real_term(lift(-big if (not is_sym(v) and v == -INF) else (big if (not is_sym(v) and v == INF) else v)))
            return Sym(MUK(z3.IntVal(b_["self"].fields["tag"]), e(b_["a"]), e(b_["b"])), "r")
        it.hooks["rpylib.model.levymodel.levymodel:LevyMeasure.integrate"] = integ
        l, r = vc.real("trunc_left"), vc.real("trunc_right")
        vc.assume(And(l < 0, 0 < r, l > -big, r < big))
        nm = f"{self.name}[{x},{y}]"
        try:
            A, B = self._build(vc), self._build(vc)
            vc.method(A, "marginal_tail_integral", 0, x)          # the earlier evaluation
            for o in (A, B):
                vc.method(o, "truncate_levy_measure", [(l, r), (l, r)])
            ax, bx = vc.method(A, "marginal_tail_integral", 0, x), vc.method(B, "marginal_tail_integral", 0, x)
            ay, by = vc.method(A, "marginal_tail_integral", 0, y), vc.method(B, "marginal_tail_integral", 0, y)
        except PyRaise as e:
            vc.check(nm + f"::evaluates[{e.exc_type}]", False)
            return
        vc.check(nm + "::level-evaluated-before-the-truncation", ax == bx)
        vc.check(nm + "::new-level", ay == by)
        # one measure: the increment between the two levels is the same measure's mass on both objects
        vc.check(nm + "::increment-between-the-two-levels", ax - ay == bx - by)

    def replay(self, model, clause, case):
        from contracts import battery
        x, y = case
        f = lambda v, dflt: float(v["float"]) if isinstance(v, dict) else (float(v) if v is not None else dflt)
        l, r = f(model.get("trunc_left"), -0.25), f(model.get("trunc_right"), 0.25)
        for (l_, r_) in ((l, r), (-0.25, 0.25), (-0.4, 0.4)):
            A, B = battery.copula_model(2, "clayton"), battery.copula_model(2, "clayton")
            A.marginal_tail_integral(0, x)
            for o in (A, B):
                o.truncate_levy_measure([(l_, r_), (l_, r_)])
            vals = [A.marginal_tail_integral(0, x), B.marginal_tail_integral(0, x), A.marginal_tail_integral(0, y), B.marginal_tail_integral(0, y)]
            if abs(vals[0] - vals[1]) > 1e-12 or abs(vals[2] - vals[3]) > 1e-12:
                return (True, {"truncation": [l_, r_], "x": x, "y": y, "with_earlier_evaluation": [float(vals[0]), float(vals[2])], "fresh_object": [float(vals[1]), float(vals[3])]})
        return (False, {})


_COP = {}
_UF1 = z3.Function("U_marginal", z3.IntSort(), z3.RealSort(), z3.RealSort())     # U_i(x) = sgn(x) nu_i(I(x))


def COP(us):
    """abstract copula value F(u): every argument is encoded as (kind, value) with kind -1 / 0 / +1 for -inf / finite / +inf"""
    d = len(us)
    if d not in _COP:
        _COP[d] = z3.Function(f"COPULA_{d}", *([z3.IntSort(), z3.RealSort()] * d + [z3.RealSort()]))
    args = []
    for u in us:
        if not is_sym(u) and u in (INF, -INF):
            args += [z3.IntVal(1 if u > 0 else -1), z3.RealVal(0)]
        else:
            args += [z3.IntVal(0), as_real_term(lift(u))]
    return Sym(_COP[d](*args), "r")


class MarginTailIntegral(FunctionContract):
    """LevyCopulaModel.margin_tail_integral(indices, x) (real body, real `margin` operator and tail_integrals; the copula
    and the one-dimensional tail integrals abstract): the I-margin of the copula evaluated at the marginal tail integrals
    of the listed coordinates -- coordinate indices[k] receives U_{indices[k]}(x_k), every other coordinate is summed over
    +-inf with its sign -- for every index list: single coordinates, pairs, the full family, in any order."""
    prop = "C12"
    target = LC + "LevyCopulaModel.margin_tail_integral"
    name = "LevyCopulaModel.margin_tail_integral"
    cases = tuple((d, idx) for d in (2, 3) for r in range(1, d + 1) for idx in itertools.permutations(range(d), r))

    def configure(self, interp):
        interp.hooks[LC + "LevyCopulaModel.marginal_tail_integral"] = lambda it, f, b: Sym(_UF1(as_int_term(lift(b["i"])), as_real_term(lift(b["x"]))), "r")
        interp.hooks["rpylib.distribution.levycopula:LevyCopula.__call__"] = lambda it, f, b: COP(list(np.ravel(np.asarray(b["us"], dtype=object))))

    def setup(self, vc, case):
        d, idx = case
        xs = vc.reals("x", len(idx))
        vc.assume(And(*[x != 0 for x in xs]))
        o = vc.obj(LC + "LevyCopulaModel", _full_indices=list(range(d)), _dimension=d, copula=vc.obj("rpylib.distribution.levycopula:LevyCopula"))
        vc.ghost.update(xs=xs, case=case)
        from pyvc.lib import _Iter
        return dict(self=o, indices=list(idx), x=_Iter(list(xs)))

    def ensures(self, result, **a):
        from pyvc import ctx
        g = ctx.PATH.ghost
        d, idx = g["case"]
        xs = g["xs"]
        U = lambda i, x: Sym(_UF1(z3.IntVal(i), as_real_term(lift(x))), "r")
        if len(idx) == 1:
            return {"one-coordinate-margin-is-the-marginal-tail-integral": result == U(idx[0], xs[0])}
        others = [j for j in range(d) if j not in idx]
        want = 0
        for p in itertools.product((-INF, INF), repeat=len(others)):
            u = [None] * d
            for k, i in enumerate(idx):
                u[i] = U(i, xs[k])
            for j, v in zip(others, p):
                u[j] = v
            sgn = 1
            for v in p:
                sgn *= 1 if v > 0 else -1
            want = want + sgn * COP(u)
        return {"I-margin-of-the-copula-at-the-listed-coordinates'-own-tail-integrals": result == want}

    def replay(self, model, clause, case):
        from contracts import battery
        d, idx = case
        cm = battery.copula_model(d, "clayton")
        f = lambda v, dflt: float(v["float"]) if isinstance(v, dict) else (float(v) if v is not None else dflt)
        xm = model.get("x") if isinstance(model.get("x"), list) else []
        xs = [max(min(f(xm[k] if k < len(xm) else None, 0.1 * (k + 1) * (-1) ** k), 1.5), -1.5) or 0.2 for k in range(len(idx))]
        if len(set(round(abs(v), 9) for v in xs)) < len(xs):      # the abstract counter-model need not separate the coordinates
            xs = [0.1 * (k + 1) * (-1) ** k for k in range(len(idx))]
        got = float(cm.margin_tail_integral(list(idx), iter(xs)))
        # independent recomputation: coordinate idx[k] <- U_{idx[k]}(xs[k]); the others summed over +-inf with sign
        from rpylib.numerical.tools import sign
        U = [None] * d
        for k, i in enumerate(idx):
            U[i] = cm.marginal_tail_integral(i, xs[k])
        others = [j for j in range(d) if j not in idx]
        want = 0.0
        for p in itertools.product((-np.inf, np.inf), repeat=len(others)):
            u = list(U)
            for j, v in zip(others, p):
                u[j] = v
            want += float(np.prod([np.sign(v) for v in p])) * float(cm.copula(np.array(u, dtype=float))) if others else float(cm.copula(np.array(u, dtype=float)))
        if len(idx) == 1:
            want = float(U[idx[0]])
        return (abs(got - want) > 1e-9 * max(1.0, abs(want)), {"dimension": d, "indices": list(idx), "x": xs, "margin_tail_integral": got, "recomputed": want})


UNITS = [FastPaths(2), FastPaths(3), Additivity(2), Additivity(3), MarginalConsistency(), MarginTailIntegral(), TailIntegralOfEachModel(), TailIntegralAfterTruncation()]
def LATE_UNITS():
    # non-negativity and the I-margins of the mass rest on the copula being a Levy copula in every dimension used: the
    # grounded / margins / volume contracts of the copulas offered by the helpers live in c11
    from contracts import c11
    return [c11.PiecewiseLinearCopulas(), c11.ClaytonGroundedAndMargins()]


ASSUMPTIONS = ["A1: floats are mathematical reals", "(G) tail integrals vanish when a coordinate is infinite (C11 groundedness; nu_i((x, inf)) -> 0)",
               "non-negativity of the mass = d-increasing copula composed with monotone tail integrals (C11 + A6), not re-proved here",
               "equality with the integral of the joint density: d-dimensional fundamental theorem of calculus (A6)"]
TRUSTED_BASE = ["z3 5.1 (LRA + uninterpreted functions)", "pyvc interpreter + numpy models"]
class InverseTailBattery:
    """bounded (native): "the inverse marginal tail integral inverts the tail integral" -- U_i(U_i^{-1}(v)) = v to 1e-9
    (relative) for tail levels v inside the range the root search brackets, [U(500), U(1e-20)] on the positive side and
    its mirror on the negative side: 12 levels per side spread geometrically over that range, margins HEM (finite
    activity), VG and CGMY y = 0 (logarithmic tails: roots down to 1e-19), CGMY y = 0.5 and 1.1 (power tails).  Levels
    beyond U(+-1e-20) are clipped to the end of the bracket by design and are not part of the clause."""
    name = "bounded:inverse-tail-integral"
    tier = "quick"

    def run(self, tier, seed):
        import warnings
        from contracts import battery
        from rpylib.model.levycopulamodel import LevyCopulaModel
        from rpylib.distribution.levycopula import ClaytonCopula
        from rpylib.model.utils import create_exponential_of_levy_model, ModelType
        viol, ev, samples = {}, 0, []
        ms = battery.models()
        ms["cgmy_y0"] = create_exponential_of_levy_model(ModelType.CGMY)(spot=100.0, r=0.05, d=0.02, c=0.1, g=10.0, m=8.0, y=0.0)
        with warnings.catch_warnings():
            warnings.simplefilter("ignore")
            for name, m in ms.items():
                cm = LevyCopulaModel(models=[m, m], copula=ClaytonCopula(theta=0.7, eta=0.3))
                for sgn in (1.0, -1.0):
                    hi, lo = abs(cm.marginal_tail_integral(0, sgn * 1e-20)), abs(cm.marginal_tail_integral(0, sgn * 500.0))
                    lo = max(lo, 1e-12 * hi, 1e-300)
                    if not (np.isfinite(hi) and hi > lo):
                        hi = abs(cm.marginal_tail_integral(0, sgn * 1e-8))
                    for v in np.geomspace(lo * 1.5 + 1e-9, hi * 0.98, 12):
                        ev += 1
                        x = cm.inverse_tail_integral(0, sgn * v)
                        back = cm.marginal_tail_integral(0, float(x))
                        if len(samples) < 4:
                            samples.append({"margin": name, "level": float(sgn * v), "inverse": float(x), "tail_integral_of_the_inverse": float(back)})
                        if not abs(back - sgn * v) <= 1e-9 * max(1.0, abs(v)):
                            viol.setdefault(name + str(sgn), {"obligation": f"{self.name}::tail-integral-of-the-inverse-is-the-level[{name}]", "bounded": self.name,
                                                              "witness": {"margin": name, "level": float(sgn * v), "inverse": float(x), "tail_integral_of_the_inverse": float(back)}})
        return {"name": self.name, "evaluations": ev, "distinct_nontrivial": ev, "violations": list(viol.values()), "samples": samples,
                "bound": "6 margins x 2 signs x 12 levels spread geometrically over [U(500), U(1e-20)]"}

    def replay(self, rec):
        r = self.run("quick", 0)
        hit = [v for v in r["violations"] if v["obligation"] == rec["obligation"]]
        return (bool(hit), hit[0]["witness"] if hit else {})


BOUNDED = [InverseTailBattery()]
