"""C02 — every state sampler realises exactly the target law, independent of call history.

"Seen as a function of the uniform it consumes, the sampler sends a set of total length p_k to state k": the real table /
tree constructors are executed on a SYMBOLIC probability vector (K = 2..4 states, p_i >= 0, sum 1; every comparison forks)
and the real single-uniform entry point on a symbolic uniform u; the obligations characterise the pre-image of every state
as an explicit interval (inversion along the sampler's own enumeration of the states: implicit heap in-order, Huffman tree
left-to-right, pairing enumeration) or, for the alias method, as the slot decomposition  K p_k = q_k + sum_{J[x]=k}(1-q_x).
Half-open pre-images of length p_k give "never a state of probability zero".  History independence: the stateful
inversion sampler answers a second uniform exactly as a fresh sampler does.
Complete in the probabilities and the uniform, bounded in the number of states (K <= 4); the factory-built samplers on
real chains (all methods, 1-d and 2-d, batch and single-uniform entry points) are covered by a bounded native battery.
"""
import itertools

import numpy as np
import z3

from pyvc.contract import FunctionContract, Lemma, VC, Req
from pyvc.sym import And, Or, Not, Implies, If, is_sym, Sym, lift, as_real_term, Unsupported, compare, PyRaise

PROPERTY_ID = "C02"
LEVEL = "proof"
V = "rpylib.distribution.variate."


def prob_vector(vc, K, zeros=()):
    ps = []
    for i in range(K):
        if i in zeros:
            ps.append(0.0)
        else:
            p = vc.real(f"p{i}")
            vc.assume(p > 0)
            ps.append(p)
    vc.assume(compare(sum(ps, 0.0), 1, "=="))
    return ps


def cum(ps, order):
    out, tot = [], 0.0
    for k in order:
        lo = tot
        tot = tot + ps[k]
        out.append((k, lo, tot))
    return out


ZERO_PATTERNS = {2: [()], 3: [(), (1,)], 4: [(), (0,), (2, 3)]}
CASES = tuple((K, z) for K in (2, 3, 4) for z in ZERO_PATTERNS[K])


class BinarySearchTreeSampler(Lemma):
    """create_binary_search_tree + BinarySearchTree.sample_with_u (real bodies): state k is returned exactly for u in
    [C_{j-1}, C_j), the cumulative sums taken in the in-order sequence of the leaves of the implicit heap"""
    prop = "C02"
    cases = CASES

    def __init__(self):
        self.name = "property:binary-search-tree-sampler"

    @staticmethod
    def inorder_leaves(K):
        """leaves of the implicit heap with K internal nodes (positions K+1 .. 2K+1), left to right"""
        out = []

        def walk(ptr):
            if ptr > K:
                out.append(ptr - K - 1)
            else:
                walk(2 * ptr)
                walk(2 * ptr + 1)
        walk(1)
        return out

    def prove(self, vc, case):
        K, zeros = case
        nm = f"{self.name}[{K} states, zero probabilities at {zeros}]"
        ps = prob_vector(vc, K, zeros)
        it = vc.interp
        ident = it.lib.Model(lambda it_, k: k, "states")
        smp = vc.new(V + "binarysearchtree:BinarySearchTree", np.array(ps, dtype=object), ident)
        u = vc.real("u")
        vc.assume(And(u >= 0, u < 1))
        res = vc.method(smp, "sample_with_u", u)
        order = self.inorder_leaves(K - 1)
        vc.check(nm + "::returns-a-state-of-the-vector", Or(*[res == k for k in range(K)]))
        vc.check(nm + "::never-a-state-of-probability-zero", And(*[res != z for z in zeros]) if zeros else True)
        for k, lo, hi in cum(ps, order):
            vc.check(nm + f"::state{k}-exactly-on-an-interval-of-length-p{k}", (res == k) == And(lo <= u, u < hi))

    def replay(self, model, clause, case):
        from rpylib.distribution.variate.binarysearchtree import BinarySearchTree
        return native_measure(lambda p: (lambda s: (lambda u: int(s.sample_with_u(u))))(BinarySearchTree(p, lambda k: k)), case)


def native_measure(make, case, closed_right=False):
    """native oracle: the measure of the pre-image of every state on a fine uniform grid against p"""
    K, zeros = case
    rng = np.random.default_rng(5)
    p = rng.uniform(0.2, 1.0, size=K)
    for z in zeros:
        p[z] = 0.0
    p = p / p.sum()
    f = make(p.copy())
    N = 20000
    us = (np.arange(N) + 0.5) / N
    out = np.array([f(float(u)) for u in us])
    freq = np.array([(out == k).mean() for k in range(K)])
    edge = {repr(u): f(u) for u in (0.0, float(np.nextafter(1.0, 0.0)))}          # the end points of [0, 1)
    bad = (np.max(np.abs(freq - p)) > 3.0 / N * K or any(freq[z] > 0 for z in zeros) or out.min() < 0 or out.max() >= K
           or any((not 0 <= v < K) or p[v] == 0 for v in edge.values()))
    return (bool(bad), {"p": p.tolist(), "measure_of_preimages": freq.tolist(), "state_at_the_end_points_of_[0,1)": edge})


class HuffmanSampler(Lemma):
    """create_huffman_tree + huffmantree.sample_with_u (real bodies, symbolic probabilities: the heap's sort and bisect fork):
    every leaf carries its state's probability, every internal node the sum of its children, and state k is returned exactly
    for u in [C_{j-1}, C_j) along the left-to-right order of the leaves of the tree that was built"""
    prop = "C02"
    cases = tuple(c for c in CASES if c[0] <= 3) + ((4, ()),)
    max_paths = 20000

    def __init__(self):
        self.name = "property:huffman-tree-sampler"

    def prove(self, vc, case):
        K, zeros = case
        nm = f"{self.name}[{K} states, zero probabilities at {zeros}]"
        ps = prob_vector(vc, K, zeros)
        it = vc.interp
        head = it.call(it.get_function(V + "huffmantree:create_huffman_tree"), [np.array(ps, dtype=object)], {})
        leaves, ok = [], []

        def walk(node):
            if it.truth(node.fields["is_leaf"]):
                leaves.append(node)
                ok.append(compare(node.fields["value"], ps[node.fields["state"]], "=="))
            else:
                l, r = node.fields["left_node"], node.fields["right_node"]
                ok.append(compare(node.fields["value"], l.fields["value"] + r.fields["value"], "=="))
                walk(l)
                walk(r)
        walk(head)
        vc.check(nm + "::tree-values-are-the-probabilities-and-their-sums", And(*ok))
        vc.check(nm + "::every-state-is-a-leaf-once", sorted(n.fields["state"] for n in leaves) == list(range(K)))
        u = vc.real("u")
        vc.assume(And(u >= 0, u < 1))
        res = it.call(it.get_function(V + "huffmantree:sample_with_u"), [u, head], {})
        st = res[0]
        order = [n.fields["state"] for n in leaves]
        vc.check(nm + "::never-a-state-of-probability-zero", And(*[compare(st, z, "!=") for z in zeros]) if zeros else True)
        for k, lo, hi in cum(ps, order):
            vc.check(nm + f"::state{k}-exactly-on-an-interval-of-length-p{k}", compare(st, k, "==") == And(lo <= u, u < hi))

    def replay(self, model, clause, case):
        from rpylib.distribution.variate.huffmantree import create_huffman_tree, sample_with_u
        return native_measure(lambda p: (lambda h: (lambda u: int(sample_with_u(u, h)[0])))(create_huffman_tree(np.array(p))), case)


class AliasSampler(Lemma):
    """create_alias (real body, symbolic probabilities): 0 <= q <= 1 and K p_k = q_k + sum over the slots aliased to k of
    (1 - q_x); AliasMethod._draw_with_u (real body, symbolic u inside slot x): returns x on the first q_x / K of the slot and
    J[x] on the rest -- together: the pre-image of state k has total length p_k."""
    prop = "C02"
    cases = CASES

    def __init__(self):
        self.name = "property:alias-sampler"

    def prove(self, vc, case):
        K, zeros = case
        nm = f"{self.name}[{K} states, zero probabilities at {zeros}]"
        ps = prob_vector(vc, K, zeros)
        it = vc.interp
        J, q = it.call(it.get_function(V + "alias:create_alias"), [np.array(ps, dtype=object)], {})
        J = [int(v) for v in np.ravel(J)]
        q = list(np.ravel(np.asarray(q, dtype=object)))
        vc.check(nm + "::acceptance-thresholds-in-[0,1]", And(*[And(compare(v, 0, ">="), compare(v, 1, "<=")) for v in q]))
        vc.check(nm + "::aliases-are-states", all(0 <= j < K for j in J))
        for k in range(K):
            mass = q[k] + sum(((1 - q[x]) for x in range(K) if J[x] == k and x != k), 0.0) + (0.0 if J[k] != k else (1 - q[k]))
            vc.check(nm + f"::slot-decomposition-gives-K-p{k}", compare(mass, K * ps[k], "=="))
        # the draw: slot x, position v inside the slot
        for x in range(K):
            v = vc.fresh(f"v{x}", "r")
            vc.assume(And(v >= 0, v < 1))
            smp = vc.obj(V + "alias:AliasMethod", K=K, J=np.array(J), q=np.array(q, dtype=object))
            res = vc.method(smp, "_draw_with_u", (x + v) / K)
            want = If(v < q[x], x, J[x]) if is_sym(compare(v, q[x], "<")) else (x if compare(v, q[x], "<") else J[x])
            vc.check(nm + f"::slot{x}:own-state-below-the-threshold-alias-above", compare(res, want, "=="))
            vc.check(nm + f"::slot{x}:never-a-state-of-probability-zero", And(*[compare(res, z, "!=") for z in zeros]) if zeros else True)

    def replay(self, model, clause, case):
        from rpylib.distribution.variate.alias import AliasMethod
        return native_measure(lambda p: (lambda s: (lambda u: int(s._draw_with_u(u))))(AliasMethod(p, lambda k: k)), case)


class InversionSampler(Lemma):
    """InversionMethod.sample_with_u (real body; the pairing enumeration of K states and the state probabilities abstract):
    the x-th state of the enumeration is returned for u inside (C_{x-1}, C_x) and nowhere outside [C_{x-1}, C_x] (either end-point convention), and a
    second uniform is answered exactly as a fresh sampler answers it, whatever was drawn before (cached cumulative sums)."""
    prop = "C02"
    cases = CASES

    def __init__(self):
        self.name = "property:inversion-sampler"

    def _sampler(self, vc, ps):
        K = len(ps)
        it = vc.interp
        sm = vc.obj("rpylib.distribution.pairing:StatesManager")
        it.hooks["rpylib.distribution.pairing:StatesManager.project_index_to_state_increment"] = \
            lambda it_, f, b: ((("state", int(b["x"])), False) if int(b["x"]) < K else (None, True))
        prob = it.lib.Model(lambda it_, s: ps[s[1]], "probability_to_jump_to_state")
        return vc.new(V + "inversion:InversionMethod", prob, sm)

    def prove(self, vc, case):
        K, zeros = case
        nm = f"{self.name}[{K} states, zero probabilities at {zeros}]"
        ps = prob_vector(vc, K, zeros)
        smp = self._sampler(vc, ps)
        u1, u2 = vc.real("u1"), vc.real("u2")
        vc.assume(And(u1 >= 0, u1 < 1, u2 >= 0, u2 < 1))
        r1 = vc.method(smp, "sample_with_u", u1)
        vc.check(nm + "::never-a-state-of-probability-zero", And(*[Not(r1 == ("state", z)) if is_sym(r1 == ("state", z)) else (r1 != ("state", z)) for z in zeros]) if zeros else True)
        for k, lo, hi in cum(ps, range(K)):
            # whichever end point convention the sampler uses: returned only on the closed interval, always on the open one
            got = (r1 == ("state", k)) if r1 is not None else False
            vc.check(nm + f"::state{k}-exactly-on-an-interval-of-length-p{k}", And(Implies(got, And(lo <= u1, u1 <= hi)), Implies(And(lo < u1, u1 < hi), got)))
        vc.check(nm + "::never-outside-the-enumeration", r1 is not None)
        r2 = vc.method(smp, "sample_with_u", u2)
        fresh = self._sampler(vc, ps)
        r2f = vc.method(fresh, "sample_with_u", u2)
        vc.check(nm + "::second-draw-independent-of-the-first", r2 == r2f)

    def replay(self, model, clause, case):
        from rpylib.distribution.variate.inversion import InversionMethod
        K, zeros = case

        class SM:
            def project_index_to_state_increment(self, index, max_storage=None):
                return ((index,), False) if index < K else (None, True)
        def make(p):
            s = InversionMethod(lambda st: float(p[st[0]]), SM())
            return lambda u: (s.sample_with_u(u) or (-1,))[0]
        bad, info = native_measure(make, case)
        # history independence: the same uniforms in two different orders
        rng = np.random.default_rng(9)
        p = np.array(info["p"])
        us = rng.uniform(size=200)
        a = make(p)
        ra = [a(float(u)) for u in us]
        b = make(p)
        rb = dict((float(u), b(float(u))) for u in sorted(us, reverse=True))
        hist = any(ra[i] != rb[float(u)] for i, u in enumerate(us))
        return (bool(bad or hist), {**info, "history_dependent": bool(hist)})


class InversionOverTheStatesManager(Lemma):
    """InversionMethod.sample_with_u TOGETHER WITH StatesManager.project_index_to_state_increment (both real bodies; only the
    admissibility test and the pairing abstract): pairing indices 0..M-1 of which a given subset is outside the grid, the
    store of cumulative sums capped at `cap` entries.  The admissible index r is returned exactly for u in [C_{k-1}, C_k)
    (cumulative sums over the admissible indices in increasing order), also after the store is full, and a second uniform
    is answered as a fresh sampler answers it -- the index projection is stateful (it restarts behind the last stored
    state), so both draws go through the real restart logic."""
    prop = "C02"
    # (outside mask over the pairing indices, cap of the store)
    cases = (("01000", 2), ("00100", 2), ("10100", 2), ("010010", 3), ("00000", 2), ("0110", 1), ("01000", 9))

    def __init__(self):
        self.name = "property:inversion-over-the-states-manager"

    def _sampler(self, vc, mask, cap, ps):
        it = vc.interp
        PP = "rpylib.distribution.pairing:"
        M = len(mask)
        sm = vc.obj(PP + "StatesManager", max_frontier_indices=M - 1, _last_projected_index=-1, _last_logged_index=-1, pairing=vc.obj(PP + "PairingToZd"))
        it.hooks[PP + "StatesManager.is_outside"] = lambda it_, f, b: mask[b["state_increment"][1]] == "1"
        it.hooks[PP + "PairingToZd.project"] = lambda it_, f, b: ("state", int(b["x"]))
        it.hooks[PP + "StatesManager._sample_frontier_state_increment"] = lambda it_, f, b: ("frontier", -1)
        prob = it.lib.Model(lambda it_, s_: ps[s_[1]], "probability_to_jump_to_state")
        smp = vc.new(V + "inversion:InversionMethod", prob, sm)
        smp.fields["_max_storage"] = cap
        return smp

    def prove(self, vc, case):
        mask, cap = case
        nm = f"{self.name}[outside {mask}, store capped at {cap}]"
        adm = [r for r, c in enumerate(mask) if c == "0"]
        ps = {}
        for r in adm:
            ps[r] = vc.real(f"p{r}")
            vc.assume(ps[r] > 0)
        vc.assume(compare(sum(ps.values(), 0.0), 1, "=="))
        smp = self._sampler(vc, mask, cap, ps)
        u1, u2 = vc.real("u1"), vc.real("u2")
        vc.assume(And(u1 >= 0, u1 < 1, u2 >= 0, u2 < 1))
        r1 = vc.method(smp, "sample_with_u", u1)
        r2 = vc.method(smp, "sample_with_u", u2)
        for which, u, res in (("first", u1, r1), ("second", u2, r2)):
            for k, lo, hi in cum(ps, adm):
                got = (res == ("state", k)) if res is not None else False
                vc.check(nm + f"::{which}-draw:index{k}-exactly-on-an-interval-of-length-p{k}", And(Implies(got, And(lo <= u, u <= hi)), Implies(And(lo < u, u < hi), got)))
        fresh = self._sampler(vc, mask, cap, ps)
        r2f = vc.method(fresh, "sample_with_u", u2)
        vc.check(nm + "::second-draw-independent-of-the-first", r2 == r2f)

    def replay(self, model, clause, case):
        from rpylib.distribution.variate.inversion import InversionMethod
        from rpylib.distribution.pairing import StatesManager
        mask, cap = case
        adm = [r for r, c in enumerate(mask) if c == "0"]
        m = model or {}

        def val(k, d):
            v = m.get(k)
            return float(v["float"]) if isinstance(v, dict) and "float" in v else (float(v) if isinstance(v, (int, float)) else d)
        p = {r: val(f"p{r}", 1.0 / len(adm)) for r in adm}
        tot = sum(p.values())
        p = {r: v / tot for r, v in p.items()}

        def make():
            sm = StatesManager.__new__(StatesManager)
            sm.max_frontier_indices, sm._last_projected_index, sm._last_logged_index = len(mask) - 1, -1, -1
            sm.is_outside = lambda st: mask[st[0]] == "1"
            sm.pairing = type("P", (), {"project": staticmethod(lambda x: (int(x),))})()
            sm._sample_frontier_state_increment = lambda: (-1,)
            s = InversionMethod(lambda st: p[st[0]], sm)
            s._max_storage = cap
            return s
        edges = np.cumsum([p[r] for r in adm])

        def want(u):
            return adm[min(int(np.searchsorted(edges, u, side="right")), len(adm) - 1)]
        us = [val("u1", 0.999), val("u2", 0.9995)] + [float(x) for x in (np.arange(200) + 0.5) / 200]
        s = make()
        for i, u in enumerate(us):
            got = s.sample_with_u(u)[0]
            if got != want(u):
                return (True, {"outside_mask": mask, "store_cap": cap, "p": p, "uniforms_so_far": us[:i + 1], "returned_index": int(got), "index_of_that_uniform": int(want(u))})
        return (False, {"outside_mask": mask, "store_cap": cap, "p": p})


class AdaptedBisection1D(FunctionContract):
    """BinarySearchTreeAdapted1D.sample_with_u (real body, axis of SYMBOLIC length, abstract additive measure MU): the
    bisection `while left != right` loop under an inductive invariant.  With L0..R0 the half-axis chosen by the first test
    (left of the origin iff u <= P_left) and u' the uniform reduced to that half:
        L0 <= left <= right <= R0,   current_p * lambda = u' * lambda - MU(cell_lo(L0), cell_lo(left)),
        current_p * lambda <= MU(cell_lo(left), cell_hi(right)),   left = L0 or current_p > 0
    so that at exit the returned state k satisfies  C(k) < u' lambda <= C(k) + MU(cell(k))  with C(k) the mass of the cells
    L0..k-1: state k is returned exactly on a u-interval of length MU(cell(k)) / lambda = q_k / lambda, never the origin,
    never a state outside the axis.  Preconditions are the postconditions of the constructor contract (C01
    AdaptedTree1dInit) and of the intensity contract (lambda = mass of all non-origin cells)."""
    prop = "C02"
    target = V + "binarysearchtreeadapted:BinarySearchTreeAdapted1D.sample_with_u"
    name = "BinarySearchTreeAdapted1D.sample_with_u"

    def __init__(self):
        from pyvc.interp import LoopSpec
        from contracts.c01 import cell_lo, cell_hi
        from contracts.spec_measure import MU

        def half(L, g):
            o, n, PL = g["o"], g["ax"].length, g["PL"]
            right_half = L.u > PL
            return If(right_half, o + 1, 0), If(right_half, n - 1, o - 1), If(right_half, L.u - PL, L.u)

        def inv(L, g):
            ax, lam = g["ax"], g["lam"]
            L0, R0, uh = half(L, g)
            return And(L0 <= L.left, L.left <= L.right, L.right <= R0,
                       L.current_p * lam == uh * lam - MU(cell_lo(ax, L0), cell_lo(ax, L.left)),
                       L.current_p * lam <= MU(cell_lo(ax, L.left), cell_hi(ax, L.right)),
                       Or(L.left == L0, L.current_p > 0))
        self._half = half
        self.loops = {0: LoopSpec(inv, decreases=lambda L: L.right - L.left)}

        def after_p(L, vc):
            # instances of the additivity of MU (A6) at the cell boundaries the step uses
            from contracts.spec_measure import additivity
            g = vc.ghost
            ax = g["ax"]
            L0, R0, uh = half(L, g)
            lo0, lol, him, hir = cell_lo(ax, L0), cell_lo(ax, L.left), cell_hi(ax, L.middle), cell_hi(ax, L.right)
            vc.assume(additivity(lo0, lol, him))
            vc.assume(additivity(lol, him, hir))
        self.hints = {"p": after_p}

    def configure(self, interp):
        from pyvc import ctx
        from contracts.spec_measure import MU

        def mass(it, f, b):
            ctx.PATH.check("sample_with_u -> model.mass::requires(a<=b)", b["a"] <= b["b"])
            return MU(b["a"], b["b"])
        interp.hooks["rpylib.model.levymodel.levymodel:LevyModel.mass"] = mass

    def setup(self, vc, case):
        from contracts.c01 import wf_grid, cell_lo, cell_hi
        from contracts.spec_measure import MU, basic_axioms, additivity
        grid, ax, h, o = wf_grid(vc)
        basic_axioms(vc)
        n = ax.length
        lam, PL, u = vc.real("intensity"), vc.real("probability_of_the_left_half_axis"), vc.real("u")
        left_mass, right_mass = MU(cell_lo(ax, 0), cell_hi(ax, o - 1)), MU(cell_lo(ax, o + 1), cell_hi(ax, n - 1))
        vc.assume(And(lam > 0, u >= 0, u < 1, PL * lam == left_mass, lam == left_mass + right_mass))
        model = vc.obj("rpylib.model.levymodel.levymodel:LevyModel")
        smp = vc.obj(V + "binarysearchtreeadapted:BinarySearchTreeAdapted1D", model=model, grid=grid, axis=ax, intensity_of_jumps=lam, origin_coordinate=o,
                     _proba_left_axis=PL, _coordinates_left_axis=(0, o - 1), _coordinates_right_axis=(o + 1, n - 1))
        vc.ghost.update(ax=ax, o=o, lam=lam, PL=PL, u=u, h=h)
        return dict(self=smp, u=u)

    def ensures(self, result, self_=None, u=None):
        from pyvc import ctx
        from contracts.c01 import cell_lo, cell_hi
        from contracts.spec_measure import MU
        g = ctx.PATH.ghost
        ax, o, lam, PL = g["ax"], g["o"], g["lam"], g["PL"]
        n = ax.length
        k = result + o                                   # index of the returned state
        right_half = u > PL
        L0 = If(right_half, o + 1, 0)
        uh = If(right_half, u - PL, u)
        before = MU(cell_lo(ax, L0), cell_lo(ax, k))      # mass of the cells of the half-axis before state k
        return {"a-state-of-the-axis": And(k >= 0, k <= n - 1),
                "never-the-origin": k != o,
                "left-half-iff-u-at-most-its-probability": (k < o) == (u <= PL),
                "state-exactly-on-a-u-interval-of-length-q_k-over-lambda": And(uh * lam <= before + MU(cell_lo(ax, k), cell_hi(ax, k)),
                                                                             Or(k == L0, uh * lam > before))}

    def replay(self, model, clause, case):
        from contracts import battery
        from rpylib.grid.spatial import CTMCUniformGrid
        from rpylib.process.markovchain.markovchain import MarkovChainProcess
        from rpylib.distribution.sampling import SamplingMethod
        from rpylib.distribution.samplingfactory import create_q_vector
        m = battery.models(("hem",))["hem"]
        grid = CTMCUniformGrid(h=0.05, model=m)
        pr = MarkovChainProcess(model=m, method=SamplingMethod.BINARYSEARCHTREEADAPTED1D, grid=grid)
        s = pr.sampling
        o = grid.origin_coordinate.value
        q = create_q_vector(pr.model.levy_triplet.nu, grid) / pr.intensity_of_jumps
        q[o] = 0.0
        N = 40000
        us = (np.arange(N) + 0.5) / N
        out = np.array([int(s.sample_with_u(float(x))) + o for x in us])
        if out.min() < 0 or out.max() >= len(q) or np.any(out == o):
            return (True, {"model": "hem", "returned_indices_range": [int(out.min()), int(out.max())], "origin": int(o)})
        freq = np.bincount(out, minlength=len(q)) / N
        k = int(np.argmax(np.abs(freq - q)))
        return (bool(abs(freq[k] - q[k]) > 3.0 / N), {"model": "hem", "state": k - o, "share_of_the_uniform_grid": float(freq[k]), "target": float(q[k])})


class CellBoundariesMonotone(Lemma):
    """on a strictly increasing axis the cell boundaries are ordered: cell_lo(i) <= cell_hi(j) for 0 <= i <= j <= n - 1
    (cell_lo(i) <= x_i <= x_j <= cell_hi(j)); used instance-wise by the bisection contracts"""
    prop = "C02"
    name = "lemma:cell-boundaries-monotone"

    @staticmethod
    def statement(ax, i, j):
        from contracts.c01 import cell_lo, cell_hi
        return Implies(And(0 <= i, i <= j, j <= ax.length - 1), cell_lo(ax, i) <= cell_hi(ax, j))

    def prove(self, vc, case):
        from contracts.c01 import wf_grid
        grid, ax, h, o = wf_grid(vc)            # quantified strict monotonicity (C13's postcondition, transitive form)
        i, j = vc.int("i"), vc.int("j")
        vc.check(self.name + "::cell_lo(i)<=cell_hi(j)", self.statement(ax, i, j))


class AdaptedBisectionBucket2D(FunctionContract):
    """BinarySearchTreeAdapted.sample_one_bucket (real body, d = 2, two axes of SYMBOLIC length that may differ, abstract
    additive rectangle mass M): the k-d bisection `while any(l != r ...)` under an inductive invariant.  With OFF(box) the
    mass of everything the bisection tree puts BEFORE a box (defined along the tree: the left child starts where its parent
    starts, the right child after the left child's mass), for the current box:
        bucket.l_k <= l_k <= r_k <= bucket.r_k,   current_p * lambda = u' * lambda - OFF(box),   0 < current_p,
        current_p * lambda <= M(box)
    so that at exit the returned state c (a cell of the bucket) satisfies OFF(c) < u' lambda <= OFF(c) + M(cell(c)): OFF
    depends on the cell only, hence every state of the bucket is returned exactly on a u-interval of length
    M(cell) / lambda.  The additivity of M along an axis is C12's contract (assumed here, instance by instance)."""
    prop = "C02"
    target = V + "binarysearchtreeadapted:BinarySearchTreeAdapted.sample_one_bucket"
    name = "BinarySearchTreeAdapted.sample_one_bucket[d=2]"
    cases = ("unit intensity", "symbolic intensity")

    def __init__(self):
        from pyvc.interp import LoopSpec
        from contracts.c01 import cell_lo, cell_hi
        MB = z3.Function("M_rectangle", *([z3.RealSort()] * 5))
        OFFF = z3.Function("OFF_box", *([z3.IntSort()] * 4 + [z3.RealSort()]))
        from pyvc.sym import as_int_term
        self.M = lambda a, b: Sym(MB(*[as_real_term(lift(x)) for x in (a[0], a[1], b[0], b[1])]), "r")
        self.OFF = lambda l0, r0, l1, r1: Sym(OFFF(*[as_int_term(lift(x)) for x in (l0, r0, l1, r1)]), "r")

        def box_mass(g, box):
            (l0, r0), (l1, r1) = box
            a0, a1 = g["axes"]
            return self.M((cell_lo(a0, l0), cell_lo(a1, l1)), (cell_hi(a0, r0), cell_hi(a1, r1)))
        self.box_mass = box_mass

        def inv(L, g):
            (l0, r0), (l1, r1) = L.result
            (L0, R0), (L1, R1) = g["bucket"]
            lam, u = g["lam"], g["u"]
            return And(L0 <= l0, l0 <= r0, r0 <= R0, L1 <= l1, l1 <= r1, r1 <= R1,
                       L.current_probability * lam == u * lam - self.OFF(l0, r0, l1, r1),
                       L.current_probability > 0, L.current_probability * lam <= box_mass(g, L.result))

        def h_result(path, cur):
            return [tuple(path.fresh(f"box{k}{e}", "i") for e in "lr") for k in range(2)]
        self.loops = {0: LoopSpec(inv, decreases=lambda L: (L.result[0][1] - L.result[0][0]) + (L.result[1][1] - L.result[1][0]),
                                  havoc={"result": h_result})}

        def after_p(L, vc):
            # the split just made on axis k: parent box = result with (left, right) on axis k; children (left, middle) and
            # (middle + 1, right).  Additivity of the rectangle mass along the axis (C12) and the definition of OFF.
            g = vc.ghost
            k, left, right, middle = L.k, L.left, L.right, L.middle
            other = L.result[1 - k]
            mk = lambda rng: [rng, other] if k == 0 else [other, rng]
            parent, lchild, rchild = mk((left, right)), mk((left, middle)), mk((middle + 1, right))
            vc.assume(Implies(middle < right, box_mass(g, parent) == box_mass(g, lchild) + box_mass(g, rchild)))
            vc.assume(And(box_mass(g, lchild) >= 0, box_mass(g, rchild) >= 0))
            flat = lambda b: (b[0][0], b[0][1], b[1][0], b[1][1])
            vc.assume(self.OFF(*flat(lchild)) == self.OFF(*flat(parent)))
            vc.assume(self.OFF(*flat(rchild)) == self.OFF(*flat(parent)) + box_mass(g, lchild))
        def before_mass(L, vc):
            # instances of lemma cell-boundaries-monotone at the box about to be measured (requires of the mass: a <= b)
            g = vc.ghost
            for k_, a_ in enumerate(g["axes"]):
                l_, r_ = L.result[k_]
                vc.assume(CellBoundariesMonotone.statement(a_, l_, r_))
        self.hints = {"p": after_p, "b_cc": before_mass}

    def configure(self, interp):
        pass

    def setup(self, vc, case):
        from contracts.c01 import wf_grid
        from pyvc.lib import Model
        from pyvc import ctx
        # quantifier-free: the ordering of the cell boundaries enters through instances of lemma cell-boundaries-monotone
        grid, ax, h, o = wf_grid(vc, d=2, quantified=False)
        ax1 = vc.seq("axis_of_coordinate1", "r", min_len=3)
        n = ax.length
        vc.assume(And(ax1.length == n, ax1.raw(o) == 0))
        axes = [ax, ax1]
        grid.fields["axes"] = axes
        bucket = [tuple(vc.ints(f"bucket{k}", 2)) for k in range(2)]
        vc.assume(And(*[And(0 <= l, l <= r, r <= n - 1) for (l, r) in bucket]))
        lam, u = (1.0 if case == "unit intensity" else vc.real("intensity")), vc.real("probability_within_the_bucket")
        g = vc.ghost
        g.update(axes=axes, bucket=bucket, lam=lam, u=u, o=o)
        vc.assume(And(lam > 0, u > 0, u * lam <= self.box_mass(g, bucket), self.OFF(bucket[0][0], bucket[0][1], bucket[1][0], bucket[1][1]) == 0))

        def mass(interp, a, b, indices=None):
            a, b = tuple(a), tuple(b)
            ctx.PATH.check("sample_one_bucket -> model.mass::requires(a<=b)", And(*[x <= y for x, y in zip(a, b)]))
            return self.M(a, b)
        model = vc.obj("rpylib.model.levycopulamodel:LevyCopulaModel", mass=Model(mass, "abstract-rectangle-mass"))
        smp = vc.obj(V + "binarysearchtreeadapted:BinarySearchTreeAdapted", model=model, grid=grid, intensity_of_jumps=lam)
        return dict(self=smp, coordinates=[bucket[0], bucket[1]], probability=u)

    def ensures(self, result, self_=None, coordinates=None, probability=None):
        from pyvc import ctx
        g = ctx.PATH.ghost
        o, lam, u = g["o"], g["lam"], g["u"]
        ok = isinstance(result, tuple) and len(result) == 2
        if not ok:
            return {"two-coordinates": False}
        c = [result[0] + o, result[1] + o]
        (L0, R0), (L1, R1) = g["bucket"]
        cell = [(c[0], c[0]), (c[1], c[1])]
        off = self.OFF(c[0], c[0], c[1], c[1])
        return {"a-state-of-the-bucket": And(L0 <= c[0], c[0] <= R0, L1 <= c[1], c[1] <= R1),
                "state-exactly-on-a-u-interval-of-length-mass-of-its-cell-over-lambda": And(off < u * lam, u * lam <= off + self.box_mass(g, cell))}

    def replay(self, model, clause, case):
        r = FactoryBattery().run("quick", 0)
        hit = [v for v in r["violations"] if "BINARYSEARCHTREEADAPTED" in json_str(v)]
        return (bool(hit), hit[0]["witness"] if hit else {})


def json_str(v):
    import json
    return json.dumps(v, default=str)


UNITS = [BinarySearchTreeSampler(), HuffmanSampler(), AliasSampler(), InversionSampler(), InversionOverTheStatesManager(), AdaptedBisection1D(), CellBoundariesMonotone(), AdaptedBisectionBucket2D()]
ASSUMPTIONS = ["A1: floats are mathematical reals (the alias method's comment about p = 1.0 arriving as 0.999999 is a floating-point concern outside this model)",
               "the number of states is enumerated (K = 2, 3, 4, with and without zero entries): complete in the probabilities and in the uniform, bounded in K",
               "the table method (32 random bits) and the bucket selection of the n-d adapted sampler are covered only by the bounded native battery; the 1-d adapted sampler and the k-d bisection of a bucket (d = 2) are proved for axes of symbolic length over an abstract additive (rectangle) mass (A6 / C12)"]
TRUSTED_BASE = ["z3 5.1 (LRA)", "pyvc interpreter + numpy / deque / bisect / sort models"]


class FactoryBattery:
    """bounded (native): samplers built by the public factory (through MarkovChainProcess) for every method it accepts.
    1-d: HEM and CGMY chains on uniform grids, methods ALIAS, TABLE, BINARYSEARCHTREE, HUFFMANNTREE, INVERSION,
    BINARYSEARCHTREEADAPTED1D: the batch call on a fine deterministic uniform grid (40 000 points; TABLE: 400 000 seeded
    32-bit integers) gives every state a share within the grid resolution of q_k / intensity, never the origin, never a
    state of zero rate, never a state outside the grid, and the same answers when the uniforms come in another order.
    2-d: Clayton copula of two HEM margins, INVERSION and BINARYSEARCHTREEADAPTED: the same against the cell masses."""
    name = "bounded:factory-battery"
    tier = "quick"

    def run(self, tier, seed):
        import random
        import warnings
        from contracts import battery
        from rpylib.grid.spatial import CTMCUniformGrid
        from rpylib.process.markovchain.markovchain import MarkovChainProcess
        from rpylib.distribution.sampling import SamplingMethod
        from rpylib.distribution.samplingfactory import create_q_vector
        import rpylib.distribution.variate.table as T
        viol, ev = {}, 0

        def bad(label, info):
            viol.setdefault(label, {"obligation": f"{self.name}::{label}", "bounded": self.name, "witness": info})
        N = 40000
        us = (np.arange(N) + 0.5) / N
        perm = np.random.default_rng(3).permutation(N)
        with warnings.catch_warnings():
            warnings.simplefilter("ignore")
            models = battery.models(("hem", "cgmy"))
            from rpylib.grid.spatial import CTMCGridProbabilityStep
            grids = [(mname, m, CTMCUniformGrid(h=0.05, model=m), "uniform") for mname, m in models.items()]
            grids.append(("hem", models["hem"], CTMCGridProbabilityStep(h=0.02, model=models["hem"], minimum_probability_step=0.05), "probability-step"))
            for mname, m, grid, gname in grids:
                o = grid.origin_coordinate.value
                for meth in (SamplingMethod.ALIAS, SamplingMethod.TABLE, SamplingMethod.BINARYSEARCHTREE, SamplingMethod.HUFFMANNTREE, SamplingMethod.INVERSION,
                             SamplingMethod.BINARYSEARCHTREEADAPTED1D):
                    ev += 1
                    info = {"model": mname, "method": meth.name, "grid": gname}
                    try:
                        def draw(order):
                            p = MarkovChainProcess(model=m, method=meth, grid=grid)
                            s = p.sampling
                            q = create_q_vector(p.model.levy_triplet.nu, grid) / p.intensity_of_jumps
                            q[o] = 0.0
                            if meth == SamplingMethod.TABLE:
                                rng = random.Random(11)
                                n = 10 * N
                                old = T.random.getrandbits
                                T.random.getrandbits = rng.getrandbits
                                try:
                                    out = s.sample(size=n)
                                finally:
                                    T.random.getrandbits = old
                            else:
                                uu = us[order].copy()
                                s.uniform.sample = lambda size=1: uu[:size]
                                out = s.sample(size=N)
                            return q, np.array([int(np.ravel(x)[0]) for x in out])
                        q, inc = draw(np.arange(N))
                        if inc.min() + o < 0 or inc.max() + o >= len(q):
                            bad("state-inside-the-grid", {**info, "increments_range": [int(inc.min()), int(inc.max())]})
                            continue
                        freq = np.bincount(inc + o, minlength=len(q)) / len(inc)
                        tol = 4.0 / np.sqrt(len(inc)) * np.sqrt(q.max()) + 1e-3 if meth == SamplingMethod.TABLE else 6.0 / N
                        if np.abs(freq - q).max() > tol:
                            k = int(np.argmax(np.abs(freq - q)))
                            bad("preimage-of-every-state-has-length-p_k", {**info, "state": k - o, "share_of_the_uniform_grid": float(freq[k]), "target": float(q[k])})
                        if (inc == 0).any():
                            bad("never-the-origin", info)
                        if freq[q == 0].sum() > 0:
                            bad("never-a-state-of-probability-zero", {**info, "states": (np.flatnonzero((q == 0) & (freq > 0)) - o).tolist()})
                        if meth != SamplingMethod.TABLE:
                            q2, inc2 = draw(perm)
                            if not np.array_equal(inc2, inc[perm]):
                                bad("state-for-a-uniform-independent-of-the-order-of-the-draws", info)
                    except Exception as e:
                        bad("sampler-built-by-the-factory-samples", {**info, "exception": f"{type(e).__name__}: {str(e)[:120]}"})
            # a second chain (other model) on the SAME grid, after the first one has been sampled: nothing may leak between samplers
            ev += 1
            try:
                gshared = CTMCUniformGrid(h=0.05, model=models["hem"])
                osh = gshared.origin_coordinate.value
                for meth in (SamplingMethod.BINARYSEARCHTREEADAPTED1D, SamplingMethod.INVERSION, SamplingMethod.ALIAS):
                    for mname in ("hem", "cgmy"):
                        p = MarkovChainProcess(model=models[mname], method=meth, grid=gshared)
                        s = p.sampling
                        q = create_q_vector(p.model.levy_triplet.nu, gshared) / p.intensity_of_jumps
                        q[osh] = 0.0
                        uu = us.copy()
                        s.uniform.sample = lambda size=1: uu[:size]
                        inc = np.array([int(np.ravel(x)[0]) for x in s.sample(size=N)])
                        freq = np.bincount(inc + osh, minlength=len(q)) / N
                        if np.abs(freq - q).max() > 6.0 / N + 1e-3 * (1 - q.sum()):
                            k = int(np.argmax(np.abs(freq - q)))
                            bad("second-chain-on-the-same-grid-has-its-own-law", {"method": meth.name, "model": mname, "state": k - osh, "share_of_the_uniform_grid": float(freq[k]), "target": float(q[k])})
            except Exception as e:
                bad("sampler-built-by-the-factory-samples", {"method": "two chains on one grid", "exception": f"{type(e).__name__}: {str(e)[:120]}"})
            # inversion beyond its stored cumulative sums (the store capped at a few entries): stateful index projection
            for mname, m in models.items():
                ev += 1
                grid = CTMCUniformGrid(h=0.05, model=m)
                info = {"model": mname, "method": "INVERSION", "stored_cumulative_sums_capped_at": 6}
                try:
                    def inv_draws(order, cap):
                        p = MarkovChainProcess(model=m, method=SamplingMethod.INVERSION, grid=grid)
                        s = p.sampling
                        if cap is not None:
                            s._max_storage = cap
                        return {float(u): int(np.ravel(s.sample_with_u(float(u)))[0]) for u in order}
                    uh = (np.arange(400) + 0.5) / 400
                    ref = inv_draws(uh, None)
                    a = inv_draws(uh[np.random.default_rng(1).permutation(400)], 6)
                    b = inv_draws(uh[::-1], 6)
                    if a != ref or b != ref:
                        k = next(u for u in ref if a[u] != ref[u] or b[u] != ref[u])
                        bad("inversion-with-a-capped-store-answers-like-an-uncapped-one-in-any-order", {**info, "u": k, "uncapped": ref[k], "capped_random_order": a[k], "capped_decreasing_order": b[k]})
                except Exception as e:
                    bad("sampler-built-by-the-factory-samples", {**info, "exception": f"{type(e).__name__}: {str(e)[:120]}"})
            # the same in two dimensions on a grid that is not symmetric about the origin: pairing indices of states outside the
            # grid are skipped, so the k-th stored state is not the state of pairing index k
            ev += 1
            try:
                from rpylib.model.levycopulamodel import LevyCopulaModel
                from rpylib.distribution.levycopula import ClaytonCopula
                from rpylib.model.levymodel.mixed.hem import HEMParameters, HEMModel
                from rpylib.process.markovchain.markovchainlevycopula import MarkovChainLevyCopula
                cma = LevyCopulaModel(models=[HEMModel(parameters=HEMParameters(sigma=0.1, p=0.6, eta1=25.0, eta2=40.0, intensity=5.0)),
                                              HEMModel(parameters=HEMParameters(sigma=0.1, p=0.3, eta1=15.0, eta2=60.0, intensity=5.0))], copula=ClaytonCopula(theta=0.7, eta=0.3))
                ga = CTMCUniformGrid(h=0.1, model=cma)
                ua = (np.arange(3000) + 0.5) / 3000
                pa = MarkovChainLevyCopula(levy_copula_model=cma, grid=ga, method=SamplingMethod.INVERSION)
                proto = pa.sampling

                def inv2(cap):
                    import copy
                    s_ = copy.deepcopy(proto)
                    if cap is not None:
                        s_._max_storage = cap
                    return [tuple(int(v) for v in np.ravel(s_.sample_with_u(float(u)))) for u in ua]
                ref2 = inv2(None)
                for cap in (35, 67, 75):
                    a2 = inv2(cap)
                    if a2 != ref2:
                        k = next(i for i in range(len(ua)) if a2[i] != ref2[i])
                        bad("inversion-with-a-capped-store-answers-like-an-uncapped-one-in-any-order", {"model": "clayton copula of two different HEM margins", "grid_axes": [len(a_) for a_ in ga.axes], "origin": [int(v) for v in ga.origin_coordinate.value],
                                                                                                         "stored_cumulative_sums_capped_at": cap, "u": float(ua[k]), "uncapped": list(ref2[k]), "capped": list(a2[k])})
                        break
            except Exception as e:
                bad("sampler-built-by-the-factory-samples", {"method": "INVERSION, capped store, 2-d", "exception": f"{type(e).__name__}: {str(e)[:120]}"})
            # the table method on a short vector whose first state owns table slots
            ev += 1
            try:
                from rpylib.distribution.variate.table import TableMethod
                # a vector of multiples of 1/256 (no remainder for the alias part) must be sampled too
                tm0 = TableMethod(np.array([0.5, 0.25, 0.25]), lambda k: k)
                o0 = np.asarray(tm0.sample(size=4000), dtype=int)
                f0 = np.bincount(o0, minlength=3) / o0.size
                if np.abs(f0 - np.array([0.5, 0.25, 0.25])).max() > 4e-2:
                    bad("table-method-on-a-short-vector", {"p": [0.5, 0.25, 0.25], "frequencies": f0.tolist()})
                pv = np.array([0.3, 0.2, 0.5])
                tm = TableMethod(pv, lambda k: k)
                rng = random.Random(5)
                old = T.random.getrandbits
                T.random.getrandbits = rng.getrandbits
                try:
                    out = np.asarray(tm.sample(size=200000), dtype=int)
                finally:
                    T.random.getrandbits = old
                fr = np.bincount(out, minlength=3) / out.size
                if np.abs(fr - pv).max() > 5e-3:
                    bad("table-method-on-a-short-vector", {"p": pv.tolist(), "frequencies": fr.tolist()})
            except Exception as e:
                bad("table-method-on-a-short-vector", {"exception": f"{type(e).__name__}: {str(e)[:120]}"})
            # two dimensions
            cm = battery.copula_model(2, "clayton")
            from rpylib.grid.spatial import CTMCGrid
            hh = 0.05
            # 9 x 9 states: every quadrant bucket holds several states of visible mass; and a grid with a SINGLE state on the left
            # of the origin (the buckets {left state} x {right states} are lines parallel to an axis but not on it)
            grids2 = [("uniform 9x9", CTMCUniformGrid(h=0.1, model=cm)),
                      ("one state on the left, four on the right", CTMCGrid(h=hh, origin_coordinate=1, axes=[np.array([-hh, 0.0, hh, 2 * hh, 3 * hh, 4 * hh]) for _ in range(2)]))]
            n2 = 20000
            u2 = (np.arange(n2) + 0.5) / n2
            for (gname, grid2), meth in itertools.product(grids2, (SamplingMethod.INVERSION, SamplingMethod.BINARYSEARCHTREEADAPTED)):
                ev += 1
                info = {"model": "clayton copula of two HEM margins", "method": meth.name, "grid": gname}
                try:
                    from rpylib.process.markovchain.markovchainlevycopula import MarkovChainLevyCopula
                    p = MarkovChainLevyCopula(levy_copula_model=cm, grid=grid2, method=meth)
                    s = p.sampling
                    uu = u2.copy()
                    s.uniform.sample = lambda size=1: uu[:size]
                    out = s.sample(size=n2)
                    oc = tuple(grid2.origin_coordinate.value)
                    shape = tuple(len(ax) for ax in grid2.axes)
                    cnt = np.zeros(shape)
                    for st in out:
                        idx = tuple(int(a) + b for a, b in zip(st, oc))
                        if any(i < 0 or i >= n_ for i, n_ in zip(idx, shape)):
                            bad("state-inside-the-grid", {**info, "state_increment": [int(a) for a in st]})
                            break
                        cnt[idx] += 1
                    freq = cnt / n2
                    from rpylib.grid.grid import Coordinates
                    q = np.zeros(shape)
                    for idx in np.ndindex(*shape):
                        if idx == oc:
                            continue
                        c = Coordinates(idx)
                        a = grid2.middle(grid2.left_point(c), grid2[c])
                        b = grid2.middle(grid2[c], grid2.right_point(c))
                        q[idx] = max(p.model.mass(a, b), 0.0) / p.intensity_of_jumps
                    if freq[oc] > 0:
                        bad("never-the-origin", info)
                    if np.abs(freq - q).max() > 30.0 / n2 + 2e-3:
                        k = np.unravel_index(int(np.argmax(np.abs(freq - q))), shape)
                        bad("preimage-of-every-state-has-length-p_k", {**info, "state": [int(i) - int(c_) for i, c_ in zip(k, oc)], "share_of_the_uniform_grid": float(freq[k]), "target": float(q[k]), "sum_of_targets": float(q.sum())})
                    if freq[(q == 0)].sum() > 0:
                        bad("never-a-state-of-probability-zero", info)
                except Exception as e:
                    bad("sampler-built-by-the-factory-samples", {**info, "exception": f"{type(e).__name__}: {str(e)[:160]}"})
        return {"name": self.name, "evaluations": ev, "distinct_nontrivial": ev, "violations": list(viol.values()), "samples": [],
                "bound": "2 one-dimensional models x 6 methods on a 40 000-point uniform grid (TABLE: 400 000 seeded integers); 1 two-dimensional copula x 2 methods on 20 000 points"}

    def replay(self, rec):
        r = self.run("quick", 0)
        hit = [v for v in r["violations"] if v["obligation"] == rec["obligation"]]
        return (bool(hit), hit[0]["witness"] if hit else {})


BOUNDED = [FactoryBattery()]


def LATE_UNITS():
    # "stateful index projections": the inversion sampler walks the states through StatesManager; its contract (the next
    # admissible index, each admissible state once) and the bounded enumeration battery live with the pairings (c14)
    from contracts import c14, c01
    # the cells the multi-dimensional samplers integrate over are bounded by the neighbours ON EACH AXIS (c01's contract of
    # left_point / right_point, axes of different lengths included)
    return [c14.StatesManagerNext(), c01.Neighbours()]


from contracts.c14 import StatesEnumerationBounded as _SEB     # noqa: E402  (bounded: every admissible state exactly once)
BOUNDED.append(_SEB())
