"""Native scripted standard-engine harness (bounded stand-in / native replay for C07).

The REAL standard Engine, MCPath, Product, ControlVariates and statistics classes are driven by a scripted process whose
k-th simulated path ends at a prescribed vector of terminal values; payoff and controls are functions of that terminal
vector, so price / error / control-variate adjustment can be recomputed independently from the same samples.
"""
import numpy as np

TIMES = np.array([0.0, 1.0])


def _classes():
    from rpylib.product.underlying import Underlying

    class Terminal(Underlying):
        """payoff underlying = the whole terminal vector of the path"""
        def __init__(self, index=None):
            self.index = index

        def value(self, times, path, jump_path, payoff_underlying=None):
            v = path[..., -1]
            return v if self.index is None else v[self.index]

        def compute_times_grid(self, maturity):
            return TIMES

        def imply_from_payoff_underlying(self, payoff_underlying_type):
            return self.value

        def check_consistency(self, process_dimension):
            pass
    return Terminal


class FakeModel:
    def __init__(self, d):
        self.d = d

    def dimension(self):
        return self.d


class ScriptedProcess:
    def __init__(self, terminal_values, df):
        from rpylib.process.process import ProcessRepresentation
        self.terminal_values = np.atleast_2d(np.asarray(terminal_values, dtype=float))     # (n_paths, d)
        self._df = df
        self.model = FakeModel(self.terminal_values.shape[1])
        self.process_representation = ProcessRepresentation.IDENDITY
        self.position = 0
        self.log = []

    def dimension(self):
        return self.model.d

    def initialisation(self, product):
        self.log.append("init")

    def pre_computation(self, mc_paths, product):
        self.log.append(("pre", mc_paths))

    def deterministic_path(self, times):
        return np.zeros(shape=(self.model.d, times.size))

    def df(self, t):
        return self._df

    def simulate_one_path(self):
        from rpylib.montecarlo.path import StochasticJumpPath
        v = self.terminal_values[self.position]
        self.position += 1
        path = np.stack([np.zeros(self.model.d), v], axis=1)       # (d, 2)
        return StochasticJumpPath(TIMES, path, np.zeros_like(path))


def make_product(strikes, notional=1.0, index=0):
    from rpylib.product.product import Product
    from rpylib.product.payoff import Vanilla, PayoffType
    Terminal = _classes()
    k = np.asarray(strikes, dtype=float)
    return Product(payoff_underlying=Terminal(index), payoff=Vanilla(strike=float(k[0]) if k.size == 1 else k, payoff_type=PayoffType.CALL),
                   maturity=1.0, notional=notional)


def textbook_cv(Y, X, prices):
    """Y (n,), X (n, c), prices (c,): adjusted sample Y - b*(X - prices), b* = Sigma_x^{-1} sigma_xy (Glasserman 4.1.2);
    controls without sample variance get coefficient 0"""
    n, c = X.shape
    Xc, Yc = X - X.mean(axis=0), Y - Y.mean()
    S = Xc.T @ Xc / n
    s = Xc.T @ Yc / n
    if np.any(np.diag(S) < 1e-12):
        b = np.zeros(c)
    else:
        try:
            b = np.linalg.solve(S, s)
        except np.linalg.LinAlgError:
            b = np.zeros(c)
    return Y - (X - np.asarray(prices, dtype=float)) @ b


def run_schedule(schedule, dim=1, n_controls=0, df=0.8, notional=3.0, seed=5, correlated=True, scalar_prices=True):
    """price() is called on ONE engine once per entry of `schedule` (the configured number of paths of that call).
    -> list of problems found (empty = everything textbook)"""
    from rpylib.montecarlo.configuration import ConfigurationStandard
    from rpylib.montecarlo.standard.engine import Engine
    from rpylib.product.product import ControlVariates
    rng = np.random.default_rng(seed)
    d = 1 + n_controls
    total = sum(schedule)
    U = rng.normal(size=(total, d))
    if correlated and n_controls:
        U[:, 1:] = 0.6 * U[:, [0]] + 0.5 * U[:, 1:] + (0.3 * U[:, 1:].sum(axis=1, keepdims=True) if n_controls > 1 else 0.0)
    strikes = np.array([0.1, -0.2, 0.35][:dim])
    pay = lambda v: np.maximum(v[0] - strikes, 0.0)
    product = make_product(strikes, notional=notional)
    cv = None
    cv_prices = None
    if n_controls:
        ctrl_fun = [(lambda v, j=j: np.maximum(v[j] - (0.5 * strikes - 0.4 - 0.05 * j), 0.0)) for j in range(1, d)]
        prods = [make_product(0.5 * strikes - 0.4 - 0.05 * j, notional=1.0, index=j) for j in range(1, d)]
        if scalar_prices and dim == 1:
            cv_prices = [0.02 + 0.11 * j for j in range(1, d)]
            pr_matrix = np.array(cv_prices)[:, None]                    # (c, dim)
        else:
            pr_matrix = np.array([[0.02 + 0.11 * j + 0.07 * k for k in range(dim)] for j in range(1, d)])
            cv_prices = [row.copy() for row in pr_matrix]
        cv = ControlVariates(prods, cv_prices)
    conf = ConfigurationStandard(mc_paths=schedule[0], seed=1, nb_of_processes=1, control_variates=cv)
    process = ScriptedProcess(U, df)
    engine = Engine(conf, process)
    problems = []
    pos = 0
    for call, n in enumerate(schedule):
        conf.mc_paths = n
        stats = engine.price(product)
        u = U[pos:pos + n]
        pos += n
        Y = np.array([df * notional * np.atleast_1d(pay(v)) for v in u])        # (n, dim)
        rows = stats._payoff_statistics.stats
        tag = f"call {call} (mc_paths={n})"
        if rows.shape[0] != n:
            problems.append(f"{tag}: {rows.shape[0]} rows enter the statistics but {n} paths were configured")
        if process.position != pos:
            problems.append(f"{tag}: {process.position} paths simulated so far, expected {pos}")
        price = np.atleast_1d(stats.price(no_control_variates=True))
        if price.shape != (dim,) or not np.allclose(price, Y.mean(axis=0), rtol=1e-10, atol=1e-12):
            problems.append(f"{tag}: price {price.tolist()} is not df * mean of the notional-scaled payoff {Y.mean(axis=0).tolist()}")
        err = np.atleast_1d(stats.mc_stddev(no_control_variates=True))
        want = Y.std(axis=0, ddof=1) / np.sqrt(n) if n > 1 else np.zeros(dim)
        if err.shape != (dim,) or not np.allclose(err, want, rtol=1e-10, atol=1e-12):
            problems.append(f"{tag}: error {err.tolist()} is not the unbiased stddev / sqrt(n) {want.tolist()}")
        if n_controls and n > 1:
            adj = stats._payoff_statistics_with_cv.stats
            for k in range(dim):
                X = np.array([[df * np.atleast_1d(f(v))[k] for f in ctrl_fun] for v in u])       # (n, c)
                want_adj = textbook_cv(Y[:, k], X, pr_matrix[:, k])
                got = adj[:n, k] if adj.ndim == 2 else adj[:n]
                if got.shape != want_adj.shape or not np.allclose(got, want_adj, rtol=1e-8, atol=1e-10):
                    problems.append(f"{tag}: component {k}: control-variate adjusted sample differs from Y - b*(X - price_X) "
                                    f"(mean {float(np.mean(got)):.6f} vs {float(want_adj.mean()):.6f})")
                elif np.var(got) > np.var(Y[:, k]) * (1 + 1e-10) + 1e-14:
                    problems.append(f"{tag}: component {k}: adjusted variance exceeds the raw one")
            pcv = np.atleast_1d(stats.price())
            if not np.allclose(pcv, np.atleast_2d(adj.T).T[:n].mean(axis=0), rtol=1e-10):
                problems.append(f"{tag}: price with control variates is not the mean of the adjusted sample")
    return problems
