"""Registry of claimed checks (drives MANIFEST.json via bin/mkmanifest.py)."""
CHECKS = {}
NOT_APPLICABLE = {}
HOOK_COMMITS = []
NOTES = ("Contract-based deductive verification: pyvc symbolically executes the real function ASTs read from /repo "
         "on every run against sidecar contracts in /verif/contracts and discharges the obligations with z3/cvc5/sympy. "
         "Exit codes: 0 held, 1 violation, 2 undecided, 3 checker error.")
