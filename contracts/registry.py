"""Registry of claimed checks (drives MANIFEST.json via bin/mkmanifest.py)."""
CHECKS = {
    "C14": dict(
        level="proof",
        technique="contract-based deductive verification: sidecar pre/postconditions + loop invariants on the real pairing/projection/enumeration functions, VCs generated from the /repo AST by pyvc and discharged by z3 (NIA) with cvc5 fallback; bijection statements as lemmas over the contracts (opaque spec functions + proved injectivity lemmas)",
        text="Every obligation is proved for all integers (unbounded): the 2-d pairings of Szudzik, Rosenberg-Strong and Cantor and their projections are mutually inverse on N^2; nested 3-d pairing; Rosenberg-Strong n-d methods for d=1,2,3 including the integer-root correction loops (inductive invariants); Z<->N foldings; PairingToZd for d=2,3 over each pairing; PairingToZ1d for the three interval shapes and any call order; lazy_indices_product yields the mixed-radix digits of n for n < prod(sizes) (loop invariant over a symbolic number of iterations, sizes symbolic, 1..3 axes); StatesManager returns the admissible state of smallest remaining index and signals exhaustion only after the largest frontier index (quantified loop invariant over abstract is_outside / index->state).",
        note="Trusted: z3/cvc5, the pyvc interpreter and library models (math.isqrt exact; floor of an integer quotient = floor division; x**(1/d) a real d-th root), Python ints unbounded. Not covered deductively: HyperbolicPairing (integer factorisation; no contract within reach), PepisKalmar, Domain.compute_total_number_of_states_and_frontier for d>=2 (abstracted behind the frontier-index contract of StatesManager). Pigeonhole (injective map between finite sets of equal size is bijective) is used for lazy_indices_product with 3 axes only as a cross-check; surjectivity is also proved directly.",
    ),
    "C17": dict(
        level="proof",
        technique="contract-based deductive verification: the real evaluate()/value()/process()/update() bodies are symbolically executed (pyvc) on objects built by the real constructors; identities and purity are obligations over all real strikes/paths discharged by z3 (LRA + uninterpreted exp/log with inverse/monotonicity instances)",
        text="Full-domain (all real strikes, underlying values, barriers, notionals) for the scalar identities: call-put=forward, call spread and butterfly equal their call combinations, spread non-negative, digital call+put=1, notional linear. Path clauses (knock-in+knock-out=vanilla, value independent of the path evaluated before, identity vs log representation for 9 underlying classes incl. update(LOG)/update(IDENDITY) sequences, Mean between extremes, default time = first jump below threshold else +inf, n-th default times sorted) are proved for every path of length <= 4 / up to 3 names with symbolic values: complete in the values, bounded in the length.",
        note="Trusted: z3, pyvc interpreter, numpy models (np.maximum = ite, argwhere/argpartition by exhaustive case split), A1 (floats as reals), exp/log axioms (inverse pair, strict monotonicity, exp(a-b)=exp(a)/exp(b)). Path length bound 4 (not a proof for longer paths). Known findings: Butterfly negative for unequal wings; Asian.value raises. Not covered: Rainbow, Ratchet, LookBack (always raises by design), Swaption/Cap/Bond (rate products), CDS (see C19).",
    ),
}
NOT_APPLICABLE = {}
HOOK_COMMITS = []
NOTES = ("Contract-based deductive verification: pyvc symbolically executes the real function ASTs read from /repo "
         "on every run against sidecar contracts in /verif/contracts and discharges the obligations with z3/cvc5/sympy. "
         "Exit codes: 0 held, 1 violation, 2 undecided, 3 checker error.")
