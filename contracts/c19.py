"""C19 — credit closed forms equal the default-region jump rate of the benchmarked chain."""
import itertools

import numpy as np
import z3

from pyvc.contract import FunctionContract, Lemma, VC, Req
from pyvc.sym import And, Or, Not, Implies, If, Eq, compare, smax, smin, is_sym, Sym, lift, as_real_term, as_int_term, INF, PyRaise
from contracts.spec_measure import MU, additivity, basic_axioms
from contracts.c01 import wf_grid, cell_lo, cell_hi, LM

PROPERTY_ID = "C19"
LEVEL = "proof"
CF = "rpylib.numerical.closedform.cflevymodel:"
CC = "rpylib.numerical.closedform.cflevycopula:"

TAILL = z3.Function("MU_left_tail", z3.RealSort(), z3.RealSort())      # nu((-inf, a])


def tail(a):
    return Sym(TAILL(as_real_term(lift(a))), "r")


class OneName(Lemma):
    """CFLevyModel: theta(a) is the Levy mass of the default half-line (-inf, a); survival = exp(-t theta); par spread =
    (1-R) theta; implied_cds_spread solves default_leg - s fixed_leg = pv (unique root, root-finder contract assumed), and
    at pv = 0 it returns exactly the par spread (the two formulas invert each other)."""
    prop = "C19"
    name = "property:one-name-closed-forms"

    def prove(self, vc, case):
        it = vc.interp
        from pyvc import ctx

        def mass(interp, a, b, indices=None):
            ctx.PATH.check(self.name + "::theta-integrates-the-default-half-line", And(a == -INF if not is_sym(a) else False, True))
            ctx.PATH.ghost["mass_args"] = (a, b)
            return tail(b)
        from pyvc.lib import Model
        a, R, t, r, T, pv = vc.real("level_a"), vc.real("recovery"), vc.real("t"), vc.real("r"), vc.real("maturity"), vc.real("pv")
        vc.assume(And(a < 0, R >= 0, R < 1, t >= 0, r >= 0, T > 0, tail(a) > 0))
        model = vc.obj(LM + "LevyModel", mass=Model(mass, "abstract-mass"), r=r)
        cf = vc.obj(CF + "CFLevyModel", model=model)
        th = vc.method(cf, "_theta", a)
        vc.check(self.name + "::theta-is-the-mass-below-the-threshold", And(th == tail(a), vc.ghost["mass_args"][1] is a or vc.ghost["mass_args"][1] == a))
        sp_ = vc.method(cf, "survival_probability", a, t)
        vc.check(self.name + "::survival-is-exp(-t-theta)", sp_ == it.lib.m_exp(-t * tail(a)))
        par = vc.method(cf, "cds_spread", a, R)
        vc.check(self.name + "::par-spread-is-(1-R)-theta", par == (1 - R) * tail(a))
        try:
            s = vc.method(cf, "implied_cds_spread", pv, a, R, T)
        except PyRaise as e:
            vc.check(self.name + "::only-the-root-finder's-no-bracket-error-may-be-raised", e.exc_type == "ValueError")
            return
        E = it.lib.m_exp(-(r + tail(a)) * T)
        vc.assume(E < 1)                                   # exp of a negative number (r + theta > 0, T > 0)
        fixed = (1 - E) / (r + tail(a))
        default = (1 - R) * (1 - E) * tail(a) / (r + tail(a))
        vc.check(self.name + "::implied-spread-solves-the-present-value-equation", default - s * fixed == pv)
        vc.check(self.name + "::implied-spread-at-zero-pv-is-the-par-spread", Implies(pv == 0, s == par))
        # history: the same level asked again after the pricer's model has changed (its measure truncated to a grid, or the
        # model attribute reassigned): theta is the mass of the CURRENT model
        tail2 = z3.Function("MU_tail_left_of_the_changed_model", z3.RealSort(), z3.RealSort())
        T2 = lambda x: Sym(tail2(as_real_term(lift(x))), "r")
        model.fields["mass"] = Model(lambda interp, a_, b_, indices=None: T2(b_), "abstract-mass-after-the-change")
        vc.check(self.name + "::after-the-model-changed:theta-is-the-mass-of-the-current-model[same model object]", vc.method(cf, "_theta", a) == T2(a))
        cf.fields["model"] = vc.obj(LM + "LevyModel", mass=Model(lambda interp, a_, b_, indices=None: T2(b_) + 1, "abstract-mass-of-another-model"), r=r)
        vc.check(self.name + "::after-the-model-changed:theta-is-the-mass-of-the-current-model[model attribute reassigned]", vc.method(cf, "_theta", a) == T2(a) + 1)

    def replay(self, model, clause, case):
        from contracts import battery
        from rpylib.numerical.closedform.cflevymodel import CFLevyModel
        m = battery.models(("hem",))["hem"]
        cf = CFLevyModel(m)
        a, R, T = -0.1, 0.4, 2.0
        th = m.levy_triplet.nu.integrate(-np.inf, a)
        bad = abs(cf._theta(a) - th) > 1e-12 or abs(cf.cds_spread(a, R) - (1 - R) * th) > 1e-12 or abs(cf.survival_probability(a, 1.5) - np.exp(-1.5 * th)) > 1e-12
        s = cf.implied_cds_spread(pv=0.0, level_a=a, recovery_rate=R, maturity=T)
        bad = bad or abs(s - cf.cds_spread(a, R)) > 1e-8
        if "after-the-model-changed" in clause:
            before = float(cf._theta(a))
            m.truncate_levy_measure((-0.15, 0.2))
            after, want = float(cf._theta(a)), float(m.levy_triplet.nu.integrate(-np.inf, a))
            m2 = battery.models(("merton",))["merton"]
            cf.model = m2
            other, want2 = float(cf._theta(a)), float(m2.levy_triplet.nu.integrate(-np.inf, a))
            return (abs(after - want) > 1e-12 or abs(other - want2) > 1e-12,
                    {"theta_before": before, "theta_after_truncation_to_(-0.15,0.2)": after, "mass_of_the_truncated_measure": want, "theta_after_model_reassigned": other, "mass_of_the_new_model": want2})
        return (bool(bad), {"theta": float(cf._theta(a)), "mass_below_a": float(th), "implied_spread_at_pv0": float(s), "par_spread": float(cf.cds_spread(a, R))})


class UnionByInclusionExclusion(FunctionContract):
    """CFLevyCopulaModel._theta (d = 2, 3): the Levy mass of the union of the default half-spaces {x_i < a_i}, i.e. the sum
    of the masses of the 2^d - 1 atoms (which names default together) -- through inclusion-exclusion with the signs the
    code uses; hence non-negative and increasing with every atom (threshold)."""
    prop = "C19"
    target = CC + "CFLevyCopulaModel._theta"
    cases = (2, 3)

    def __init__(self):
        self.name = "CFLevyCopulaModel._theta"

    def configure(self, interp):
        from pyvc import ctx
        from pyvc.lib import Model
        G = lambda: ctx.PATH.ghost

        def atoms_containing(idx):
            g = G()
            return sum((m for S, m in g["atoms"].items() if set(idx) <= set(S)), 0)

        def pair(it, f, b):
            g = G()
            idx = list(b["indices"])
            x = tuple(b["x"])
            ctx.PATH.check("_theta -> margin_tail_integral::called-at-the-two-thresholds", And(*[x[k] == g["levels"][i] for k, i in enumerate(idx)]))
            return atoms_containing(idx)                 # both arguments negative: +mass of {x_i < a_i, x_j < a_j}
        interp.hooks["rpylib.model.levycopulamodel:LevyCopulaModel.margin_tail_integral"] = pair

        def triple(it, f, b):
            g = G()
            x = tuple(b["x"])
            ctx.PATH.check("_theta -> tail_integrals::called-at-the-thresholds", And(*[xi == ai for xi, ai in zip(x, g["levels"])]))
            return -atoms_containing(range(len(x))) if len(x) % 2 else atoms_containing(range(len(x)))   # sign (-1)^d
        interp.hooks["rpylib.model.levycopulamodel:LevyCopulaModel.tail_integrals"] = triple
        interp.hooks["rpylib.model.levycopulamodel:LevyCopulaModel.dimension"] = lambda it, f, b: G()["d"]
        self._atoms_containing = atoms_containing

    def setup(self, vc, d):
        from pyvc.lib import Model
        from pyvc import ctx
        g = vc.ghost
        levels = vc.reals("level_a", d)
        vc.assume(And(*[a < 0 for a in levels]))
        atoms = {}
        for k in range(1, d + 1):
            for S in itertools.combinations(range(d), k):
                m = vc.real("atom_" + "".join(str(i + 1) for i in S))
                vc.assume(m >= 0)
                atoms[S] = m
        g.update(levels=levels, atoms=atoms, d=d)

        def mk_mass(i):
            def mass(interp, a, b, indices=None):
                ctx.PATH.check(f"_theta -> margin{i}.mass::default-half-line", And((not is_sym(a)) and a == -INF, b == levels[i]))
                return sum((m for S, m in atoms.items() if i in S), 0)
            return Model(mass, f"margin-mass{i}")
        models = [vc.obj(LM + "LevyModel", mass=mk_mass(i)) for i in range(d)]
        cm = vc.obj("rpylib.model.levycopulamodel:LevyCopulaModel", models=models)
        return dict(self=vc.obj(CC + "CFLevyCopulaModel", levy_copula_model=cm), levels_a=list(levels))

    def ensures(self, result, self_=None, levels_a=None):
        from pyvc import ctx
        g = ctx.PATH.ghost
        total = sum(g["atoms"].values(), 0)
        return {"theta-is-the-mass-of-the-union-of-the-default-half-spaces": result == total, "non-negative": result >= 0}

    def replay(self, model, clause, d):
        from contracts import battery
        from rpylib.numerical.closedform.cflevycopula import CFLevyCopulaModel
        cm = battery.copula_model(d, "clayton")
        cf = CFLevyCopulaModel(cm)
        a = [-0.1, -0.15, -0.2][:d]
        th = float(cf._theta(a))
        # union mass by complementary rectangle masses: total marginal masses minus overlaps (independent recomputation)
        big = -50.0
        if d == 2:
            both = cm.mass(a=(big, big), b=(a[0], a[1]))
            u = [cm.models[i].levy_triplet.nu.integrate(-np.inf, a[i]) for i in range(2)]
            want = u[0] + u[1] - both
        else:
            u = [cm.models[i].levy_triplet.nu.integrate(-np.inf, a[i]) for i in range(3)]
            pairs = sum(cm.margin_tail_integral(indices=[i, j], x=(a[i], a[j])) for i, j in ((0, 1), (0, 2), (1, 2)))
            triple = cm.mass(a=(big, big, big), b=tuple(a))
            want = sum(u) - pairs + triple
        return (abs(th - want) > 1e-6 * max(1.0, abs(want)), {"levels": a, "theta": th, "union_mass": float(want)})


class ChainDefaultRate(Lemma):
    """on a credit axis [l, a-eps, a+eps, -h, 0, h, r] the boundary between the two states around the threshold is exactly a
    (C13), so the total rate of the chain states below the threshold, sum of C01's rates of states 0 and 1, is the truncated
    mass MU(l, a) = the closed-form default intensity of the measure restricted to the grid's truncation."""
    prop = "C19"
    name = "property:chain-default-rate-equals-closed-form"

    def prove(self, vc, case):
        basic_axioms(vc)
        l, a, eps, h, r = vc.real("l"), vc.real("a"), vc.real("eps"), vc.real("h"), vc.real("r")
        vc.assume(And(h > 0, eps > 0, l < a - eps, a + eps < -h, r > h))
        ax = [l, a - eps, a + eps, -h, 0, h, r]
        lo = lambda k: (ax[max(k - 1, 0)] + ax[k]) / 2
        hi = lambda k: (ax[k] + ax[min(k + 1, len(ax) - 1)]) / 2
        vc.check(self.name + "::threshold-is-a-cell-boundary", And(hi(1) == a, lo(2) == a))
        rate = lambda k: MU(lo(k), hi(k))                         # C01: rate of state k
        vc.assume(additivity(lo(0), hi(0), hi(1)))
        vc.check(self.name + "::rates-of-the-states-below-the-threshold-sum-to-the-truncated-default-mass", rate(0) + rate(1) == MU(l, a))
        # closed form with the measure truncated to [l, r]: TruncatedLevyMeasure.integrate(-inf, a) = MU(max(-inf,l).., min(a, r)) (C01 contract)
        vc.check(self.name + "::closed-form-on-the-truncated-measure-is-that-mass", MU(smax(l, l), smin(a, r)) == MU(l, a))


UNITS = [OneName(), UnionByInclusionExclusion(), ChainDefaultRate()]


def LATE_UNITS():
    # "default time from the first jump below the threshold" (underlying.py) is part of C19's mechanism: the default-region
    # states of the chain are exactly those the default-time underlyings flag; the contracts live in c17
    from contracts import c17, c13
    # "thresholds placed on cell boundaries (as the credit grid does)": the credit-grid constructor contract lives in c13
    return [c17.DefaultTimes(), c13.CreditInit()]

ASSUMPTIONS = ["A1: floats are mathematical reals", "A3: brentq returns a root inside its bracket (implied spread); bracket adequacy not checked",
               "sign conventions of margin_tail_integral / tail_integrals at negative arguments (+mass of the joint default set for two names, (-1)^d for d names) are C12's contract"]
TRUSTED_BASE = ["z3 5.1", "pyvc interpreter + numpy models"]


class ChainDefaultRate2d:
    """bounded (native): two names, Clayton copula of two HEM margins, real CTMCCredit grid (h = 0.01, levels (-0.12, -0.2)) and
    real MarkovChainLevyCopula: the total rate of the chain states with at least one coordinate below its threshold
      (a) equals the joint Levy mass of the default region INSIDE the grid's box, by inclusion-exclusion over three
          rectangles of the chain's own model (exact to rounding), and
      (b) equals CFLevyCopulaModel._theta evaluated on the chain's truncated model -- the closed form the property names."""
    name = "bounded:chain-default-rate-2d"
    tier = "quick"

    def run(self, tier, seed):
        from contracts import battery
        from rpylib.grid.spatial import CTMCCredit
        from rpylib.process.markovchain.markovchainlevycopula import MarkovChainLevyCopula
        from rpylib.distribution.sampling import SamplingMethod
        from rpylib.numerical.closedform.cflevycopula import CFLevyCopulaModel
        viol, samples, ev = [], [], 0
        for sym in (True, False):
            ev += 1
            cm = battery.copula_model(2, "clayton")
            levels = [-0.12, -0.2]
            g = CTMCCredit(h=0.01, level_a=levels, model=cm, symmetric_grid=sym)
            proc = MarkovChainLevyCopula(levy_copula_model=cm, grid=g, method=SamplingMethod.INVERSION)
            mt = proc.model
            axes, o = g.axes, g.origin_coordinate.value
            lo = lambda ax, i: 0.5 * (ax[max(i - 1, 0)] + ax[i])
            hi = lambda ax, i: 0.5 * (ax[i] + ax[min(i + 1, len(ax) - 1)])
            tot = dflt = 0.0
            for i in range(len(axes[0])):
                for j in range(len(axes[1])):
                    if (i, j) == (o[0], o[1]):
                        continue
                    m = float(mt.mass(a=(lo(axes[0], i), lo(axes[1], j)), b=(hi(axes[0], i), hi(axes[1], j))))
                    tot += m
                    if axes[0][i] < levels[0] or axes[1][j] < levels[1]:
                        dflt += m
            l, r = [ax[0] for ax in axes], [ax[-1] for ax in axes]
            box = float(mt.mass(a=(l[0], l[1]), b=(levels[0], r[1])) + mt.mass(a=(l[0], l[1]), b=(r[0], levels[1])) - mt.mass(a=(l[0], l[1]), b=(levels[0], levels[1])))
            theta_t = float(CFLevyCopulaModel(mt)._theta(levels))
            info = {"grid": f"CTMCCredit(h=0.01, levels={levels}, symmetric_grid={sym})", "model": "Clayton(0.7, 0.3) of two HEM margins", "chain_default_region_rate": dflt,
                    "mass_of_the_default_region_inside_the_box": box, "closed_form_theta_on_the_truncated_model": theta_t, "closed_form_theta_on_the_full_model": float(CFLevyCopulaModel(cm)._theta(levels)),
                    "sum_of_all_rates": tot, "reported_intensity": float(proc.intensity())}
            samples.append(info)
            tag = "symmetric" if sym else "one-sided"
            if abs(dflt - box) > 1e-10 * max(1.0, abs(box)) or abs(tot - proc.intensity()) > 1e-9 * tot:
                viol.append({"obligation": f"{self.name}[{tag}]::equals-the-mass-of-the-default-region-inside-the-box", "bounded": self.name, "witness": info})
            if abs(dflt - theta_t) > 1e-9 * max(1.0, abs(theta_t)):
                viol.append({"obligation": f"{self.name}[{tag}]::equals-the-closed-form-on-the-truncated-model", "bounded": self.name, "witness": info})
        return {"name": self.name, "evaluations": ev, "distinct_nontrivial": ev, "violations": viol, "samples": samples[:2],
                "bound": "one 2-name model, credit grid symmetric / one-sided, h = 0.01"}

    def replay(self, rec):
        r = self.run("quick", 0)
        hit = [v for v in r["violations"] if v["obligation"] == rec["obligation"]]
        return (bool(hit), hit[0]["witness"] if hit else {})


BOUNDED = [ChainDefaultRate2d()]
