"""C08 — randomness discipline: seeded runs repeat; no two samples share random variates.

Ghost ledger of generator events: the real engine bodies are executed with every source of randomness replaced by an
event ("seed s", "draw by pre_computation", "draw by simulate_one_path"); a seeded single-process run is reproducible
exactly when every draw of the run comes after the (single) seeding, and no sample can share variates with an earlier
one through the generator state when the generator is never put back into a state that has already produced samples.
The per-level routine of the multilevel engine is verified for an arbitrary earlier history (a ghost flag says the
generator has already produced samples under the configured seed).  What the ledger cannot see -- process-local copies of
pre-drawn variates in worker pools, bit-for-bit equality of floating-point results -- is covered by a bounded native battery.
"""
import numpy as np
import z3

from pyvc.contract import FunctionContract, Lemma, VC, Req
from pyvc.sym import And, Or, Not, Implies, If, is_sym, Sym, lift, PyRaise, Unsupported, compare
from pyvc.values import Obj

PROPERTY_ID = "C08"
LEVEL = "proof"
CF = "rpylib.montecarlo.configuration:"
SE = "rpylib.montecarlo.standard.engine:"
ME = "rpylib.montecarlo.multilevel.engine:"


def rng_hooks(vc, log):
    import random
    import os
    import time
    it = vc.interp
    it.native_hooks = dict(getattr(it, "native_hooks", None) or {})
    it.native_hooks[id(np.random.seed)] = lambda it_, s=None: log.append(("np.random.seed", s))
    it.native_hooks[id(np.random.default_rng)] = lambda it_, s=None: log.append(("np.random.default_rng (discarded)", s))
    it.native_hooks[id(random.seed)] = lambda it_, s=None: log.append(("random.seed", s))
    it.opaque_hooks = {"random.seed": lambda it_, s=None: log.append(("random.seed", s)),
                       "os.getpid": lambda it_: 4242, "time.time": lambda it_: 1790000000.25}


class SeedSemantics(Lemma):
    """Configuration.initialisation_seed (real body): a configured seed -- ANY integer, 0 included -- with a single process
    seeds numpy's and Python's generators with exactly that value; otherwise both are seeded (with a run-dependent value)."""
    prop = "C08"
    cases = tuple((seed, mp) for seed in ("none", "zero", "positive") for mp in (False, True))

    def __init__(self):
        self.name = "property:seed-semantics"

    def prove(self, vc, case):
        seed_kind, mp = case
        nm = f"{self.name}[seed={seed_kind},multiprocessing={mp}]"
        log = []
        rng_hooks(vc, log)
        if seed_kind == "none":
            seed = None
        elif seed_kind == "zero":
            seed = 0
        else:
            seed = vc.int("seed")
            vc.assume(seed > 0)
        cfg = vc.obj(CF + "Configuration", seed=seed)
        vc.method(cfg, "initialisation_seed", mp)
        nps = [v for k, v in log if k == "np.random.seed"]
        pys = [v for k, v in log if k == "random.seed"]
        vc.check(nm + "::both-generators-seeded-exactly-once", len(nps) == 1 and len(pys) == 1)
        if len(nps) == 1 and len(pys) == 1:
            if seed is not None and not mp:
                vc.check(nm + "::seeded-with-the-configured-seed", And(nps[0] == seed, pys[0] == seed) if is_sym(seed) else (not is_sym(nps[0]) and nps[0] == seed and pys[0] == seed))
            else:
                vc.check(nm + "::same-value-for-both-generators", (nps[0] is pys[0]) or (not is_sym(nps[0]) and nps[0] == pys[0]) or bool(vc.interp.truth(nps[0] == pys[0])))

    def replay(self, model, clause, case):
        from rpylib.montecarlo.configuration import ConfigurationStandard
        seed_kind, mp = case
        seed = {"none": None, "zero": 0, "positive": 5}[seed_kind]
        from unittest import mock
        cfg = ConfigurationStandard(mc_paths=1, seed=seed, nb_of_processes=1)
        with mock.patch("time.time", side_effect=[1_790_000_000.0, 1_790_000_777.0]):     # two runs at different times
            cfg.initialisation_seed(mp)
            a = np.random.random()
            cfg.initialisation_seed(mp)
            b = np.random.random()
        want_same = seed is not None and not mp
        return (want_same and a != b, {"seed": seed, "multiprocessing": mp, "first_draw_after_seeding_twice": [a, b]})


def standard_engine(vc, log, mc_paths=2):
    it = vc.interp
    ev = lambda e: log.append(e)
    it.hooks[CF + "Configuration.initialisation_seed"] = lambda it_, f, b: ev(("seed", b.get("multiprocessing", False)))
    it.hooks["rpylib.process.process:Process.pre_computation"] = lambda it_, f, b: ev(("draw", "pre_computation"))
    it.hooks["rpylib.process.process:Process.simulate_one_path"] = lambda it_, f, b: ev(("draw", "simulate_one_path")) or ("path", len(log))
    for fq in ("rpylib.process.process:Process.initialisation", CF + "Configuration.initialisation", "rpylib.product.product:Product.update",
               "rpylib.product.underlying:Underlying.check_consistency", "rpylib.montecarlo.path:MCPath.update", "rpylib.montecarlo.path:MCPath.process",
               "rpylib.montecarlo.path:MCPath.discount", "rpylib.montecarlo.path:MCPath.set_to_path", "rpylib.montecarlo.statistic.statistic:MCStatistics.add",
               "rpylib.product.product:NoControlVariates.compute_coefficients", "rpylib.product.product:ControlVariates.compute_coefficients"):
        it.hooks[fq] = lambda it_, f, b: None
    it.hooks["rpylib.process.process:Process.dimension"] = lambda it_, f, b: 1
    it.hooks["rpylib.process.process:Process.df"] = lambda it_, f, b: 1.0
    it.hooks["rpylib.model.model:Model.dimension"] = lambda it_, f, b: 1
    it.hooks["rpylib.montecarlo.path:create_path"] = lambda it_, f, b: vc.obj("rpylib.montecarlo.path:MCPath")
    it.hooks["rpylib.montecarlo.statistic.statistic:create_mc_statistics"] = lambda it_, f, b: vc.obj("rpylib.montecarlo.statistic.statistic:MCStatistics")
    ncv = vc.obj("rpylib.product.product:NoControlVariates")
    cfg = vc.obj(CF + "ConfigurationStandard", mc_paths=mc_paths, nb_of_processes=1, control_variates=ncv, activate_spot_statistics=False, seed=vc.int("seed"))
    proc = vc.obj("rpylib.process.process:Process", process_representation=None, model=vc.obj("rpylib.model.model:Model"), deterministic_path=None)
    eng = vc.obj(SE + "Engine", configuration=cfg, process=proc, path_manager=None, statistics=None)
    product = vc.obj("rpylib.product.product:Product", maturity=vc.real("maturity"), payoff=vc.obj("rpylib.product.payoff:Payoff"),
                     payoff_underlying=vc.obj("rpylib.product.underlying:Underlying"))
    return eng, product


class StandardEngineSeedOrder(Lemma):
    """standard Engine.price, single process (real price and initialisation bodies, collaborators reduced to ledger events):
    the generators are seeded exactly once and BEFORE every random draw of the run, the pre-computation's pre-drawn
    Brownian increments and jump counts included -- the condition for a seeded run to repeat."""
    prop = "C08"

    def __init__(self):
        self.name = "property:standard-engine-seeds-once-before-every-draw"

    def prove(self, vc, case):
        nm = self.name
        log = []
        eng, product = standard_engine(vc, log)
        vc.method(eng, "price", product)
        kinds = [e[0] for e in log]
        vc.check(nm + "::seeded-exactly-once", kinds.count("seed") == 1)
        vc.check(nm + "::every-draw-comes-after-the-seeding", "seed" in kinds and all(k != "draw" for k in kinds[: kinds.index("seed")]))
        vc.check(nm + "::pre-computation-and-one-draw-per-path", [e for e in log if e[0] == "draw"] == [("draw", "pre_computation")] + [("draw", "simulate_one_path")] * 2)

    def replay(self, model, clause, case):
        return native_repeat("standard")


def native_repeat(which):
    import warnings
    with warnings.catch_warnings():
        warnings.simplefilter("ignore")
        if which == "standard":
            from contracts import battery
            from rpylib.process.levyprocess import LevyProcess
            from rpylib.montecarlo.configuration import ConfigurationStandard
            from rpylib.montecarlo.standard.engine import Engine
            from rpylib.product.product import Product
            from rpylib.product.underlying import Spot
            from rpylib.product.payoff import Vanilla, PayoffType
            m = battery.models(("hem",))["hem"]
            prod = Product(payoff_underlying=Spot(), payoff=Vanilla(strike=100.0, payoff_type=PayoffType.CALL), maturity=0.5)
            out = {}
            bad = False
            from rpylib.product.payoff import PayoffOnTheFly, PayoffDates
            jt = PayoffOnTheFly(lambda u: float(np.ravel(u)[0]))
            jt.payoff_dates_type = PayoffDates.STOCHASTIC          # forces the jump-time simulation mode
            prod_jt = Product(payoff_underlying=Spot(), payoff=jt, maturity=0.5)
            for tag, pr_, seeds in (("fixed-dates", prod, (7, 0)), ("jump-times", prod_jt, (7,))):
                for seed in seeds:
                    vals = []
                    for ambient in (99, 12345):
                        np.random.seed(ambient)          # whatever the generator state before the run
                        st = Engine(ConfigurationStandard(mc_paths=50, seed=seed, nb_of_processes=1), LevyProcess(m)).price(pr_)
                        vals.append(float(np.ravel(st.price())[0]))
                    out[f"{tag},seed={seed}"] = vals
                    bad = bad or vals[0] != vals[1]
            return (bad, {"two_runs_of_the_seeded_standard_engine": out})
        from contracts import mlmc_harness as H
        if which == "multilevel-fixed":
            prices = []
            for ambient in (99, 12345):
                np.random.seed(ambient)
                eng, stats, counter, script = H.run(initial_level=2, maximum_level=3, initial_mc_paths=5, fixed=True, seed=11, spot_payoff=True)
                prices.append([float(v) for ms in stats.mc_statistics for v in np.ravel(ms._payoff_statistics.stats[:, 0, 0])])
            return (prices[0] != prices[1], {"fine_payoffs_of_two_seeded_fixed-level_runs": [prices[0][:6], prices[1][:6]]})
        calls = []
        orig = np.random.seed
        np.random.seed = lambda s=None: (calls.append(s), orig(s))[1]
        try:
            prices = []
            for ambient in (99, 12345):
                orig(ambient)
                eng, stats, counter, script = H.run(initial_level=2, maximum_level=3, initial_mc_paths=4, plans=(([6], False), ([6], True)), seed=11, spot_payoff=True)
                prices.append(float(stats.price()))
            n_calls = len(calls) // 2
            rows = np.concatenate([np.ravel(ms._payoff_statistics.stats[:, 0, 0]) for ms in stats.mc_statistics])
            u, c = np.unique(np.round(rows[rows != 0], 12), return_counts=True)
        finally:
            np.random.seed = orig
        bad = prices[0] != prices[1] or n_calls != 1 or (c.size and c.max() > 1)
        return (bool(bad), {"seeded_multilevel_prices_of_two_runs": prices, "np.random.seed_calls_per_run": n_calls,
                            "largest_multiplicity_of_a_fine_payoff_value_in_one_run": int(c.max()) if c.size else 0})


class DrawsAreGlobal(Lemma):
    """the library's random draws reach the generators that initialisation_seed seeds: the real bodies of the jump-time
    sampler, the uniform source, the HEM / Merton jump sizes and the on-the-fly diffusion draw are executed with numpy's
    module-level random functions as ledger events; a draw from any generator OBJECT (np.random.default_rng(), RandomState,
    random.Random instance) is a separate event and must not occur."""
    prop = "C08"
    cases = ("jump-times", "uniform", "hem-jumps", "merton-jumps", "diffusion")

    def __init__(self):
        self.name = "property:draws-come-from-the-seeded-global-generators"

    def prove(self, vc, case):
        nm = f"{self.name}[{case}]"
        it = vc.interp
        log = []

        def draw(kind, shape_arg="size"):
            def f(it_, *a, **k):
                n = k.get("size", a[-1] if a else 1)
                n = int(n) if not isinstance(n, tuple) else int(np.prod(n))
                log.append(("global", kind))
                return np.array([vc.fresh(kind, "r") for _ in range(n)], dtype=object)
            return f
        it.native_hooks = {id(getattr(np.random, fn)): draw(fn) for fn in ("random_sample", "random", "uniform", "normal", "standard_normal", "exponential", "poisson")}
        it.private_rng = lambda o, name, a, k: log.append(("private", f"{type(o).__name__}.{name}")) or np.array([vc.fresh("private", "r") for _ in range(int(k.get("size", a[0] if a else 1)))], dtype=object)
        if case == "jump-times":
            fn = it.get_function("rpylib.process.levyprocess:LevyProcess.jump_times_from_nb_of_jumps")
            dt = vc.real("dt")
            vc.assume(dt > 0)
            it.call(fn, [dt, 1], {})
        elif case == "uniform":
            u = vc.new("rpylib.distribution.univariate.uniform:Uniform")
            vc.method(u, "sample", 2)
        elif case in ("hem-jumps", "merton-jumps"):
            if case == "hem-jumps":
                par = vc.obj("rpylib.model.levymodel.mixed.hem:HEMParameters", p=vc.real("p"), eta1=vc.real("eta1"), eta2=vc.real("eta2"))
                vc.assume(And(par.fields["p"] > 0, par.fields["p"] < 1, par.fields["eta1"] > 0, par.fields["eta2"] > 0))
                m = vc.obj("rpylib.model.levymodel.mixed.hem:HEMModel", parameters=par)
            else:
                par = vc.obj("rpylib.model.levymodel.mixed.merton:MertonParameters", mu_j=vc.real("mu_j"), sigma_j=vc.real("sigma_j"))
                vc.assume(par.fields["sigma_j"] > 0)
                m = vc.obj("rpylib.model.levymodel.mixed.merton:MertonModel", parameters=par)
            try:
                vc.method(m, "jump_increment", 2)
            except (Unsupported, PyRaise):
                pass                    # what is computed FROM the draws is not this lemma's business
        else:
            it.hooks["rpylib.model.levymodel.levymodel:LevyModel.diffusion_coefficient"] = lambda it_, f, b: vc.real("sigma")
            proc = vc.obj("rpylib.process.levyprocess:LevyProcess", model=vc.obj("rpylib.model.levymodel.levymodel:LevyModel"))
            sim = vc.obj("rpylib.process.levyprocess:SimulationWithJumpTimes", process=proc)
            vc.method(sim, "simulate_diffusion", np.array([vc.real("s1"), vc.real("s2")], dtype=object))
        vc.check(nm + "::at-least-one-draw", len(log) >= 1)
        vc.check(nm + "::no-draw-from-a-generator-the-seeding-does-not-reach", all(e[0] == "global" for e in log))

    def replay(self, model, clause, case):
        return native_repeat("standard")


class FakePool:
    """abstraction of a worker pool for the ledger: `processes` workers, each runs the initializer once, the tasks are dealt
    round-robin, the callback receives all results"""

    def __init__(self, interp, log, processes=None, initializer=None, **kw):
        self.interp, self.log, self.n, self.initializer = interp, log, processes or 2, initializer

    def __enter__(self):
        return self

    def __exit__(self, *a):
        return False

    def map_async(self, fn, iterable, callback=None, **kw):
        it = self.interp
        for w in range(self.n):
            self.log.append(("worker-start", w))
            if self.initializer is not None:
                it.call(self.initializer, [], {})
        res = []
        for k, x in enumerate(it.iterate(iterable)):
            self.log.append(("task", k % self.n))
            res.append(it.call(fn, [x], {}))
        if callback is not None:
            it.call(callback, [res], {})
        pool = self

        class R:
            def get(self_inner, *a, **k):
                return res
        return R()


class PoolSeeding(Lemma):
    """worker-pool branch of both engines (real bodies, the pool replaced by a ledger abstraction): every worker runs the
    initializer once before its first task, and the initializer seeds with the multiprocessing flag SET, whatever seed is
    configured -- so that no two workers start from the configured seed (seed-semantics lemma: the flag selects the
    process- and time-dependent value)."""
    prop = "C08"
    cases = ("standard", "standard, default number of processes (None)", "multilevel", "multilevel, default number of processes (None)")

    def __init__(self):
        self.name = "property:worker-pool-seeding"

    def prove(self, vc, which_):
        nm = f"{self.name}[{which_}]"
        which = which_.split(",")[0]
        nproc = None if "None" in which_ else 2
        it = vc.interp
        log = []
        if which == "standard":
            eng, product = standard_engine(vc, log, mc_paths=3)
            eng.fields["configuration"].fields["nb_of_processes"] = nproc
        it.opaque_hooks = dict(getattr(it, "opaque_hooks", None) or {})
        it.opaque_hooks["pathos.multiprocessing.Pool"] = lambda it_, *a, **k: FakePool(it_, log, *a, **k)
        it.opaque_hooks["tqdm.tqdm"] = lambda it_, x, *a, **k: x
        if which == "standard":
            vc.method(eng, "price", product)
        else:
            ev = lambda e: log.append(e)
            it.hooks[CF + "Configuration.initialisation_seed"] = lambda it_, f, b: ev(("seed", b.get("multiprocessing", False)))
            for fq in ("rpylib.montecarlo.path:MLMCPath.process", "rpylib.montecarlo.path:MLMCPath.process_l0", "rpylib.montecarlo.path:MCPath.discount", "rpylib.montecarlo.path:MCPath.set_to_path",
                       "rpylib.montecarlo.statistic.statistic:MLMCStatistics.add", "rpylib.product.product:NoControlVariates.compute_coefficients_mlmc"):
                it.hooks[fq] = lambda it_, f, b: None
            CP = "rpylib.process.coupling.couplingmarkovchain:CouplingMarkovChain"
            it.hooks[CP + ".simulate_one_path_with_coupling"] = lambda it_, f, b: ev(("draw", "coupled")) or "p"
            it.hooks[CP + ".pre_computation"] = lambda it_, f, b: ev(("draw", "pre_computation"))
            cfg = vc.obj(CF + "ConfigurationMultiLevel", nb_of_processes=nproc, control_variates=vc.obj("rpylib.product.product:NoControlVariates"), seed=vc.int("seed"))
            pm = vc.obj("rpylib.montecarlo.path:MLMCPath")
            stats = vc.obj("rpylib.montecarlo.statistic.statistic:MLMCStatistics", mc_statistics=[None, None])
            eng = vc.obj(ME + "Engine", configuration=cfg, path_managers=[pm, pm, pm])
            # a task that re-seeds the generators itself is recorded with the value it seeds with
            import random as _random
            it.native_hooks = dict(getattr(it, "native_hooks", None) or {})
            it.native_hooks[id(np.random.seed)] = lambda it_, s_=None: ev(("reseed", "numpy", s_))
            it.native_hooks[id(_random.seed)] = lambda it_, s_=None: ev(("reseed", "random", s_))
            it.opaque_hooks["random.seed"] = lambda it_, s_=None: ev(("reseed", "random", s_))
            cp_, prod_ = vc.obj(CP), vc.obj("rpylib.product.product:Product")
            vc.method(eng, "compute_level_l", 1, 0, 3, cp_, prod_, 1.0, stats)
            first_pass = list(log)
            # "across paths, passes, levels": the same level is extended by a second pass, and the next level is started
            vc.method(eng, "compute_level_l", 1, 3, 3, cp_, prod_, 1.0, stats)
            stats2 = vc.obj("rpylib.montecarlo.statistic.statistic:MLMCStatistics", mc_statistics=[None, None, None])
            vc.method(eng, "compute_level_l", 2, 0, 3, cp_, prod_, 1.0, stats2)
            reseeds = [e[2] for e in log if e[0] == "reseed" and e[1] == "numpy"]
            distinct = True
            if reseeds:
                terms = [lift(v) for v in reseeds]
                distinct = And(*[Not(compare(a_, b_, "==")) for i_, a_ in enumerate(terms) for b_ in terms[i_ + 1:]]) if all(v is not None for v in reseeds) else False
            vc.check(nm + "::no-task-re-seeds-the-generator-to-a-state-another-task-of-the-run-starts-from", distinct)
            del log[len(first_pass):]
        starts = [i for i, e in enumerate(log) if e[0] == "worker-start"]
        seeds = [e for e in log if e[0] == "seed"]
        first_task = next((i for i, e in enumerate(log) if e[0] == "task"), len(log))
        worker_seeds = [e for i, e in enumerate(log) if e[0] == "seed" and starts and i > starts[0]]
        vc.check(nm + "::two-workers-started", len(starts) == 2)
        vc.check(nm + "::every-worker-seeds-once-before-the-first-task", len(worker_seeds) == 2 and all(i < first_task for i, e in enumerate(log) if e in worker_seeds))
        vc.check(nm + "::workers-seed-with-the-multiprocessing-flag-set", all(bool(e[1]) is True and not is_sym(e[1]) for e in worker_seeds))
        # "pre-drawn Brownian increments and jump counts are consumed exactly once": whatever the parent process drew ahead is
        # COPIED into every worker (and, with a pickling pool, into every task), so a sample simulated by a worker must be built
        # from variates drawn in that worker, after its seeding: every task draws its own pre-computed variates before its path
        tasks = [i for i, e in enumerate(log) if e[0] == "task"]
        ok = len(tasks) >= 2
        for n_, ti in enumerate(tasks):
            seg = log[ti + 1: (tasks[n_ + 1] if n_ + 1 < len(tasks) else len(log))]
            draws = [e for e in seg if e[0] == "draw"]
            ok = ok and len(draws) >= 2 and draws[0] == ("draw", "pre_computation") and draws[1][1] in ("simulate_one_path", "coupled")
        vc.check(nm + "::every-task-draws-its-own-pre-computed-variates-before-its-path", ok)

    def replay(self, model, clause, which):
        if "no-task-re-seeds" in clause:
            return RepeatabilityBattery.pool_multilevel(seed=123)
        bad, info = RepeatabilityBattery.pool(seed=5, model="hem")
        return (bad, info)


class MultilevelLevelRoutine(Lemma):
    """multilevel Engine.compute_level_l, single process (real body), called when the generator has ALREADY produced samples
    under the configured seed (any earlier level or pass): it does not seed the generators again (re-seeding with the
    configured seed would replay the variates of the earlier samples)."""
    prop = "C08"
    cases = (0, 1)

    def __init__(self):
        self.name = "property:multilevel-level-routine-does-not-reseed"

    def prove(self, vc, level):
        nm = f"{self.name}[level={level}]"
        it = vc.interp
        log = []
        ev = lambda e: log.append(e)
        it.hooks[CF + "Configuration.initialisation_seed"] = lambda it_, f, b: ev(("seed",))
        for fq in ("rpylib.montecarlo.path:MLMCPath.process", "rpylib.montecarlo.path:MLMCPath.process_l0", "rpylib.montecarlo.path:MCPath.discount", "rpylib.montecarlo.path:MCPath.set_to_path",
                   "rpylib.montecarlo.statistic.statistic:MLMCStatistics.add", "rpylib.product.product:NoControlVariates.compute_coefficients_mlmc",
                   "rpylib.product.product:ControlVariates.compute_coefficients_mlmc"):
            it.hooks[fq] = lambda it_, f, b: None
        CP = "rpylib.process.coupling.couplingmarkovchain:CouplingMarkovChain"
        it.hooks[CP + ".simulate_one_path"] = lambda it_, f, b: ev(("draw", "level0")) or "p"
        it.hooks[CP + ".simulate_one_path_with_coupling"] = lambda it_, f, b: ev(("draw", "coupled")) or "p"
        ncv = vc.obj("rpylib.product.product:NoControlVariates")
        cfg = vc.obj(CF + "ConfigurationMultiLevel", nb_of_processes=1, control_variates=ncv, seed=vc.int("seed"))
        pm = vc.obj("rpylib.montecarlo.path:MLMCPath")
        stats = vc.obj("rpylib.montecarlo.statistic.statistic:MLMCStatistics", mc_statistics=[None, None])
        eng = vc.obj(ME + "Engine", configuration=cfg, path_managers=[pm, pm])
        cp = vc.obj(CP)
        vc.method(eng, "compute_level_l", level, 3, 2, cp, vc.obj("rpylib.product.product:Product"), 1.0, stats)
        vc.check(nm + "::one-draw-per-extra-path", [e for e in log if e[0] == "draw"] == [("draw", "level0" if level == 0 else "coupled")] * 2)
        vc.check(nm + "::does-not-seed-the-generators-again", ("seed",) not in log)

    def replay(self, model, clause, level):
        return native_repeat("multilevel")


class MultilevelSeedsOnce(Lemma):
    """multilevel Engine.price, single process, up to the end of the first pass (real body; the run is cut when the first
    pass's results are set): seeded exactly once, before the engine's pre-computation and before every level's draws."""
    prop = "C08"
    cases = ("price", "price_with_constant_mc_paths_and_level")

    def __init__(self):
        self.name = "property:multilevel-engine-seeds-once-before-every-draw"

    def prove(self, vc, case):
        nm = self.name if case == "price" else f"{self.name}[fixed levels and sample sizes]"
        it = vc.interp
        log = []
        ev = lambda e: log.append(e)
        it.hooks[CF + "Configuration.initialisation_seed"] = lambda it_, f, b: ev(("seed",))
        it.hooks[ME + "Engine.initialisation"] = lambda it_, f, b: ev(("draw", "initialisation/pre_computation"))
        it.hooks[ME + "Engine.compute_level_l"] = lambda it_, f, b: ev(("draw", f"level {b['level']}"))

        def stop(it_, f, b):
            raise PyRaise("StopIteration", "end of the first pass")
        it.hooks["rpylib.montecarlo.statistic.statistic:MLMCStatistics.set_mlmc_results"] = stop
        CP = "rpylib.process.coupling.couplingmarkovchain:CouplingMarkovChain"
        for fq in (CP + ".next_level", CP + ".reset_one_simulation_cost", CP + ".pre_computation", "rpylib.montecarlo.path:MCPath.update"):
            it.hooks[fq] = lambda it_, f, b: None
        it.hooks[CP + ".one_simulation_cost"] = lambda it_, f, b: 1.0
        it.hooks["rpylib.process.process:Process.df"] = lambda it_, f, b: 1.0
        cr = vc.obj(CF + "ConvergenceRates", alpha=1.0, beta=1.5, gamma=1.0)
        cfg = vc.obj(CF + "ConfigurationMultiLevel", nb_of_processes=1, seed=vc.int("seed"), initial_mc_paths=3, initial_level=1, maximum_level=3, convergence_rates=cr)
        fine = vc.obj("rpylib.process.markovchain.markovchain:MarkovChainProcess", process_representation=None)
        cp = vc.obj(CP, fine_process=fine)
        eng = vc.obj(ME + "Engine", configuration=cfg, coupling_process=cp, path_managers=[vc.obj("rpylib.montecarlo.path:MCPath")],
                     statistics=vc.obj("rpylib.montecarlo.statistic.statistic:MLMCStatistics"))
        it.hooks["rpylib.montecarlo.statistic.statistic:MLMCStatistics.extend"] = lambda it_, f, b: None
        try:
            if case == "price":
                vc.method(eng, "price", vc.obj("rpylib.product.product:Product", maturity=vc.real("T")), vc.real("rmse"))
            else:
                vc.method(eng, "price_with_constant_mc_paths_and_level", vc.obj("rpylib.product.product:Product", maturity=vc.real("T")))
        except PyRaise as e:
            if e.exc_type != "StopIteration":
                raise
        kinds = [e[0] for e in log]
        vc.check(nm + "::first-pass-reached", ("draw", "level 1") in log)
        vc.check(nm + "::seeded-exactly-once", kinds.count("seed") == 1)
        vc.check(nm + "::every-draw-comes-after-the-seeding", "seed" in kinds and all(k != "draw" for k in kinds[: kinds.index("seed")]))

    def replay(self, model, clause, case):
        return native_repeat("multilevel" if case == "price" else "multilevel-fixed")


UNITS = [SeedSemantics(), StandardEngineSeedOrder(), MultilevelLevelRoutine(), MultilevelSeedsOnce(), PoolSeeding(), DrawsAreGlobal()]
def LATE_UNITS():
    # "pre-drawn Brownian increments and jump counts": every stored jump count / increment of the fixed-date simulation is
    # its own draw, per path and per interval (the contract lives with the simulation, c15)
    from contracts import c15
    return [c15.FixedDatesPreComputation()]
ASSUMPTIONS = ["a seeded generator is a deterministic function of the seed and of the number of draws made since (numpy / random contract)",
               "simulate_one_path / pre_computation are the only consumers of the global generators (draws inside them are one ledger event)"]
TRUSTED_BASE = ["pyvc interpreter (ledger events are produced by hooks on the real call sites)", "z3 5.1"]


class RepeatabilityBattery:
    """bounded (native): seeded single-process runs of the real engines repeated from different ambient generator states
    give bit-identical results (standard engine on the direct HEM simulator with seed 7 and seed 0; multilevel engine on the
    HEM chain coupling, scripted two-pass history), numpy is seeded once per multilevel run, and within one run no two stored
    fine payoffs coincide (payoff = terminal spot, continuous in the variates).  Two worker processes with pre-drawn
    Brownian increments (Black-Scholes, 40 paths): every sample distinct."""
    name = "bounded:repeatability-battery"
    tier = "quick"

    def run(self, tier, seed):
        viol, ev = [], 0
        for which in ("standard", "multilevel", "multilevel-fixed"):
            ev += 1
            bad, info = native_repeat(which)
            if bad:
                viol.append({"obligation": f"{self.name}::{which}-engine-seeded-run-repeats-without-shared-variates", "bounded": self.name, "witness": info})
        ev += 1
        bad, info = self.pool()
        if bad:
            viol.append({"obligation": f"{self.name}::worker-pool-samples-share-no-pre-drawn-variates", "bounded": self.name, "witness": info})
        ev += 1
        bad, info = self.pool(seed=5, model="hem")
        if bad:
            viol.append({"obligation": f"{self.name}::worker-pool-with-a-configured-seed:workers-draw-different-variates", "bounded": self.name, "witness": info})
        return {"name": self.name, "evaluations": ev, "distinct_nontrivial": ev, "violations": viol, "samples": [], "bound": "3 scripted runs (see docstring)"}

    @staticmethod
    def pool(seed=None, model="bs"):
        import warnings
        with warnings.catch_warnings():
            warnings.simplefilter("ignore")
            from rpylib.model.utils import create_exponential_of_levy_model
            from rpylib.model.levymodel.levymodel import ModelType
            from rpylib.process.levyprocess import LevyProcess
            from rpylib.montecarlo.configuration import ConfigurationStandard
            from rpylib.montecarlo.standard.engine import Engine
            from rpylib.product.product import Product
            from rpylib.product.underlying import Spot
            from rpylib.product.payoff import PayoffOnTheFly
            if model == "bs":
                m = create_exponential_of_levy_model(ModelType.BLACKSCHOLES)(spot=100.0, r=0.02, d=0.0, sigma=0.2)
            else:
                # pure-jump-dominated HEM: the jump values are drawn on the fly in the workers (not pre-drawn)
                m = create_exponential_of_levy_model(ModelType.HEM)(spot=100.0, r=0.02, d=0.0, sigma=0.0, intensity=20.0)
            prod = Product(payoff_underlying=Spot(), payoff=PayoffOnTheFly(lambda u: u), maturity=0.5)
            try:
                st = Engine(ConfigurationStandard(mc_paths=40, seed=seed, nb_of_processes=2), LevyProcess(m)).price(prod)
            except Exception as e:
                return (False, {"skipped": f"worker pool not available here: {type(e).__name__}"})
            rows = np.ravel(st._payoff_statistics.stats)
            u, c = np.unique(np.round(rows, 12), return_counts=True)
            return (bool(c.max() > 1), {"model": model, "configured_seed": seed, "worker_processes": 2, "paths": 40, "distinct_payoffs": int(len(u)), "largest_multiplicity": int(c.max())})

    @staticmethod
    def pool_multilevel(seed=123):
        """adaptive multilevel run with 2 worker processes: the payoff is a continuous function of the simulated spot, so every
        level must hold as many distinct fine payoffs as it has samples, all passes taken together"""
        import warnings
        import logging
        with warnings.catch_warnings():
            warnings.simplefilter("ignore")
            logging.disable(logging.WARNING)
            try:
                from rpylib.distribution.sampling import SamplingMethod
                from rpylib.grid.spatial import CTMCUniformGrid
                from rpylib.model.utils import create_exponential_of_levy_model, ModelType
                from rpylib.montecarlo.configuration import ConfigurationMultiLevel, compute_convergence_rates
                from rpylib.montecarlo.multilevel.engine import Engine
                from rpylib.process.coupling.couplingmarkovchain import CouplingMarkovChain
                from rpylib.product.payoff import Forward
                from rpylib.product.product import Product
                from rpylib.product.underlying import Spot
                model = create_exponential_of_levy_model(ModelType.HEM)(spot=100.0, r=0.05, d=0.02, sigma=0.1, p=0.6, eta1=25.0, eta2=40.0, intensity=5.0)
                grid = CTMCUniformGrid(h=0.2, model=model)
                product = Product(Spot(), Forward(strike=100.0), 0.25)
                cfg = ConfigurationMultiLevel(convergence_rates=compute_convergence_rates(model.blumenthal_getoor_index()), initial_level=2, maximum_level=3,
                                              initial_mc_paths=50, seed=seed, nb_of_processes=2)
                try:
                    st = Engine(cfg, CouplingMarkovChain(model=model, method=SamplingMethod.ALIAS, grid=grid)).price(product, 0.5)
                except Exception as e:
                    return (False, {"skipped": f"worker pool not available here: {type(e).__name__}: {e}"})
                info, bad = {"configured_seed": seed, "worker_processes": 2, "levels": []}, False
                for level, n in enumerate(st.mlmc_results.Nl):
                    fine = st.mc_statistics[level]._payoff_statistics.stats[:, 0, 0]
                    distinct = int(len(np.unique(fine)))
                    info["levels"].append({"level": level, "samples": int(n), "distinct_fine_payoffs": distinct})
                    bad = bad or distinct != len(fine)
                return (bool(bad), info)
            finally:
                logging.disable(logging.NOTSET)

    def replay(self, rec):
        r = self.run("quick", 0)
        hit = [v for v in r["violations"] if v["obligation"] == rec["obligation"]]
        return (bool(hit), hit[0]["witness"] if hit else {})


BOUNDED = [RepeatabilityBattery()]
