"""C05 — the multilevel estimator counts exactly the simulated samples.

Deductive: compute_level_l (single-process loop, symbolic sample counts, ghost provenance), the statistics container
(Statistic.add / extend), MLMCStatistics.price as the sum of level means.  The adaptive outer loop of Engine.price is
exercised by a bounded native stand-in: the real engine on scripted histories with a provenance-revealing payoff.
"""
import numpy as np
import z3

from pyvc.contract import FunctionContract, Lemma, VC, Req, ForAllInts
from pyvc.interp import LoopSpec
from pyvc.sym import And, Or, Not, Implies, If, Eq, compare, smax, smin, is_sym, Sym, lift, as_real_term, as_int_term, INF, PyRaise
from pyvc.values import SymSeq, Obj

PROPERTY_ID = "C05"
LEVEL = "proof"
EN = "rpylib.montecarlo.multilevel.engine:"
ST = "rpylib.montecarlo.statistic.statistic:"
PA = "rpylib.montecarlo.path:"

FINEF = z3.Function("FINE_PAYOFF_OF_SAMPLE", z3.IntSort(), z3.RealSort())
COARSEF = z3.Function("COARSE_PAYOFF_OF_SAMPLE", z3.IntSort(), z3.RealSort())


def FINE(i):
    return Sym(FINEF(as_int_term(lift(i))), "r")


def COARSE(i):
    return Sym(COARSEF(as_int_term(lift(i))), "r")


class ComputeLevel(FunctionContract):
    """Engine.compute_level_l, single-process branch: rows [current, current + extra) of the level's statistics receive the
    discounted (fine, coarse) payoffs of `extra` freshly simulated samples, one row per sample, in order; every other row
    is left untouched; at level 0 the plain simulator is used and the coarse component is identically 0, above level 0
    the coupled simulator; the level's control-variate coefficients are recomputed once afterwards."""
    prop = "C05"
    target = EN + "Engine.compute_level_l"
    cases = ("level0", "level1", "level3")

    def __init__(self):
        self.name = "multilevel.Engine.compute_level_l"

        def inv(L, g):
            k, J = L._i, g["J"]
            fine, coarse = g["fine_rows"], g["coarse_rows"]
            cur = g["cur"]
            return And(g["drawn"] == k, fine.length == g["len"], coarse.length == g["len"],
                       Implies(And(J >= cur, J < cur + k), And(fine.raw(J) == g["df"] * FINE(J - cur), coarse.raw(J) == g["df"] * g["coarse_of"](J - cur))),
                       Implies(Or(J < cur, J >= cur + k), And(fine.raw(J) == g["fine0"].raw(J), coarse.raw(J) == g["coarse0"].raw(J))))
        self.loops = {0: LoopSpec(inv, havoc={"__ghost__": lambda path, g: self._havoc(path, g)})}

    @staticmethod
    def _havoc(path, g):
        g["drawn"] = path.fresh("drawn", "i")
        for nm in ("fine_rows", "coarse_rows"):
            old = g[nm]
            g[nm] = SymSeq(z3.Array(f"{nm}!{path.fresh_ctr}", z3.IntSort(), z3.RealSort()), path.fresh(nm + "_len", "i"), "r", 0, nm)
            path.fresh_ctr += 1

    def configure(self, interp):
        from pyvc import ctx
        G = lambda: ctx.PATH.ghost

        def sim(kind):
            def f(it, fn, b):
                g = G()
                pid = g["drawn"]
                g["drawn"] = pid + 1
                g.setdefault("sim_kinds", set()).add(kind)
                return (kind, pid)
            return f
        CMk = "rpylib.process.coupling.couplingmarkovchain:CouplingMarkovChain."
        interp.hooks[CMk + "simulate_one_path"] = sim("plain")
        interp.hooks[CMk + "simulate_one_path_with_coupling"] = sim("coupled")

        def process(l0):
            def f(it, fn, b):
                pm = b["self"]
                kind, pid = pm.fields["stochastic_path"]
                G().setdefault("process_kinds", set()).add(("l0" if l0 else "coupled", kind))
                pm.fields["payoff"] = np.array([FINE(pid), 0.0 if l0 else COARSE(pid)], dtype=object)
                pm.fields["payoff_control_variates"] = 0.0
            return f
        interp.hooks[PA + "MLMCPath.process_l0"] = process(True)
        interp.hooks[PA + "MLMCPath.process"] = process(False)

        def add(it, fn, b):
            # MLMCStatistics.add(simulation, level, path_manager) -> mc_statistics[level].add(...) -> Statistic.add: the
            # (n, 1, 2)-shaped payoff array is represented by its two columns
            g = G()
            g.setdefault("add_levels", []).append(b["level"])
            pay = b["path_manager"].fields["payoff"]
            for nm, v in (("fine_rows", pay[0]), ("coarse_rows", pay[1])):
                seq = g[nm]
                seq.set(b["simulation"], v)
        interp.hooks[ST + "MLMCStatistics.add"] = add
        interp.hooks["rpylib.montecarlo.configuration:Configuration.initialisation_seed"] = lambda it, fn, b: G().__setitem__("seeded", G().get("seeded", 0) + 1)
        interp.hooks["rpylib.product.product:ControlVariates.compute_coefficients_mlmc"] = \
            lambda it, fn, b: G().setdefault("cv_calls", []).append((b["level"], G()["drawn"]))

    def setup(self, vc, case):
        g = vc.ghost
        cur, extra, n, J, df = vc.int("current_mc_paths"), vc.int("extra_mc_paths"), vc.int("rows"), vc.int("J"), vc.real("df")
        level = int(case[5:])
        vc.assume(And(cur >= 0, extra >= 0, cur + extra <= n, J >= 0, J < n))
        fine0, coarse0 = vc.seq("fine_rows_before", "r"), vc.seq("coarse_rows_before", "r")
        vc.assume(And(fine0.length == n, coarse0.length == n))
        g.update(cur=cur, extra=extra, len=n, J=J, df=df, drawn=0, fine0=fine0, coarse0=coarse0, level=level,
                 fine_rows=SymSeq(fine0.arr, fine0.length, "r", 0, "fine_rows"), coarse_rows=SymSeq(coarse0.arr, coarse0.length, "r", 0, "coarse_rows"),
                 coarse_of=(lambda i: 0.0) if case == "level0" else COARSE)
        pm = vc.obj(PA + "MLMCPath", payoff=None, payoff_control_variates=0.0, stochastic_path=None)
        pms = [vc.obj(PA + "MLMCPath", payoff="wrong-level") for _ in range(level)] + [pm]
        stats = vc.obj(ST + "MLMCStatistics", mc_statistics=[vc.obj(ST + "MCStatistics") for _ in range(level + 1)])
        cfg = vc.obj("rpylib.montecarlo.configuration:ConfigurationMultiLevel", nb_of_processes=1, control_variates=vc.obj("rpylib.product.product:ControlVariates"))
        eng = vc.obj(EN + "Engine", configuration=cfg, path_managers=pms)
        cp = vc.obj("rpylib.process.coupling.couplingmarkovchain:CouplingMarkovChain")
        return dict(self=eng, level=level, current_mc_paths=cur, extra_mc_paths=extra, coupling_process=cp,
                    product=vc.obj("rpylib.product.product:Product"), df=df, statistics=stats)

    def ensures(self, result, self_=None, level=None, current_mc_paths=None, extra_mc_paths=None, **kw):
        from pyvc import ctx
        g = ctx.PATH.ghost
        J, cur, extra, df = g["J"], g["cur"], g["extra"], g["df"]
        fine, coarse = g["fine_rows"], g["coarse_rows"]
        inside = And(J >= cur, J < cur + extra)
        l0 = not is_sym(level) and level == 0
        out = {"exactly-extra-samples-simulated": g["drawn"] == extra,
               "new-rows-hold-the-discounted-payoffs-of-fresh-samples-in-order": Implies(inside, And(fine.raw(J) == df * FINE(J - cur), coarse.raw(J) == df * g["coarse_of"](J - cur))),
               "no-other-row-is-touched": Implies(Not(inside), And(fine.raw(J) == g["fine0"].raw(J), coarse.raw(J) == g["coarse0"].raw(J))),
               "no-resize": And(fine.length == g["len"], coarse.length == g["len"]),
               "rows-stored-at-the-requested-level": all((lv is level) or (not is_sym(lv) and not is_sym(level) and lv == level) for lv in g.get("add_levels", [])),
               "coefficients-recomputed-once-for-this-level-after-the-loop": [c[0] for c in g.get("cv_calls", [])] == [level] and g["cv_calls"][0][1] == extra}
        kinds = g.get("process_kinds", set())
        if l0:
            out["level-0-uses-the-plain-simulator-and-a-zero-coarse-payoff"] = kinds <= {("l0", "plain")}
        else:
            out["levels-above-0-use-the-coupled-simulator"] = kinds <= {("coupled", "coupled")}
        return out


class _Indexable(list):
    """a list that returns its single element for any (possibly symbolic) index"""

    def __init__(self, item):
        super().__init__([item])
        self.item = item

    def __getitem__(self, i):
        return self.item


class StatisticExtend(FunctionContract):
    """Statistic.extend(m): length becomes max(len, m); existing rows unchanged; new rows are zero placeholders"""
    prop = "C05"
    target = ST + "Statistic.extend"
    name = "Statistic.extend"

    def setup(self, vc, case):
        rows = vc.seq("rows", "r")
        m, J = vc.int("mc_path"), vc.int("J")
        vc.assume(And(m >= 0, J >= 0))
        vc.ghost.update(rows0=SymSeq(rows.arr, rows.length, "r", 0, "rows0"), J=J, m=m)
        return dict(self=vc.obj(ST + "Statistic", stats=rows), mc_path=m)

    def ensures(self, result, self_=None, mc_path=None):
        from pyvc import ctx
        g = ctx.PATH.ghost
        old, J = g["rows0"], g["J"]
        new = self_.fields["stats"]
        return {"length-is-max-of-old-length-and-request": new.length == smax(old.length, mc_path),
                "existing-rows-unchanged": Implies(J < old.length, new.raw(J) == old.raw(J)),
                "added-rows-are-zero-placeholders": Implies(And(J >= old.length, J < new.length), new.raw(J) == 0)}


class StatisticAdd(FunctionContract):
    """Statistic.add(i, v): row i becomes v, every other row is unchanged, no resize (IndexError outside the array)"""
    prop = "C05"
    target = ST + "Statistic.add"
    name = "Statistic.add"
    raises = {"IndexError": lambda self_=None, simulation=None, **kw: Or(simulation >= self_.fields["stats"].length, simulation < -self_.fields["stats"].length)}

    def setup(self, vc, case):
        rows = vc.seq("rows", "r")
        i, J, v = vc.int("simulation"), vc.int("J"), vc.real("variable")
        vc.assume(And(J >= 0, J < rows.length, i >= 0))
        vc.ghost.update(rows0=SymSeq(rows.arr, rows.length, "r", 0, "rows0"), J=J)
        return dict(self=vc.obj(ST + "Statistic", stats=rows), simulation=i, variable=v)

    def ensures(self, result, self_=None, simulation=None, variable=None):
        from pyvc import ctx
        g = ctx.PATH.ghost
        old, J = g["rows0"], g["J"]
        new = self_.fields["stats"]
        return {"row-written": new.raw(simulation) == variable, "other-rows-unchanged": Implies(J != simulation, new.raw(J) == old.raw(J)),
                "no-resize": new.length == old.length}


class PriceIdentity(Lemma):
    """MLMCStatistics.price() = sum over levels of (mean of the fine column - mean of the coarse column) over ALL rows of
    the level's array (so the price is right iff every row is a simulated sample); levels 1..3, rows 1..3 per level"""
    prop = "C05"
    cases = ((1, 2), (2, 2), (3, 1), (2, 3))

    def __init__(self):
        self.name = "property:price-is-the-sum-of-level-means"

    def prove(self, vc, case):
        L, n = case
        mcs, want = [], 0
        for l in range(L):
            A = np.empty((n, 1, 2), dtype=object)
            xs = vc.reals(f"level{l}", 2 * n)
            for i in range(n):
                A[i, 0, 0], A[i, 0, 1] = xs[2 * i], xs[2 * i + 1]
            st = vc.obj(ST + "Statistic", stats=A)
            mcs.append(vc.obj(ST + "MCStatistics", _payoff_statistics=st, _control_variates_statistics=vc.obj(ST + "NoStatistic"), _payoff_statistics_with_cv=st))
            want = want + sum((A[i, 0, 0] - A[i, 0, 1] for i in range(n)), 0) / n
        o = vc.obj(ST + "MLMCStatistics", mc_statistics=mcs)
        vc.check(f"{self.name}[levels={L},rows={n}]::price", vc.method(o, "price") == want)

    def replay(self, model, clause, case):
        return None



class PriceLoop(FunctionContract):
    """multilevel Engine.price, single process: the adaptive `while` loop under an inductive invariant, for ANY number of
    passes (the number of levels is enumerated: (initial, maximum) level in (0,1), (1,2), (1,3), (2,3), (2,4); per-level counts are
    symbolic).  The per-level routine, the statistics container, the stopping criteria and the level processes are
    replaced by their contracts / ledger events:
      compute_level_l(level, current, extra)   requires  rows [current, current + extra) exist and rows below current are the
                                               filled ones (C05 ComputeLevel contract);  effect: filled[level] += extra
      statistics.extend(sizes)                 capacity[level] := sizes[level]           (C05 StatisticExtend contract)
      compute_mc_paths / criteria              arbitrary non-negative integer sizes / arbitrary verdict
    Invariant at the loop head: L <= maximum level; for every level l <= L: N_l, dN_l >= 0, capacity_l = N_l + dN_l and
    filled_l = N_l = number of samples simulated at level l; a process exists for every level already simulated.
    At the return inside the loop: the stopping test accepted or L is the maximum level; every level satisfies
    N*_l - N_l <= N_l / 100; reported N_l = filled_l = capacity_l (no placeholder row is counted, no simulated sample is
    dropped); no level above the maximum was ever simulated."""
    prop = "C05"
    target = EN + "Engine.price"
    name = "multilevel.Engine.price[adaptive loop]"
    cases = ((1, 2), (2, 3), (1, 3), (0, 1), (2, 4))
    max_paths = 20000

    def __init__(self):
        def pick_L(path, g):
            if "L_now" not in g:
                lo, hi = g["L0"], g["Lmax"]
                g["L_now"] = lo + path.choose(hi - lo + 1)
                g["first_pass"] = (path.choose(2) == 0)
            return g["L_now"]

        def ints(path, name, n, nonneg=True):
            xs = [path.fresh(name, "i") for _ in range(n)]
            if nonneg:
                for x in xs:
                    path.assume(compare(x, 0, ">="))
            return np.array(xs, dtype=object)

        def h_L(path, cur):
            return pick_L(path, ctx_g(path))

        def ctx_g(path):
            return path.ghost

        def h_arr(name, real=False):
            def f(path, cur):
                g = path.ghost
                n = pick_L(path, g) + 1
                if real:
                    return np.array([path.fresh(name, "r") for _ in range(n)], dtype=object)
                return ints(path, name, n)
            return f

        def h_procs(path, cur):
            g = path.ghost
            n = pick_L(path, g) + 1
            k = 1 if g["first_pass"] else n
            return [g["mk_process"]() for _ in range(k)]

        def h_ghost(path, g):
            n = pick_L(path, g) + 1
            g["cap"] = list(ints(path, "capacity", n))
            g["filled"] = list(ints(path, "filled", n))
            g["simulated"] = list(ints(path, "simulated", n))
            g["levels_run"] = []
            g["returned_inside"] = False
            g["accepted"] = None          # the verdict must come from a stopping test evaluated in THIS pass
            g["last_Ns"] = None

        def inv(L, g):
            Lv = L.L
            if is_sym(Lv):
                return False
            n = Lv + 1
            Nl, dNl = list(np.ravel(L.Nl)), list(np.ravel(L.dNl))
            if len(Nl) != n or len(dNl) != n or len(np.ravel(L.sum_cost)) != n or len(g["cap"]) < n:
                return False
            conds = [Lv <= g["Lmax"], Lv >= g["L0"]]
            for l in range(n):
                conds += [compare(Nl[l], 0, ">="), compare(dNl[l], 0, ">="), compare(g["cap"][l], Nl[l] + dNl[l], "=="),
                          compare(g["filled"][l], Nl[l], "=="), compare(g["simulated"][l], Nl[l], "==")]
            procs = L.ml_processes
            all_zero = And(*[compare(x, 0, "==") for x in Nl])
            conds.append(True if len(procs) == n else (And(len(procs) >= 1, all_zero) if len(procs) < n else False))
            conds.append(all(lv <= g["Lmax"] for lv in g["levels_run"]))
            # some level asks for samples at every loop head: the loop is never left through its own condition (the "initial
            # number of paths too low" exit, below the maximum level and without any decision of the stopping test)
            conds.append(Or(*[compare(dNl[l], 0, ">") for l in range(n)]))
            return And(*conds)
        self.loops = {1: LoopSpec(inv, havoc={"L": h_L, "Nl": h_arr("N"), "dNl": h_arr("dN"), "sum_cost": h_arr("cost", real=True), "Ns": h_arr("Ns"),
                                               "ml": h_arr("ml", real=True), "vl": h_arr("vl", real=True), "cl": h_arr("cl", real=True),
                                               "ml_processes": h_procs, "__ghost__": h_ghost},
                                  extra_modified=("ml_processes",), label="Engine.price#adaptive-loop")}

    def configure(self, interp):
        from pyvc import ctx
        G = lambda: ctx.PATH.ghost
        CP = "rpylib.process.coupling.couplingmarkovchain:CouplingMarkovChain"
        interp.hooks[EN + "Engine.initialisation"] = lambda it, f, b: None
        interp.hooks["rpylib.montecarlo.configuration:Configuration.initialisation_seed"] = lambda it, f, b: None
        interp.opaque_hooks = dict(getattr(interp, "opaque_hooks", None) or {})
        interp.opaque_hooks["logging.warning"] = lambda it, *a, **k: G().setdefault("warnings", []).append(a[0] if a else "")
        interp.hooks[PA + "MCPath.update"] = lambda it, f, b: None
        interp.hooks["rpylib.process.process:Process.df"] = lambda it, f, b: 1.0
        for fq in (CP + ".next_level", CP + ".reset_one_simulation_cost", CP + ".pre_computation"):
            interp.hooks[fq] = lambda it, f, b: None

        def cost(it, f, b):
            c = ctx.PATH.fresh("unit_cost", "r")
            ctx.PATH.assume(compare(c, 0, ">="))
            return c
        interp.hooks[CP + ".one_simulation_cost"] = cost

        def level(it, f, b):
            g = G()
            l, cur, extra = b["level"], b["current_mc_paths"], b["extra_mc_paths"]
            g["levels_run"].append(l)
            ok_level = l <= g["Lmax"] and l < len(g["cap"])
            ctx.PATH.check("Engine.price -> compute_level_l::level-within-the-configured-maximum", ok_level)
            if not ok_level:
                return None
            ctx.PATH.check("Engine.price -> compute_level_l::requires:rows-exist-and-earlier-rows-are-the-filled-ones",
                           And(compare(extra, 0, ">="), compare(cur, g["filled"][l], "=="), compare(cur + extra, g["cap"][l], "<=")))
            g["filled"][l] = g["filled"][l] + extra
            g["simulated"][l] = g["simulated"][l] + extra
        interp.hooks[EN + "Engine.compute_level_l"] = level

        def set_results(it, f, b):
            g = G()
            Nl = list(np.ravel(b["Nl"]))
            g["reported"] = Nl
            n = len(Nl)
            mk = lambda nm: np.array([ctx.PATH.fresh(nm, "r") for _ in range(n)], dtype=object)
            res = Obj(it.get_class(ST + "MLMCResults"))
            res.fields.update(ml=mk("ml"), vl=mk("vl"), cl=mk("cl"), Nl=np.array(Nl, dtype=object))
            g["results_as_computed"] = {k: list(res.fields[k]) for k in ("ml", "vl", "cl")}     # the sample statistics of this call
            b["self"].fields["mlmc_results"] = res
        interp.hooks[ST + "MLMCStatistics.set_mlmc_results"] = set_results

        def extend(it, f, b):
            g = G()
            sizes = list(np.ravel(b["mc_paths"]))
            for l, sz in enumerate(sizes):
                if l < len(g["cap"]):
                    # the statistics container never shrinks (Statistic.extend contract): the new capacity is max(old, requested)
                    g["cap"][l] = smax(g["cap"][l], sz)
                else:
                    g["cap"].append(sz)
                    g["filled"].append(0)
                    g["simulated"].append(0)
        interp.hooks[ST + "MLMCStatistics.extend"] = extend

        def mc_paths(it, *a, **k):
            g = G()
            vl = a[1] if len(a) > 1 else k.get("vl")
            n = len(np.ravel(vl))
            xs = []
            for _ in range(n):
                x = ctx.PATH.fresh("Ns", "i")
                ctx.PATH.assume(compare(x, 0, ">="))
                xs.append(x)
            g["last_Ns"] = xs
            return np.array(xs, dtype=object)

        def criteria(it, *a, **k):
            g = G()
            v = ctx.PATH.fresh("accepted", "b")
            g["accepted"] = v
            return v
        self._mc_paths, self._criteria = interp.lib.Model(mc_paths, "compute_mc_paths"), interp.lib.Model(criteria, "criteria")

    def setup(self, vc, case):
        L0, Lmax = case
        g = vc.ghost
        N0 = vc.int("initial_mc_paths")
        vc.assume(N0 >= 1)
        CP = "rpylib.process.coupling.couplingmarkovchain:CouplingMarkovChain"
        g["mk_process"] = lambda: vc.obj(CP, fine_process=vc.obj("rpylib.process.markovchain.markovchain:MarkovChainProcess", process_representation=None))
        crit = vc.obj("rpylib.montecarlo.multilevel.criteria:ConvergenceCriteria", compute_mc_paths=self._mc_paths, criteria=self._criteria)
        cr = vc.obj("rpylib.montecarlo.configuration:ConvergenceRates", alpha=1.0, beta=1.5, gamma=1.0)
        cfg = vc.obj("rpylib.montecarlo.configuration:ConfigurationMultiLevel", nb_of_processes=1, seed=None, initial_mc_paths=N0, initial_level=L0, maximum_level=Lmax,
                     convergence_rates=cr, convergence_criteria=crit)
        stats = vc.obj(ST + "MLMCStatistics")
        # the engine is built by its real constructor on a configuration whose maximum level is lowered AFTERWARDS: "the
        # configured maximum" is the configuration's value when the run starts (nothing may remember the constructor's)
        cfg.fields["maximum_level"] = Lmax + 1
        eng = vc.new(EN + "Engine", cfg, g["mk_process"]())
        cfg.fields["maximum_level"] = Lmax
        eng.fields.update(path_managers=[vc.obj(PA + "MLMCPath")], statistics=stats)
        # state established by Engine.initialisation (create_mlmc_statistics: initial_mc_paths rows for every initial level)
        g.update(L0=L0, Lmax=Lmax, cap=[N0] * (L0 + 1), filled=[0] * (L0 + 1), simulated=[0] * (L0 + 1), levels_run=[], N0=N0, stats=stats)
        return dict(self=eng, product=vc.obj("rpylib.product.product:Product", maturity=vc.real("maturity")), rmse=vc.real("rmse"))

    def ensures(self, result, **a):
        from pyvc import ctx
        g = ctx.PATH.ghost
        out = {"returns-the-statistics": result is g["stats"],
               "does-not-end-through-the-no-more-samples-exit": not any("too low" in str(m) for m in g.get("warnings", []))}
        rep = g.get("reported")
        if rep is None:
            out["results-reported-before-returning"] = False
            return out
        n = len(rep)
        out["reported-N-is-the-number-of-filled-rows-and-of-simulated-samples"] = And(*[And(compare(rep[l], g["filled"][l], "=="), compare(rep[l], g["simulated"][l], "==")) for l in range(n)]) if n <= len(g["filled"]) else False
        out["never-simulates-a-level-above-the-maximum"] = all(l <= g["Lmax"] for l in g["levels_run"]) and n - 1 <= g["Lmax"]
        # the reported level means / variances / costs are the sample statistics as computed from the stored samples, not
        # the engine's working copies (its work-around for levels >= 3 and its extrapolations write into ml / vl / cl)
        rep_res, snap = g["stats"].fields.get("mlmc_results"), g.get("results_as_computed")
        if rep_res is not None and snap is not None:
            same = []
            for k_ in ("ml", "vl", "cl"):
                cur = list(np.ravel(np.asarray(rep_res.fields[k_], dtype=object)))
                same.append(len(cur) == len(snap[k_]) and all((a_ is b_) or (not is_sym(a_) and not is_sym(b_) and a_ == b_) for a_, b_ in zip(cur, snap[k_])))
            out["reported-statistics-are-the-sample-statistics-not-the-engine's-working-values"] = all(same)
        ns, acc = g.get("last_Ns"), g.get("accepted")
        if ns is not None and acc is None and len(ns) == n:
            acc = False                   # no stopping test was evaluated on the estimates of the pass that returns
        if ns is not None and acc is not None and len(ns) == n:
            need = And(*[compare(100 * (ns[l] - rep[l]), rep[l], "<=") for l in range(n)])
            some_need = Or(*[compare(ns[l], rep[l], ">") for l in range(n)])
            # (the "initial number of paths too low" exit -- no level asks for a sample -- used to be carved out of this clause
            # as C06's known finding; since the repair a level just added always gets samples and the clause is stated whole)
            out["returned-with-the-stopping-test-accepted-or-at-the-maximum-level"] = Or(acc, n - 1 == g["Lmax"]) if is_sym(acc) else (bool(acc) or n - 1 == g["Lmax"])
            out["every-level-has-its-optimal-size-within-the-1-percent-rule"] = need
            out["no-placeholder-row-at-return"] = Implies(Or(acc, n - 1 == g["Lmax"]) if is_sym(acc) else True, And(*[compare(g["cap"][l], rep[l], "==") for l in range(n)]))
        return out

    def replay(self, model, clause, case):
        # native oracles for the adaptive loop: the scripted-history batteries of C05 (sample provenance) and C06 (exits, 1 % rule)
        from contracts import c06
        v = list(ScriptedEngine().run("quick", 0)["violations"]) + [x for x in c06.Trajectories().run("quick", 0)["violations"]]
        return (bool(v), {"scripted_history_violations": [{"obligation": x["obligation"], "witness": x.get("witness")} for x in v][:3]})


class ResultsFromTheSamples(Lemma):
    """MLMCStatistics.set_mlmc_results + MLMCResults / NonCenteredMoments (real bodies): "the reported N_l, level means, level
    variances ... and per-level cost are computed from those same samples".  Two levels, symbolic payoff rows.  First pass:
    n rows per level;  second pass, as the engine does it: the SAME N_l and cost arrays are updated in place, the level
    arrays have grown by k rows, set_mlmc_results is called again.  After each call, for every level:
      ml = |mean(fine - coarse)|, vl = max(0, mean((fine - coarse)^2) - mean(fine - coarse)^2), level mean = mean(fine),
      level variance = mean(fine^2) - mean(fine)^2, cl = cost / N, over ALL rows currently stored (nothing stale)."""
    prop = "C05"
    cases = ((1, 1), (2, 1), (1, 2))

    def __init__(self):
        self.name = "property:results-computed-from-the-stored-samples"

    def prove(self, vc, case):
        n, k = case
        nm = f"{self.name}[rows {n} then {n + k}]"
        L = 2
        rows = [[(vc.real(f"fine{l}_{i}"), vc.real(f"coarse{l}_{i}")) for i in range(n + k)] for l in range(L)]

        def arr(l, m):
            A = np.empty((m, 1, 2), dtype=object)
            for i in range(m):
                A[i, 0, 0], A[i, 0, 1] = rows[l][i]
            return A
        sts = [vc.obj(ST + "Statistic", stats=arr(l, n)) for l in range(L)]
        mcs = [vc.obj(ST + "MCStatistics", _payoff_statistics=sts[l], _control_variates_statistics=vc.obj(ST + "NoStatistic"), _payoff_statistics_with_cv=sts[l]) for l in range(L)]
        o = vc.obj(ST + "MLMCStatistics", mc_statistics=mcs, mlmc_results=None)
        Nl = np.array([n] * L, dtype=object)
        cost = np.array(vc.reals("cost", L), dtype=object)
        cost2 = vc.reals("cost_after", L)

        def check(tag, m):
            r = o.fields["mlmc_results"]
            get = lambda name: np.ravel(np.asarray(vc.interp.getattr(r, name), dtype=object))
            ml, vl, cl, mean_l, var_l, kurt = get("ml"), get("vl"), get("cl"), get("mean_level_l"), get("var_level_l"), get("kurtosis")
            for l in range(L):
                d = [rows[l][i][0] - rows[l][i][1] for i in range(m)]
                f = [rows[l][i][0] for i in range(m)]
                md = sum(d, 0) / m
                m2 = sum((x * x for x in d), 0) / m
                mf = sum(f, 0) / m
                mf2 = sum((x * x for x in f), 0) / m
                sabs = lambda x: If(x >= 0, x, -x)
                vc.check(nm + f"::{tag}:ml-is-the-absolute-mean-of-the-corrections", compare(ml[l], sabs(md), "=="))
                vc.check(nm + f"::{tag}:vl-is-the-variance-of-the-corrections", compare(vl[l], smax(0, m2 - md * md), "=="))
                vc.check(nm + f"::{tag}:level-mean-is-the-mean-of-the-fine-payoffs", compare(mean_l[l], mf, "=="))
                vc.check(nm + f"::{tag}:level-variance-is-the-variance-of-the-fine-payoffs", compare(var_l[l], mf2 - mf * mf, "=="))
                vc.check(nm + f"::{tag}:cl-is-the-cost-per-sample", compare(cl[l], (cost[l] if tag == "first-pass" else cost2[l]) / m, "=="))
                c4 = sum(((x - md) * (x - md) * (x - md) * (x - md) for x in d), 0) / m
                den = smax(1, m2 - md * md)
                vc.check(nm + f"::{tag}:kurtosis-is-the-fourth-central-moment-of-the-corrections-over-max(1,variance)^2", compare(kurt[l] * den * den, c4, "=="))
                vc.check(nm + f"::{tag}:reported-N", compare(np.ravel(np.asarray(r.fields["Nl"], dtype=object))[l], m, "=="))
        vc.method(o, "set_mlmc_results", Nl, cost)
        check("first-pass", n)
        # the engine's next pass: more rows stored, the same arrays updated in place
        for l in range(L):
            sts[l].fields["stats"] = arr(l, n + k)
            Nl[l] = Nl[l] + k
            cost[l] = cost2[l]
        vc.method(o, "set_mlmc_results", Nl, cost)
        check("second-pass", n + k)

    def replay(self, model, clause, case):
        from rpylib.montecarlo.statistic.statistic import MLMCStatistics, MCStatistics, Statistic, NoStatistic
        n, k = case
        rng = np.random.default_rng(3)
        data = [rng.normal(size=(n + k, 1, 2)) for _ in range(2)]

        def mk(l):
            st = Statistic.__new__(Statistic)
            st.stats = data[l][:n].copy()
            mc = MCStatistics.__new__(MCStatistics)
            mc._payoff_statistics = st
            mc._control_variates_statistics = NoStatistic()
            mc._payoff_statistics_with_cv = st
            return mc
        mcs = [mk(0), mk(1)]
        o = MLMCStatistics(mcs, None)
        Nl = np.array([n, n])
        cost = np.array([1.0, 2.0])
        o.set_mlmc_results(Nl, cost)
        for l in range(2):
            mcs[l]._payoff_statistics.stats = data[l].copy()
            Nl[l] += k
            cost[l] += 1.0
        o.set_mlmc_results(Nl, cost)
        r = o.mlmc_results
        d = [data[l][:, 0, 0] - data[l][:, 0, 1] for l in range(2)]
        want = {"ml": [abs(x.mean()) for x in d], "vl": [max(0.0, (x * x).mean() - x.mean() ** 2) for x in d], "cl": list(cost / (n + k)),
                "mean_level_l": [data[l][:, 0, 0].mean() for l in range(2)]}
        got = {key: [float(v) for v in np.ravel(getattr(r, key))] for key in want}
        bad = any(not np.allclose(got[key], want[key]) for key in want)
        return (bool(bad), {"rows": [n, n + k], "second_pass_results": got, "from_all_stored_rows": {a: [float(v) for v in b] for a, b in want.items()}})


class AdjustedStatisticsAreSeparate(Lemma):
    """MCStatistics.__init__ (real body): the statistics of the control-variate ADJUSTED payoff are a separate object with a
    separate array -- storing the adjusted payoffs (attribute assignment, as compute_coefficients does, or an in-place write)
    never overwrites a simulated raw payoff ("no simulated sample is ... overwritten")."""
    prop = "C05"
    name = "property:adjusted-payoffs-never-overwrite-the-simulated-ones"

    def prove(self, vc, case):
        n = 2
        xs = vc.reals("payoff", n)
        A = np.empty((n, 1), dtype=object)
        for i in range(n):
            A[i, 0] = xs[i]
        raw = vc.obj(ST + "Statistic", stats=A)
        mc = vc.new(ST + "MCStatistics", payoff_statistics=raw, control_variates_statistics=vc.obj(ST + "NoStatistic"))
        adj = mc.fields["_payoff_statistics_with_cv"]
        vc.check(self.name + "::separate-object", adj is not mc.fields["_payoff_statistics"] and adj is not raw)
        y = vc.reals("adjusted", n)
        B = np.asarray(adj.fields["stats"], dtype=object) if hasattr(adj, "fields") else None
        vc.check(self.name + "::starts-as-a-copy-of-the-simulated-payoffs", B is not None and B.shape == (n, 1) and And(*[compare(B[i, 0], xs[i], "==") for i in range(n)]))
        if B is None:
            return
        adj.fields["stats"][0, 0] = y[0]                                           # in-place write of an adjusted payoff
        adj.fields["stats"] = np.array([[y[0]], [y[1]]], dtype=object)             # replacement, as compute_coefficients does
        R = np.asarray(mc.fields["_payoff_statistics"].fields["stats"], dtype=object)
        vc.check(self.name + "::simulated-payoffs-untouched", R.shape == (n, 1) and And(*[compare(R[i, 0], xs[i], "==") for i in range(n)]))

    def replay(self, model, clause, case):
        from rpylib.montecarlo.statistic.statistic import MCStatistics, Statistic, NoStatistic
        st = Statistic.__new__(Statistic)
        st.stats = np.array([[1.0], [2.0]])
        mc = MCStatistics(payoff_statistics=st, control_variates_statistics=NoStatistic())
        mc._payoff_statistics_with_cv.stats[0, 0] = 9.0
        mc._payoff_statistics_with_cv.stats = np.array([[9.0], [8.0]])
        raw = mc._payoff_statistics.stats
        return (not np.allclose(raw, [[1.0], [2.0]]) or mc._payoff_statistics_with_cv is mc._payoff_statistics,
                {"simulated_payoffs_after_storing_adjusted_ones": np.asarray(raw).tolist(), "same_object": mc._payoff_statistics_with_cv is mc._payoff_statistics})


UNITS = [ComputeLevel(), StatisticExtend(), StatisticAdd(), PriceIdentity(), PriceLoop(), ResultsFromTheSamples(), AdjustedStatisticsAreSeparate()]
ASSUMPTIONS = ["A1: floats are mathematical reals", "each call of the simulator returns a fresh sample; its payoffs are functions of the sample (C17)",
               "the (n,1,2) payoff array of a level is represented by its fine and coarse columns"]
TRUSTED_BASE = ["z3 5.1 (LRA + arrays)", "pyvc interpreter + numpy models"]


HISTORIES = {
    # name: kwargs of mlmc_harness.run
    "level-added-twice": dict(initial_level=2, maximum_level=4, initial_mc_paths=5, plans=(([7], False), ([9], False), ([9], True))),
    "converges-at-once": dict(initial_level=2, maximum_level=5, initial_mc_paths=6, plans=(([6], True),)),
    "sample-size-grows-then-level-added": dict(initial_level=2, maximum_level=3, initial_mc_paths=4, plans=(([9, 6, 5], False), ([12, 6, 5, 4], False), ([12, 6, 5, 4], True))),
    "optimal-size-shrinks": dict(initial_level=2, maximum_level=3, initial_mc_paths=8, plans=(([3], False), ([3], True))),
    "grows-by-less-than-one-percent": dict(initial_level=2, maximum_level=3, initial_mc_paths=200, plans=(([201], False), ([201], True))),
    "initial-level-3": dict(initial_level=3, maximum_level=4, initial_mc_paths=4, plans=(([5], False), ([6], True))),
    "fixed-level-variant": dict(initial_level=2, maximum_level=3, initial_mc_paths=5, fixed=True),
}


class ScriptedEngine:
    """B2 (native, bounded): the real multilevel Engine + real CouplingMarkovChain on scripted histories; the payoff returns
    a unique id per evaluation, so the stored rows reveal exactly which samples are counted."""
    name = "bounded:scripted-engine"
    tier = "quick"

    def run(self, tier, seed):
        from contracts import mlmc_harness as H
        import warnings
        ev, viol, samples = 0, {}, []
        for hname, kw in HISTORIES.items():
            ev += 1
            try:
                with warnings.catch_warnings():
                    warnings.simplefilter("ignore")
                    eng, stats, counter, script = H.run(**dict(kw))
                per, dup, seen = H.audit(stats)
            except Exception as e:
                viol.setdefault("run", {"obligation": f"{self.name}::history-runs", "bounded": self.name, "witness": {"history": hname, "exception": f"{type(e).__name__}: {e}"}})
                continue
            info = {"history": hname, "levels": per, "payoff_evaluations": counter.k, "ids_stored": len(seen), "duplicated_ids": dup}
            if len(samples) < 2:
                samples.append(info)

            def bad(label, extra=None):
                viol.setdefault(label, {"obligation": f"{self.name}::{label}", "bounded": self.name, "witness": {**info, **(extra or {})}})
            if any(p["placeholder_rows"] for p in per):
                bad("no-placeholder-row-counted")
            if dup:
                bad("no-sample-duplicated")
            # every evaluation is stored: level 0 evaluates 1 payoff per sample, levels >= 1 two
            expected_ids = sum(p["rows"] * (1 if p["level"] == 0 else 2) for p in per)
            if counter.k != len(seen) or len(seen) != expected_ids:
                bad("no-sample-dropped-or-overwritten", {"expected_ids": expected_ids})
            if any(p["reported_N"] != p["rows"] for p in per if p["reported_N"] is not None):
                bad("reported-N-is-the-number-of-rows")
            if not per[0]["coarse_all_zero_at_level0"]:
                bad("coarse-payoff-zero-at-level-0")
            price = float(stats.price())
            want = sum(p["mean_fine_minus_coarse"] for p in per if p["mean_fine_minus_coarse"] is not None)
            if abs(price - want) > 1e-9 * max(1.0, abs(want)):
                bad("price-is-sum-of-level-means", {"price": price, "sum": want})
            res = stats.mlmc_results
            for p in per:
                l = p["level"]
                rows = stats.mc_statistics[l]._payoff_statistics.stats
                if rows.shape[0] and l < len(res.Nl):
                    dp = rows[:, 0, 0] - rows[:, 0, 1]
                    if abs(res.ml[l] - abs(dp.mean())) > 1e-9 * max(1, abs(dp.mean())) or abs(res.mean_level_l[l] - rows[:, 0, 0].mean()) > 1e-9 * max(1, abs(rows[:, 0, 0].mean())):
                        bad("level-means-from-the-same-samples")
        return {"name": self.name, "evaluations": ev, "distinct_nontrivial": ev, "violations": list(viol.values()), "samples": samples,
                "bound": f"{len(HISTORIES)} scripted histories: {sorted(HISTORIES)}"}

    def replay(self, rec):
        r = self.run("quick", 0)
        hit = [v for v in r["violations"] if v["obligation"] == rec["obligation"]]
        return (bool(hit), hit[0]["witness"] if hit else {})


BOUNDED = [ScriptedEngine()]


def LATE_UNITS():
    # "the sample mean of (fine minus coarse) discounted payoffs": the two payoffs of one multilevel sample are the values of
    # the product on the fine and on the coarse path of THAT sample, each on its own (the lemma lives in c17)
    from contracts import c17
    # "with and without control variates": the controls are valued on the same paths, in the representation of the process
    return [c17.MultilevelPathProcess(), c17.ControlsFollowTheProcessRepresentation()]
