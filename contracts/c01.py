"""C01 — CTMC jump rates are the Levy-measure masses of the grid cells.

The chain-building code is verified against an ABSTRACT additive measure MU (contracts/spec_measure.py): whatever the
model, a wrong neighbour, clamp, mid-point or a dropped state changes a term of the form MU(lo, hi) and fails here.
Axes have symbolic length (inductive invariants in skolemised form).
"""
import numpy as np
import z3

from pyvc.contract import FunctionContract, Lemma, VC, Req, ForAllInts
from pyvc.interp import LoopSpec
from pyvc.sym import And, Or, Not, Implies, If, Eq, compare, smax, smin, is_sym, Sym, lift, as_real_term, as_int_term, INF
from pyvc.values import SymSeq
from contracts.spec_measure import MU, MU1, MU2, additivity, basic_axioms

PROPERTY_ID = "C01"
LEVEL = "proof"
SF = "rpylib.distribution.samplingfactory:"
SP = "rpylib.grid.spatial:"
GR = "rpylib.grid.grid:"
LM = "rpylib.model.levymodel.levymodel:"


# ----------------------------------------------------------------- spec: cells of a 1-d grid (from the property text)
def cell_lo(ax, j):
    """left boundary of state j's cell: mid-point with the left neighbour; the state itself at the left end"""
    jm = smax(j - 1, 0)
    return (ax.raw(jm) + ax.raw(j)) / 2


def cell_hi(ax, j):
    n = ax.length
    jp = smin(j + 1, n - 1)
    return (ax.raw(j) + ax.raw(jp)) / 2


def wf_grid(vc, d=1, name="axis", quantified=True):
    """a well-formed CTMC grid object (C13's postcondition) over an axis of symbolic length"""
    ax = vc.seq(name, "r", min_len=3)
    n = ax.length
    h, o = vc.real("h"), vc.int("origin")
    vc.assume(And(h > 0, o >= 1, o <= n - 2))
    # strictly increasing, in the transitive form (the adjacent form proved by C13 implies it by induction on j - i,
    # lemma AdjacentImpliesTransitive below); explicit instances at the indices the proofs use
    i_, j_ = z3.Int("wf_i"), z3.Int("wf_j")
    sel = lambda t: z3.Select(ax.arr, t)
    if quantified:
        vc.assume(Sym(z3.ForAll([i_, j_], z3.Implies(z3.And(0 <= i_, i_ < j_, j_ < as_int_term(lift(n))), sel(i_) < sel(j_)),
                                patterns=[z3.MultiPattern(sel(i_), sel(j_))]), "b"))
    vc.assume(And(ax.raw(o) == 0, ax.raw(o - 1) == -h, ax.raw(o + 1) == h))
    vc.assume(And(ax.raw(0) <= ax.raw(o - 1), ax.raw(o + 1) <= ax.raw(n - 1)))
    grid = vc.obj(SP + "CTMCGrid", axes=[ax] * d, dimension=d, h=h, origin=(0.0 if d == 1 else tuple([0.0] * d)),
                  origin_coordinate=vc.new(GR + "Coordinates", o if d == 1 else [o] * d),
                  truncations=[(ax.raw(0), ax.raw(n - 1))] * d)
    return grid, ax, h, o


def mu_measure(vc):
    """a Levy-measure object whose integrate(a, b) is the abstract MU(a, b) (requires a <= b, as the real ones raise)"""
    return vc.obj(LM + "LevyMeasure")


MUNF = z3.Function("MU_N", z3.IntSort(), z3.RealSort(), z3.RealSort(), z3.RealSort())      # int_a^b x^n nu(dx)


def MUN(n, a, b):
    from pyvc.sym import as_int_term
    return If(compare(a, b, "=="), 0.0, Sym(MUNF(as_int_term(lift(n)), as_real_term(lift(a)), as_real_term(lift(b))), "r"))      # degenerate interval: 0


def hook_measure(interp, xn=False):
    from pyvc import ctx
    from pyvc.sym import PyRaise

    def integ(F):
        def h(it, f, b):
            a_, b_ = b["a"], b["b"]
            ctx.PATH.check(f"{it.frames[-1].func.fq if it.frames else '<unit>'} -> LevyMeasure.integrate::requires(a<=b)", a_ <= b_)
            return F(a_, b_)
        return h
    interp.hooks[LM + "LevyMeasure.integrate"] = integ(MU)
    interp.hooks[LM + "LevyMeasure.integrate_against_x"] = integ(MU1)
    interp.hooks[LM + "LevyMeasure.integrate_against_xx"] = integ(MU2)

    def integ_n(it, f, b):
        a_, b_ = b["a"], b["b"]
        ctx.PATH.check(f"{it.frames[-1].func.fq if it.frames else '<unit>'} -> LevyMeasure.integrate::requires(a<=b)", a_ <= b_)
        return MUN(b["n"], a_, b_)
    if xn:      # only where the n-th moment of the INNER measure is the abstraction (the dispatch body itself is a C09 target)
        interp.hooks[LM + "LevyMeasure.integrate_against_xn"] = integ_n


class QVector(FunctionContract):
    """create_q_vector: q[j] = MU(cell(j)) for every non-origin state j, q[origin] = 0 (axis of symbolic length)."""
    prop = "C01"
    target = SF + "create_q_vector"
    name = "create_q_vector"

    def __init__(self):
        def inv(L, g):
            ax, o, J = g["ax"], g["o"], g["J"]
            k = L._i
            q = L.q
            return And(q.length == ax.length,
                       *[And(Implies(And(j >= 0, j < k), q.raw(j) == If(j == o, 0, MU(cell_lo(ax, j), cell_hi(ax, j)))),
                             Implies(j >= k, q.raw(j) == 0)) for j in (J, o)])
        self.loops = {0: LoopSpec(inv)}

    def configure(self, interp):
        hook_measure(interp)

    def setup(self, vc, case):
        grid, ax, h, o = wf_grid(vc)
        basic_axioms(vc)
        J = vc.int("J")
        vc.assume(And(J >= 0, J < ax.length))
        g = vc.ghost
        g["ax"], g["o"], g["J"], g["h"] = ax, o, J, h
        return dict(levy_measure=mu_measure(vc), grid=grid)

    def ensures(self, result, levy_measure=None, grid=None):
        from pyvc import ctx
        g = ctx.PATH.ghost
        ax, o, J = g["ax"], g["o"], g["J"]
        if not isinstance(result, SymSeq):
            return {"is-array": False}
        return {"one-rate-per-state": result.length == ax.length,
                "rate-of-a-state-is-the-mass-of-its-cell": Implies(J != o, result.raw(J) == MU(cell_lo(ax, J), cell_hi(ax, J))),
                "origin-has-no-rate": result.raw(o) == 0,
                "rates-non-negative": result.raw(J) >= 0}

    def replay(self, model, clause, case):
        from contracts import battery
        from rpylib.distribution.samplingfactory import create_q_vector
        from rpylib.grid.spatial import CTMCUniformGrid
        from scipy.integrate import quad
        for name, m in battery.models(("hem", "merton")).items():
            grid = CTMCUniformGrid(h=0.05, model=m)
            nu = m.levy_triplet.nu
            q = create_q_vector(nu, grid)
            ax, o = grid.axes[0], grid.origin_coordinate.value
            for j in range(len(ax)):
                lo = 0.5 * (ax[max(j - 1, 0)] + ax[j])
                hi = 0.5 * (ax[j] + ax[min(j + 1, len(ax) - 1)])
                want = 0.0 if j == o else quad(lambda x: float(nu(x)), lo, hi)[0]
                if abs(q[j] - want) > 1e-7 * max(1.0, abs(want)):
                    return (True, {"model": name, "state_index": j, "cell": [lo, hi], "rate": float(q[j]), "density_quadrature": want})
        return (False, {})


class QVectorOfEachMeasure(Lemma):
    """create_q_vector (real body; 5-state axis with symbolic states, real CTMCGrid constructor) called for a SECOND measure on
    the same grid object: the rates are the cell masses of THAT measure -- nothing computed for the first measure (kept on the
    grid, on the function, in a module-level table) may come back."""
    prop = "C01"
    name = "property:rates-belong-to-their-measure"

    def prove(self, vc, case):
        it = vc.interp
        MUA = z3.Function("MU_measure_A", z3.RealSort(), z3.RealSort(), z3.RealSort())
        MUB = z3.Function("MU_measure_B", z3.RealSort(), z3.RealSort(), z3.RealSort())

        def integ(it_, f, b):
            F = MUA if b["self"].fields["tag"] == "A" else MUB
            return Sym(F(as_real_term(lift(b["a"])), as_real_term(lift(b["b"]))), "r")
        it.hooks[LM + "LevyMeasure.integrate"] = integ
        xs = vc.reals("state", 5)
        h = vc.real("h")
        vc.assume(And(xs[0] < xs[1], xs[1] < 0, xs[2] == 0, 0 < xs[3], xs[3] < xs[4], h > 0, xs[1] == -h, xs[3] == h))
        grid = vc.new(SP + "CTMCGrid", h, 2, [np.array(xs, dtype=object)])
        fn = it.get_function(SF + "create_q_vector")
        qa = list(np.ravel(np.asarray(it.call(fn, [vc.obj(LM + "LevyMeasure", tag="A"), grid], {}), dtype=object)))
        qb = list(np.ravel(np.asarray(it.call(fn, [vc.obj(LM + "LevyMeasure", tag="B"), grid], {}), dtype=object)))
        mid = lambda a, b: (a + b) / 2
        cells = [(xs[0], mid(xs[0], xs[1])), (mid(xs[0], xs[1]), mid(xs[1], xs[2])), None, (mid(xs[2], xs[3]), mid(xs[3], xs[4])), (mid(xs[3], xs[4]), xs[4])]
        want = lambda F: [0.0 if c is None else Sym(F(as_real_term(lift(c[0])), as_real_term(lift(c[1]))), "r") for c in cells]
        vc.check(self.name + "::first-measure:rates-are-its-cell-masses", len(qa) == 5 and And(*[compare(a, b, "==") for a, b in zip(qa, want(MUA))]))
        vc.check(self.name + "::second-measure-on-the-same-grid:rates-are-ITS-cell-masses", len(qb) == 5 and And(*[compare(a, b, "==") for a, b in zip(qb, want(MUB))]))

    def replay(self, model, clause, case):
        from contracts import battery
        from rpylib.distribution.samplingfactory import create_q_vector
        from rpylib.grid.spatial import CTMCUniformGrid
        ms = battery.models(("hem", "merton"))
        grid = CTMCUniformGrid.create_from_fixed_nb_of_points(h=0.1, nb_of_points=7)
        qa = np.asarray(create_q_vector(ms["hem"].levy_triplet.nu, grid), float)
        qb = np.asarray(create_q_vector(ms["merton"].levy_triplet.nu, grid), float)
        fresh = np.asarray(create_q_vector(ms["merton"].levy_triplet.nu, CTMCUniformGrid.create_from_fixed_nb_of_points(h=0.1, nb_of_points=7)), float)
        return (not np.allclose(qb, fresh, rtol=1e-12, atol=0), {"grid": "7 states, h = 0.1, used for HEM first", "merton_rates_on_the_used_grid": qb.tolist(), "merton_rates_on_a_fresh_grid": fresh.tolist()})


class AdaptedTreeProbabilityOfEachSampler(Lemma):
    """BinarySearchTreeAdapted1D._compute_probability (real body, real constructor; two samplers with different models and
    intensities on the same grid): the probability of an interval asked of the SECOND sampler is its own model's mass over
    its own intensity, also for the very interval the first sampler was asked before (instance-level, class-level or
    module-level memo alike); asked twice of the same sampler it is the same value."""
    prop = "C01"
    name = "property:adapted-tree-interval-probability-belongs-to-its-sampler"

    def prove(self, vc, case):
        it = vc.interp
        BA = "rpylib.distribution.variate.binarysearchtreeadapted:"
        MASS = z3.Function("MASS_model", z3.IntSort(), z3.RealSort(), z3.RealSort(), z3.RealSort())
        big = 10 ** 9
        e = lambda v: as_real_term(lift(-big if (not is_sym(v) and v == -INF) else (big if (not is_sym(v) and v == INF) else v)))
        it.hooks[LM + "LevyModel.mass"] = lambda it_, f, b: Sym(MASS(z3.IntVal(b["self"].fields["tag"]), e(b["a"]), e(b["b"])), "r")
        it.hooks["rpylib.distribution.univariate.uniform:Uniform.__init__"] = lambda it_, f, b: None
        xs = vc.reals("state", 5)
        h = vc.real("h")
        vc.assume(And(xs[0] < xs[1], xs[1] < 0, xs[2] == 0, 0 < xs[3], xs[3] < xs[4], h > 0, xs[1] == -h, xs[3] == h))
        grid = vc.new(SP + "CTMCGrid", h, 2, [np.array(xs, dtype=object)])
        lam = vc.reals("intensity", 2)
        vc.assume(And(lam[0] > 0, lam[1] > 0))
        mk = lambda k: vc.new(BA + "BinarySearchTreeAdapted1D", vc.obj(LM + "LevyModel", tag=k), grid, lam[k])
        s0, s1 = mk(0), mk(1)
        a, b = vc.real("a"), vc.real("b")
        vc.assume(a <= b)
        p0 = vc.method(s0, "_compute_probability", a, b)
        p1 = vc.method(s1, "_compute_probability", a, b)
        p1_again = vc.method(s1, "_compute_probability", a, b)
        m = lambda k: Sym(MASS(z3.IntVal(k), as_real_term(a), as_real_term(b)), "r")
        vc.check(self.name + "::first-sampler", compare(p0 * lam[0], m(0), "=="))
        vc.check(self.name + "::second-sampler-on-the-same-interval", compare(p1 * lam[1], m(1), "=="))
        vc.check(self.name + "::asked-twice", compare(p1_again, p1, "=="))

    def replay(self, model, clause, case):
        from contracts import battery
        from rpylib.grid.spatial import CTMCUniformGrid
        from rpylib.distribution.variate.binarysearchtreeadapted import BinarySearchTreeAdapted1D
        ms = battery.models(("hem", "merton"))
        grid = CTMCUniformGrid.create_from_fixed_nb_of_points(h=0.1, nb_of_points=7)
        s0 = BinarySearchTreeAdapted1D(ms["hem"], grid, 3.0)
        s1 = BinarySearchTreeAdapted1D(ms["merton"], grid, 4.0)
        p0, p1 = float(s0._compute_probability(0.05, 0.15)), float(s1._compute_probability(0.05, 0.15))
        want = float(ms["merton"].mass(0.05, 0.15)) / 4.0
        return (abs(p1 - want) > 1e-12 * max(1.0, abs(want)), {"interval": [0.05, 0.15], "first_sampler(hem)": p0, "second_sampler(merton)": p1, "merton_mass_over_its_intensity": want})


class Tiling(Lemma):
    """the cells tile [ax[0], ax[-1]] minus the central cell, each state inside its own cell (pure spec lemma, all n)"""
    prop = "C01"
    name = "property:cells-tile-the-truncated-support"

    def prove(self, vc, case):
        grid, ax, h, o = wf_grid(vc)
        n = ax.length
        J = vc.int("J")
        vc.assume(And(J >= 0, J < n))
        for j in (J, J + 1):
            vc.assume(Implies(And(j >= 0, j < n - 1), ax.raw(j) < ax.raw(j + 1)))
        nm = self.name
        vc.check(nm + "::adjacent-cells-share-their-boundary", Implies(J < n - 1, cell_hi(ax, J) == cell_lo(ax, J + 1)))
        vc.check(nm + "::state-inside-its-cell", And(cell_lo(ax, J) <= ax.raw(J), ax.raw(J) <= cell_hi(ax, J)))
        vc.check(nm + "::cell-non-degenerate-order", cell_lo(ax, J) <= cell_hi(ax, J))
        vc.check(nm + "::first-cell-starts-at-the-left-truncation", cell_lo(ax, 0) == ax.raw(0))
        vc.check(nm + "::last-cell-ends-at-the-right-truncation", cell_hi(ax, n - 1) == ax.raw(n - 1))
        vc.check(nm + "::central-cell-is-[-h/2,h/2]", And(cell_lo(ax, o) == -h / 2, cell_hi(ax, o) == h / 2,
                                                         cell_hi(ax, o - 1) == -h / 2, cell_lo(ax, o + 1) == h / 2))


def SUMQ(vc):
    """partial sums of the non-origin cell masses: S(0) = 0, S(k+1) = S(k) + (k == o ? 0 : MU(cell(k)))  (recursive spec)"""
    return z3.Function("S_rates", z3.IntSort(), z3.RealSort())


class Telescoping(Lemma):
    """sum over states of the rates = MU(ax[0], -h/2) + MU(h/2, ax[-1]): induction on the number of states summed
    (base and step are the two obligations; the step uses one additivity instance)."""
    prop = "C01"
    name = "property:rates-sum-to-the-intensity"

    def prove(self, vc, case):
        grid, ax, h, o = wf_grid(vc)
        basic_axioms(vc)
        n = ax.length
        S = SUMQ(vc)
        Sf = lambda k: Sym(S(as_int_term(lift(k))), "r")
        rate = lambda j: If(j == o, 0, MU(cell_lo(ax, j), cell_hi(ax, j)))
        k = vc.int("k")
        vc.assume(And(k >= 0, k < n))
        for j in (k - 1, k, k + 1):
            vc.assume(Implies(And(j >= 0, j < n - 1), ax.raw(j) < ax.raw(j + 1)))
        # definition of the partial sums at the two points used
        vc.assume(Sf(0) == 0)
        vc.assume(Sf(k + 1) == Sf(k) + rate(k))
        lo0, hl, hr = ax.raw(0), -h / 2, h / 2

        def closed(m):          # closed form of S(m), m states summed
            return If(m == 0, 0, If(m <= o, MU(lo0, cell_hi(ax, m - 1)), MU(lo0, hl) + If(m == o + 1, 0, MU(hr, cell_hi(ax, m - 1)))))
        nm = self.name
        vc.check(nm + "::base", Sf(0) == closed(0))
        vc.assume(Sf(k) == closed(k))                 # induction hypothesis
        # additivity instances for the step
        vc.assume(additivity(lo0, cell_lo(ax, k), cell_hi(ax, k)))
        vc.assume(additivity(hr, cell_lo(ax, k), cell_hi(ax, k)))
        vc.check(nm + "::step", Sf(k + 1) == closed(k + 1))
        vc.check(nm + "::total-is-the-mass-outside-the-central-cell", Implies(k + 1 == n, closed(k + 1) == MU(lo0, hl) + MU(hr, ax.raw(n - 1))))


class Intensity1d(FunctionContract):
    """compute_intensity_of_jumps (1-d): the mass of [ax[0], -h/2] plus the mass of [h/2, ax[-1]] through model.mass"""
    prop = "C01"
    target = SF + "compute_intensity_of_jumps"
    name = "compute_intensity_of_jumps[d=1]"

    def configure(self, interp):
        hook_measure(interp)
        interp.hooks["rpylib.model.model:Model.dimension_model"] = lambda it, f, b: 1

    def setup(self, vc, case):
        grid, ax, h, o = wf_grid(vc)
        basic_axioms(vc)
        nu = mu_measure(vc)
        model = vc.obj(LM + "LevyModel", levy_triplet=vc.obj(LM + "LevyTriplet", nu=nu))
        vc.ghost.update(ax=ax, h=h, o=o)
        return dict(model=model, grid=grid)

    def ensures(self, result, model=None, grid=None):
        from pyvc import ctx
        g = ctx.PATH.ghost
        ax, h = g["ax"], g["h"]
        return {"intensity-is-the-mass-outside-the-central-cell": result == MU(ax.raw(0), -h / 2) + MU(h / 2, ax.raw(ax.length - 1)),
                "non-negative": result >= 0}

    def replay(self, model, clause, case):
        from contracts import battery
        from rpylib.distribution.samplingfactory import compute_intensity_of_jumps, create_q_vector
        from rpylib.grid.spatial import CTMCUniformGrid
        for name, m in battery.models(("hem", "cgmy_fv")).items():
            grid = CTMCUniformGrid(h=0.05, model=m)
            lam = compute_intensity_of_jumps(m, grid)
            q = create_q_vector(m.levy_triplet.nu, grid)
            if abs(lam - q.sum()) > 1e-9 * max(1.0, abs(lam)):
                return (True, {"model": name, "intensity": float(lam), "sum_of_rates": float(q.sum())})
        return (False, {})


MASSF = {d: z3.Function(f"MASS{d}", *([z3.RealSort()] * (2 * d + 1))) for d in (2, 3)}


def MASS(a, b):
    """abstract rectangle mass of a d-dimensional (copula) model: MASS_d(a_1..a_d, b_1..b_d)"""
    d = len(a)
    return Sym(MASSF[d](*[as_real_term(lift(x)) for x in list(a) + list(b)]), "r")


class IntensityNd(FunctionContract):
    """compute_intensity_of_jumps, d = 2, 3: the sum of model.mass over exactly the 3^d - 1 products of
    {central [h_l,h_r], left [ax[0],h_l], right [h_r,ax[-1]]} other than the all-central one -- i.e. the blocks that tile
    the truncated box minus the central cell (each block once, the central hyper-cube never)."""
    prop = "C01"
    target = SF + "compute_intensity_of_jumps"
    cases = (2, 3)

    def __init__(self):
        self.name = "compute_intensity_of_jumps[copula]"

    def configure(self, interp):
        from pyvc import ctx
        interp.hooks["rpylib.model.model:Model.dimension_model"] = lambda it, f, b: ctx.PATH.ghost["d"]

        def mass(it, f, b):
            a_, b_ = tuple(b["a"]), tuple(b["b"])
            ctx.PATH.check("compute_intensity_of_jumps -> model.mass::requires(a<=b componentwise)", And(*[x <= y for x, y in zip(a_, b_)]))
            return MASS(a_, b_)
        interp.hooks["rpylib.model.levycopulamodel:LevyCopulaModel.mass"] = mass

    def setup(self, vc, d):
        grid, ax, h, o = wf_grid(vc, d=d)
        vc.ghost.update(ax=ax, h=h, o=o, d=d)
        model = vc.obj("rpylib.model.levycopulamodel:LevyCopulaModel")
        # LevyCopulaModel.mass is an instance attribute chosen in __init__ (_mass_nd/_mass_2d/_mass_3d, C12); here abstract
        from pyvc.lib import Model
        from pyvc import ctx

        def mass(interp, a, b, indices=None):
            a_, b_ = tuple(a), tuple(b)
            ctx.PATH.check("compute_intensity_of_jumps -> model.mass::requires(a<=b componentwise)", And(*[x <= y for x, y in zip(a_, b_)]))
            return MASS(a_, b_)
        model.fields["mass"] = Model(mass, "abstract-mass")
        return dict(model=model, grid=grid)

    def ensures(self, result, model=None, grid=None):
        import itertools
        from pyvc import ctx
        g = ctx.PATH.ghost
        ax, h, d = g["ax"], g["h"], g["d"]
        lo0, hi0 = ax.raw(0), ax.raw(ax.length - 1)
        pieces = {"C": (-h / 2, h / 2), "L": (lo0, -h / 2), "R": (h / 2, hi0)}
        total = 0
        for combo in itertools.product("CLR", repeat=d):
            if all(c == "C" for c in combo):
                continue
            total = total + MASS([pieces[c][0] for c in combo], [pieces[c][1] for c in combo])
        return {"intensity-is-the-mass-of-the-blocks-tiling-the-box-minus-the-central-cell": result == total}


def _has(interp, fq):
    try:
        interp.get_function(fq)
        return True
    except Exception:
        return False


class JumpVector(FunctionContract):
    """create_vec_jump_matrix: probabilities = rates / intensity, origin forced to 0"""
    prop = "C01"
    target = SF + "create_vec_jump_matrix"
    name = "create_vec_jump_matrix"
    cases = (3, 5)

    def setup(self, vc, n):
        q = np.array(vc.reals("q", n), dtype=object)
        lam = vc.real("intensity")
        o = n // 2
        vc.assume(lam > 0)
        vc.ghost.update(q=q.copy(), o=o)
        return dict(q_vector=q, init_state=vc.new(GR + "Coordinate1D", o), intensity_of_jumps=lam)

    def ensures(self, result, q_vector=None, init_state=None, intensity_of_jumps=None):
        from pyvc import ctx
        g = ctx.PATH.ghost
        q0, o = g["q"], g["o"]
        out = {"origin-probability-zero": result[o] == 0}
        out["probability-is-rate-over-intensity"] = And(*[result[k] * intensity_of_jumps == q0[k] for k in range(len(q0)) if k != o])
        return out


class InversionProbability(FunctionContract):
    """the closure probability_to_jump_to_state of create_sampling_inversion_method uses the same cell as the q-vector"""
    prop = "C01"
    target = SF + "create_sampling_inversion_method"
    name = "create_sampling_inversion_method.probability_to_jump_to_state"

    def configure(self, interp):
        hook_measure(interp)
        # capture the closure: InversionMethod(...) is replaced by a probe returning its first argument
        interp.hooks["rpylib.distribution.variate.inversion:InversionMethod.__init__"] = \
            lambda it, f, b: b["self"].fields.update(probe=b["probability_to_jump_to_state"])
        interp.hooks["rpylib.distribution.pairing:StatesManager.__init__"] = lambda it, f, b: None

    def setup(self, vc, case):
        grid, ax, h, o = wf_grid(vc)
        basic_axioms(vc)
        lam = vc.real("intensity")
        vc.assume(lam > 0)
        nu = mu_measure(vc)
        model = vc.obj(LM + "LevyModel", levy_triplet=vc.obj(LM + "LevyTriplet", nu=nu))
        vc.ghost.update(ax=ax, h=h, o=o, lam=lam)
        return dict(grid=grid, model=model, intensity_of_jumps=lam, is_levy_copula=False)

    def ensures(self, result, grid=None, model=None, intensity_of_jumps=None, **kw):
        from pyvc import ctx
        path = ctx.PATH
        g = path.ghost
        ax, o, lam = g["ax"], g["o"], g["lam"]
        it = _interp()
        probe = result.fields.get("probe")
        if probe is None:
            return {"closure-captured": False}
        inc = path.fresh("state_increment", "i")
        path.inputs["state_increment"] = inc
        path.assume(And(o + inc >= 0, o + inc < ax.length, inc != 0))
        for j in (o + inc - 1, o + inc):
            path.assume(Implies(And(j >= 0, j < ax.length - 1), ax.raw(j) < ax.raw(j + 1)))
        p = it.call(probe, [inc], {})
        J = o + inc
        return {"probability-is-the-cell-mass-over-the-intensity": p * lam == MU(cell_lo(ax, J), cell_hi(ax, J))}


def _interp():
    from pyvc import ctx
    return ctx.INTERP


def ext(vc, name, kind):
    return {"-inf": -INF, "+inf": INF}.get(kind) if kind != "fin" else vc.real(name)


def xle(a, b):
    r = compare(a, b, "<=")
    return r


class TruncatedInterval(FunctionContract):
    """TruncatedLevyMeasure._truncated_interval(a, b): the intersection of [a, b] with [l, r] when they meet, and a
    degenerate interval (zero mass) otherwise; end points finite or infinite."""
    prop = "C01"
    target = LM + "TruncatedLevyMeasure._truncated_interval"
    cases = (("fin", "fin"), ("-inf", "fin"), ("fin", "+inf"), ("-inf", "+inf"))

    def __init__(self):
        self.name = "TruncatedLevyMeasure._truncated_interval"

    def setup(self, vc, case):
        l, r = vc.real("l"), vc.real("r")
        vc.assume(l < r)
        o = vc.obj(LM + "TruncatedLevyMeasure", truncations=(l, r))
        return dict(self=o, a=ext(vc, "a", case[0]), b=ext(vc, "b", case[1]))

    def requires(self, a=None, b=None, **kw):
        return xle(a, b)

    def ensures(self, result, self_=None, a=None, b=None):
        l, r = self_.fields["truncations"]
        aa, bb = result
        meet = And(xle(a, r), xle(l, b))
        amax = a if (not is_sym(a) and a == INF) else (l if (not is_sym(a) and a == -INF) else smax(a, l))
        bmin = b if (not is_sym(b) and b == -INF) else (r if (not is_sym(b) and b == INF) else smin(b, r))
        return {"finite-and-ordered": And(l <= aa, aa <= bb, bb <= r),
                "intersection-when-they-meet": Implies(meet, And(aa == amax, bb == bmin)),
                "degenerate-when-disjoint": Implies(Not(meet), aa == bb)}

    def replay(self, model, clause, case):
        from rpylib.model.levymodel.levymodel import TruncatedLevyMeasure
        f = lambda v, d: (float(v["float"]) if isinstance(v, dict) else float(v)) if v is not None else d
        l, r = f(model.get("l"), -1.0), f(model.get("r"), 1.0)
        a = {"-inf": -np.inf, "+inf": np.inf}.get(case[0], f(model.get("a"), 0.0))
        b = {"-inf": -np.inf, "+inf": np.inf}.get(case[1], f(model.get("b"), 0.0))
        aa, bb = TruncatedLevyMeasure(None, (l, r))._truncated_interval(a, b)
        meet = a <= r and l <= b
        ok = l <= aa <= bb <= r and ((aa == max(a, l) and bb == min(b, r)) if meet else aa == bb)
        return (not ok, {"truncations": [l, r], "a": a, "b": b, "native": [aa, bb]})


class TruncatedIntegrate(FunctionContract):
    """TruncatedLevyMeasure.integrate / _against_x / _against_xx: the inner measure on the clipped interval"""
    prop = "C01"
    cases = ("integrate", "integrate_against_x", "integrate_against_xx", "integrate_against_xn")
    raises = {"ValueError": lambda a=None, b=None, **kw: Not(a <= b)}

    def __init__(self):
        self.name = "TruncatedLevyMeasure.integrate*"
        self.target = LM + "TruncatedLevyMeasure.integrate"

    def make_unit(self, case, interp_factory):
        self.target = LM + "TruncatedLevyMeasure." + case
        return super().make_unit(case, interp_factory)

    def configure(self, interp):
        hook_measure(interp, xn=True)

    def setup(self, vc, case):
        l, r = vc.real("l"), vc.real("r")
        vc.assume(l < r)
        basic_axioms(vc)
        vc.ghost["case"] = case
        o = vc.obj(LM + "TruncatedLevyMeasure", truncations=(l, r), levy_measure=mu_measure(vc))
        if case == "integrate_against_xn":
            n = vc.int("n")
            vc.assume(n >= 0)
            vc.ghost["n"] = n
            return dict(self=o, a=vc.real("a"), b=vc.real("b"), n=n)
        return dict(self=o, a=vc.real("a"), b=vc.real("b"))

    def ensures(self, result, self_=None, a=None, b=None, n=None):
        from pyvc import ctx
        F = {"integrate": MU, "integrate_against_x": MU1, "integrate_against_xx": MU2,
             "integrate_against_xn": (lambda lo, hi: MUN(ctx.PATH.ghost["n"], lo, hi))}[ctx.PATH.ghost["case"]]
        l, r = self_.fields["truncations"]
        meet = And(a <= r, l <= b)
        return {"mass-of-the-intersection": Implies(meet, result == F(smax(a, l), smin(b, r))),
                "zero-outside-the-truncation": Implies(Not(meet), result == 0)}


def _truncated_integrate_replay(self, model, clause, case):
    from contracts import battery
    from rpylib.model.levymodel.levymodel import TruncatedLevyMeasure
    nu = battery.models(("hem",))["hem"].levy_triplet.nu
    l, r = -0.3, 0.25
    t = TruncatedLevyMeasure(nu, (l, r))
    out, bad = {}, False
    for a, b in ((-0.5, -0.1), (0.1, 0.6), (-0.9, -0.4), (0.3, 0.8), (-0.6, 0.7), (0.05, 0.2)):
        args = (a, b, 3) if case == "integrate_against_xn" else (a, b)
        got = float(getattr(t, case)(*args))
        lo, hi = max(a, l), min(b, r)
        want = float(getattr(nu, case)(*((lo, hi, 3) if case == "integrate_against_xn" else (lo, hi)))) if lo < hi else 0.0
        out[f"[{a},{b}]"] = [got, want]
        bad = bad or abs(got - want) > 1e-12 * max(1.0, abs(want))
    return (bool(bad), {"truncation": [l, r], "method": case, "truncated vs inner-on-the-intersection": out})


TruncatedIntegrate.replay = _truncated_integrate_replay


class TruncatedDensity(FunctionContract):
    prop = "C01"
    target = LM + "TruncatedLevyMeasure.__call__"
    name = "TruncatedLevyMeasure.__call__"

    def configure(self, interp):
        dens = z3.Function("NU", z3.RealSort(), z3.RealSort())
        interp.hooks[LM + "LevyMeasure.__call__"] = lambda it, f, b: Sym(dens(as_real_term(lift(b["x"]))), "r")
        self.dens = dens

    def setup(self, vc, case):
        l, r = vc.real("l"), vc.real("r")
        vc.assume(l < r)
        o = vc.obj(LM + "TruncatedLevyMeasure", truncations=(l, r), levy_measure=mu_measure(vc))
        return dict(self=o, x=vc.real("x"))

    def ensures(self, result, self_=None, x=None):
        l, r = self_.fields["truncations"]
        return {"vanishes-outside-the-truncation": Implies(Or(x < l, x > r), result == 0),
                "inner-density-inside": Implies(And(l <= x, x <= r), result == Sym(self.dens(as_real_term(lift(x))), "r"))}


class AdaptedTree1dInit(FunctionContract):
    """BinarySearchTreeAdapted1D.__init__: the probability of the left half-axis is the truncated mass left of the
    central cell over the intensity -- the same central cell boundary (-h/2) as the q-vector and the intensity."""
    prop = "C01"
    target = "rpylib.distribution.variate.binarysearchtreeadapted:BinarySearchTreeAdapted1D.__init__"
    name = "BinarySearchTreeAdapted1D.__init__"

    def configure(self, interp):
        hook_measure(interp)
        interp.hooks["rpylib.distribution.univariate.uniform:Uniform.__init__"] = lambda it, f, b: None

    def setup(self, vc, case):
        grid, ax, h, o = wf_grid(vc)
        basic_axioms(vc)
        lam = vc.real("intensity")
        vc.assume(lam > 0)
        nu = vc.obj(LM + "TruncatedLevyMeasure", truncations=(ax.raw(0), ax.raw(ax.length - 1)), levy_measure=mu_measure(vc))
        model = vc.obj(LM + "LevyModel", levy_triplet=vc.obj(LM + "LevyTriplet", nu=nu))
        vc.ghost.update(ax=ax, h=h, o=o, lam=lam)
        return dict(self=vc.obj("rpylib.distribution.variate.binarysearchtreeadapted:BinarySearchTreeAdapted1D"), model=model, grid=grid,
                    intensity_of_jumps=lam)

    def ensures(self, result, self_=None, **kw):
        from pyvc import ctx
        g = ctx.PATH.ghost
        ax, h, o, lam = g["ax"], g["h"], g["o"], g["lam"]
        f = self_.fields
        return {"left-axis-probability-is-the-truncated-left-mass-over-intensity": f["_proba_left_axis"] * lam == MU(ax.raw(0), -h / 2),
                "left-axis-covers-states-0..origin-1": And(f["_coordinates_left_axis"][0] == 0, f["_coordinates_left_axis"][1] == o - 1),
                "right-axis-covers-states-origin+1..n-1": And(f["_coordinates_right_axis"][0] == o + 1, f["_coordinates_right_axis"][1] == ax.length - 1)}


class Neighbours(FunctionContract):
    """left_point / right_point for every coordinate type: per axis k, the neighbouring state ON AXIS k (clamped at the
    ends of THAT axis); axes may differ from one another in their states (credit grids) and in their number of states (a
    CTMCGrid built from the caller's own axes)."""
    prop = "C01"
    cases = tuple((fn, kind) for fn in ("left_point", "right_point") for kind in ("int", "Coordinate1D", "CoordinateND2", "CoordinateND3"))

    def __init__(self):
        self.name = "CTMCGrid.left/right_point"
        self.target = SP + "CTMCGrid.left_point"

    def make_unit(self, case, interp_factory):
        self.target = SP + "CTMCGrid." + case[0]
        return super().make_unit(case, interp_factory)

    def setup(self, vc, case):
        fn, kind = case
        d = int(kind[-1]) if kind.startswith("CoordinateND") else 1
        axes = [vc.seq(f"axis{k}", "r", min_len=3) for k in range(d)]
        cs = vc.ints("c", d)
        vc.assume(And(*[And(c >= 0, c < a_.length) for c, a_ in zip(cs, axes)]))       # every axis has its OWN length
        grid = vc.obj(SP + "CTMCGrid", axes=axes, dimension=d)
        coord = cs[0] if kind == "int" else (vc.new(GR + "Coordinate1D", cs[0]) if kind == "Coordinate1D" else vc.new(GR + "CoordinateND", list(cs)))
        vc.ghost.update(axes=axes, cs=cs, fn=fn, d=d, kind=kind)
        return dict(self=grid, coordinate=coord)

    def ensures(self, result, self_=None, coordinate=None):
        from pyvc import ctx
        g = ctx.PATH.ghost
        axes, cs, fn, d = g["axes"], g["cs"], g["fn"], g["d"]
        want = [ax.raw(smax(c - 1, 0)) if fn == "left_point" else ax.raw(smin(c + 1, ax.length - 1)) for ax, c in zip(axes, cs)]
        if g["kind"].startswith("CoordinateND"):
            ok = isinstance(result, tuple) and len(result) == d
            return {"one-value-per-axis": ok, "neighbour-on-the-same-axis": And(*[r == w for r, w in zip(result, want)]) if ok else False}
        return {"neighbour-on-the-axis": result == want[0]}

    def replay(self, model, clause, case):
        from rpylib.grid.spatial import CTMCGrid
        from rpylib.grid.grid import Coordinates
        fn, kind = case
        if not kind.startswith("CoordinateND"):
            return None
        d = int(kind[-1])
        axes = [np.array([-1.0 - k, -0.5 - 0.1 * k, -0.25, 0.0, 0.25, 0.6 + 0.1 * k, 2.0 + k] + [3.0 + k + j for j in range(2 * k)]) for k in range(d)]
        g = CTMCGrid(h=0.25, origin_coordinate=3, axes=axes)
        for cs in ([1] * d, list(range(1, d + 1)), [6] * d, [0] * d, [len(ax) - 1 for ax in axes], [len(ax) - 2 for ax in axes]):
            got = getattr(g, fn)(Coordinates(cs))
            want = tuple(ax[max(c - 1, 0)] if fn == "left_point" else ax[min(c + 1, len(ax) - 1)] for ax, c in zip(axes, cs))
            if tuple(float(x) for x in got) != tuple(float(x) for x in want):
                return (True, {"coordinate": cs, "native": [float(x) for x in got], "expected": [float(x) for x in want]})
        return (False, {})


class AdjacentImpliesTransitive(Lemma):
    """ax[k] < ax[k+1] for all k  ==>  ax[i] < ax[j] for all i < j  (induction on j; base and step obligations)"""
    prop = "C01"
    name = "lemma:adjacent-increasing-implies-transitive"

    def prove(self, vc, case):
        ax = vc.seq("axis", "r", min_len=2)
        n = ax.length
        i, j = vc.int("i"), vc.int("j")
        vc.assume(And(0 <= i, i < j, j < n))
        vc.assume(ForAllInts("kk", 0, n - 1, lambda k: ax.raw(k) < ax.raw(k + 1)))
        vc.check(self.name + "::base", Implies(j == i + 1, ax.raw(i) < ax.raw(j)))
        vc.assume(Implies(j - 1 > i, ax.raw(i) < ax.raw(j - 1)))      # induction hypothesis at j - 1
        vc.assume(ax.raw(j - 1) < ax.raw(j))                            # instance of the hypothesis at k = j - 1
        vc.check(self.name + "::step", ax.raw(i) < ax.raw(j))


class ModelTruncate(FunctionContract):
    """LevyModel.truncate_levy_measure(truncations) (real body, and the real TruncatedLevyMeasure.integrate afterwards): the
    model's measure becomes ITS CURRENT measure restricted to the interval -- also when the current measure is itself a
    truncated one (a user's narrower truncation, or an earlier level's): mass(a, b) afterwards is the base mass of
    [a, b] intersected with EVERY truncation applied so far, 0 when the intersection is empty."""
    prop = "C01"
    target = LM + "LevyModel.truncate_levy_measure"
    cases = ("plain measure", "already truncated")

    def __init__(self):
        self.name = "LevyModel.truncate_levy_measure"

    def configure(self, interp):
        hook_measure(interp)

    def setup(self, vc, case):
        basic_axioms(vc)
        l, r = vc.real("l"), vc.real("r")
        vc.assume(l < r)
        base = mu_measure(vc)
        nu0 = base
        g = vc.ghost
        g["bounds"] = [(l, r)]
        if case == "already truncated":
            l1, r1 = vc.real("l_earlier"), vc.real("r_earlier")
            vc.assume(l1 < r1)
            nu0 = vc.obj(LM + "TruncatedLevyMeasure", truncations=(l1, r1), levy_measure=base)
            g["bounds"].append((l1, r1))
        trip = vc.obj(LM + "LevyTriplet", nu=nu0)
        g.update(nu0=nu0, trip=trip)
        return dict(self=vc.obj(LM + "LevyModel", levy_triplet=trip), truncations=(l, r))

    def ensures(self, result, self_=None, truncations=None, **kw):
        from pyvc import ctx
        g = ctx.PATH.ghost
        # (no clause on HOW the restriction is represented -- one wrapper per truncation or one wrapper with the intersected
        # interval are both fine: the mass lemma below states the behaviour)
        nu = g["trip"].fields["nu"]
        return {"the-model-still-has-a-measure": nu is not None}


    def replay(self, model, clause, case):
        return ModelTruncateMass().replay(model, clause, case)


class ModelTruncateMass(Lemma):
    """the mass clause of the contract above, through the real integrate bodies"""
    prop = "C01"
    cases = ("plain measure", "already truncated")
    name = "LevyModel.truncate_levy_measure:mass"

    def prove(self, vc, case):
        hook_measure(vc.interp)
        c = ModelTruncate()
        args = c.setup(vc, case)
        vc.method(args["self"], "truncate_levy_measure", args["truncations"])
        nu = vc.ghost["trip"].fields["nu"]
        a, b = vc.real("a"), vc.real("b")
        vc.assume(a <= b)
        got = vc.method(nu, "integrate", a, b)
        lo, hi = a, b
        for (l_, r_) in vc.ghost["bounds"]:
            lo, hi = smax(lo, l_), smin(hi, r_)
        vc.check(f"{self.name}[{case}]::mass-of-the-intersection-with-every-truncation-so-far", got == If(lo <= hi, MU(lo, hi), 0))
        from contracts.spec_measure import MU1, MU2
        g1, g2 = vc.method(nu, "integrate_against_x", a, b), vc.method(nu, "integrate_against_xx", a, b)
        vc.check(f"{self.name}[{case}]::first-and-second-moment-of-the-intersection", And(g1 == If(lo <= hi, MU1(lo, hi), 0), g2 == If(lo <= hi, MU2(lo, hi), 0)))

    def replay(self, model, clause, case):
        from contracts import battery
        from scipy.integrate import quad
        m = battery.models(("hem",))["hem"]
        nu0 = m.levy_triplet.nu
        bounds = [(-0.2, 0.3)]
        if case == "already truncated":
            m.truncate_levy_measure((-0.05, 0.06))
            bounds.append((-0.05, 0.06))
        m.truncate_levy_measure(bounds[0])
        a, b = 0.01, 0.5
        got = float(m.levy_triplet.nu.integrate(a, b))
        lo, hi = max([a] + [x for x, _ in bounds]), min([b] + [y for _, y in bounds])
        want = quad(lambda x: float(nu0(x)), lo, hi)[0] if lo < hi else 0.0
        return (abs(got - want) > 1e-8, {"truncations_applied": bounds[::-1], "interval": [a, b], "mass_after": got, "mass_of_the_intersection": want})


UNITS = [QVector(), QVectorOfEachMeasure(), AdaptedTreeProbabilityOfEachSampler(), Tiling(), Telescoping(), Intensity1d(), IntensityNd(), JumpVector(), InversionProbability(), AdjacentImpliesTransitive(),
         TruncatedInterval(), TruncatedIntegrate(), TruncatedDensity(), AdaptedTree1dInit(), Neighbours(), ModelTruncate(), ModelTruncateMass()]
ASSUMPTIONS = ["A1: floats are mathematical reals", "A6: the model's integrate(a,b) is an additive non-negative interval function MU (established per model in C09)",
               "the grid is well formed (C13's postcondition is this contract's precondition)"]
TRUSTED_BASE = ["z3 5.1 (LRA + arrays + uninterpreted MU)", "pyvc interpreter + numpy models"]


class RatesBattery:
    """B2 (native, bounded): on the model battery x grid constructors x 0..2 refinements: every rate equals the quadrature of
    the model's own density over the spec cell, rates are non-negative and sum to the reported intensity; copula chain
    (d = 2): the masses of all non-origin cells sum to the reported intensity and are non-negative."""
    name = "bounded:rates-battery"
    tier = "quick"

    def run(self, tier, seed):
        from contracts import battery
        from scipy.integrate import quad
        from rpylib.distribution.samplingfactory import create_q_vector, compute_intensity_of_jumps
        from rpylib.grid.spatial import CTMCUniformGrid, CTMCGridGeometric, CTMCGridProbabilityStep
        import copy
        ev, viol, samples = 0, {}, []

        def bad(label, info):
            viol.setdefault(label, {"obligation": f"{self.name}::{label}", "bounded": self.name, "witness": info})
        for mname, m in battery.models().items():
            for cname, mk in (("uniform", lambda: CTMCUniformGrid(h=0.1, model=m)), ("geometric", lambda: CTMCGridGeometric(h=0.1, model=m, nb_of_points_on_each_side=4)),
                              ("probability-step", lambda: CTMCGridProbabilityStep(h=0.05, model=m, minimum_probability_step=0.05))):
                grid = mk()
                for level in range(0, 3 if tier == "thorough" else 2):
                    mt = copy.deepcopy(m)
                    mt.truncate_levy_measure(grid.truncations[0])
                    nu = mt.levy_triplet.nu
                    q = create_q_vector(nu, grid)
                    lam = compute_intensity_of_jumps(mt, grid)
                    ax, o = grid.axes[0], grid.origin_coordinate.value
                    ev += 1
                    info = {"model": mname, "grid": cname, "refinements": level, "states": len(ax)}
                    if np.any(q < -1e-14) or q[o] != 0:
                        bad("rates-non-negative-origin-zero", info)
                    if abs(q.sum() - lam) > 1e-9 * max(1, abs(lam)):
                        bad("rates-sum-to-intensity", {**info, "sum": float(q.sum()), "intensity": float(lam)})
                    idxs = [j for j in range(len(ax)) if j != o][:: max(1, len(ax) // 12)]
                    if cname == "probability-step":
                        idxs = sorted(set(idxs) | {o - 1, o + 1})          # the two states next to the central cell always
                    for j in idxs:
                        lo, hi = 0.5 * (ax[max(j - 1, 0)] + ax[j]), 0.5 * (ax[j] + ax[min(j + 1, len(ax) - 1)])
                        if cname == "probability-step":
                            # this grid defines its own cell boundaries (equal-probability points; +-h/2 around the origin)
                            lo = float(grid.middle(float(ax[j - 1]), float(ax[j]))) if j > 0 else float(ax[0])
                            hi = float(grid.middle(float(ax[j]), float(ax[j + 1]))) if j < len(ax) - 1 else float(ax[-1])
                            inside = (lo < ax[j] < hi) or (j == 0 and lo == ax[j] < hi) or (j == len(ax) - 1 and lo < ax[j] == hi)
                            if not inside or (j == o - 1 and abs(hi + grid.h / 2) > 1e-12) or (j == o + 1 and abs(lo - grid.h / 2) > 1e-12):
                                bad("state-inside-its-own-cell-and-central-cell-is-(-h/2,h/2)", {**info, "state": j, "value": float(ax[j]), "cell": [lo, hi], "h": float(grid.h)})
                        want = quad(lambda x: float(m.levy_triplet.nu(x)), lo, hi, limit=200)[0]
                        if abs(q[j] - want) > 1e-6 * max(1e-3, abs(want)):
                            bad("rate-is-density-mass-of-the-cell", {**info, "state": j, "cell": [lo, hi], "rate": float(q[j]), "quadrature": want})
                    if len(samples) < 3:
                        samples.append({**info, "intensity": float(lam)})
                    grid.refine()
        # copula chain, d = 2
        import itertools
        from rpylib.grid.spatial import CTMCUniformGrid as U
        for kind in ("clayton", "independent"):
            cm = battery.copula_model(2, kind)
            grid = U.create_from_fixed_nb_of_points(h=0.1, nb_of_points=5, dimension=2)
            lam = compute_intensity_of_jumps(cm, grid)
            tot, neg = 0.0, False
            ax = grid.axes[0]
            o = grid.origin_coordinate.value[0]
            for i, j in itertools.product(range(len(ax)), repeat=2):
                if (i, j) == (o, o):
                    continue
                lo = [0.5 * (ax[max(i - 1, 0)] + ax[i]), 0.5 * (ax[max(j - 1, 0)] + ax[j])]
                hi = [0.5 * (ax[i] + ax[min(i + 1, len(ax) - 1)]), 0.5 * (ax[j] + ax[min(j + 1, len(ax) - 1)])]
                mss = cm.mass(a=tuple(lo), b=tuple(hi))
                neg |= mss < -1e-10
                tot += mss
            ev += 1
            info = {"copula": kind, "sum_of_cell_masses": float(tot), "intensity": float(lam)}
            samples.append(info)
            if neg or abs(tot - lam) > 1e-7 * max(1, abs(lam)):
                bad(f"copula-cell-masses-sum-to-intensity[{kind}]", info)
        return {"name": self.name, "evaluations": ev, "distinct_nontrivial": ev, "violations": list(viol.values()), "samples": samples,
                "bound": "battery models x {uniform, geometric} x refinements 0..1 (quick) / 0..2 (thorough); copula d=2 on a 5x5 grid"}

    def replay(self, rec):
        r = self.run("quick", 0)
        hit = [v for v in r["violations"] if v["obligation"] == rec["obligation"]]
        return (bool(hit), hit[0]["witness"] if hit else {})


BOUNDED = [RatesBattery()]


def LATE_UNITS():
    """the chain constructor's frame clauses (deep copy, truncation of the copy only) are stated in C04's module; they are
    part of C01 as well: the rates are those of the measure truncated to THIS grid, whatever chains were built before"""
    import importlib
    # ... and the rates of a copula chain are built from ITS OWN model's marginal tail integrals, whatever other copula model
    # was evaluated on the same levels before (C12's lemma on the real marginal_tail_integral body)
    return [importlib.import_module("contracts.c04").ChainConstructor(), importlib.import_module("contracts.c12").TailIntegralOfEachModel()]
