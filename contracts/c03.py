"""C03 — level coupling keeps the coarse path in the previous level's law (telescoping).

1-d coupling: verified against the abstract measure MU; the fine grid is the refinement of the coarse one as specified
by C13's contract of `refine` (old states at twice their index, arithmetic mid-points inserted, origin index doubled).
"""
import numpy as np
import z3

from pyvc.contract import FunctionContract, Lemma, VC, Req, ForAllInts
from pyvc.interp import LoopSpec
from pyvc.sym import And, Or, Not, Implies, If, Eq, compare, smax, smin, is_sym, Sym, lift, as_real_term, as_int_term, INF
from pyvc.values import SymSeq
from contracts.spec_measure import MU, MU1, MU2, additivity, basic_axioms
from contracts.c01 import wf_grid, cell_lo, cell_hi, mu_measure, SP, GR, LM

PROPERTY_ID = "C03"
LEVEL = "proof"
CM = "rpylib.process.coupling.couplingmarkovchain:"


def abstract_mass():
    from pyvc.lib import Model
    from pyvc import ctx

    def mass(interp, a, b, indices=None):
        ctx.PATH.check("-> mass::requires(a<=b)", a <= b)
        return MU(a, b)
    return Model(mass, "abstract-mass")


class ProbabilityToRight(FunctionContract):
    """probability_to_right_jump(grid, mass, increment) = mass(state, right cell boundary) / mass(whole cell)"""
    prop = "C03"
    target = CM + "CouplingSimulation.probability_to_right_jump"
    name = "CouplingSimulation.probability_to_right_jump"
    raises_exact = False

    def __init__(self):
        def zero_cell(grid=None, mass=None, increment=None, **kw):
            ax = grid.fields["axes"][0]
            p = grid.fields["origin_coordinate"].fields["value"] + increment
            x = ax.raw(p)
            return MU(cell_lo(ax, p), x) + MU(x, cell_hi(ax, p)) == 0
        self.raises = {"ZeroDivisionError": zero_cell}      # a state whose cell has no mass (it is never sampled)

    def setup(self, vc, case):
        grid, ax, h, o = wf_grid(vc)
        basic_axioms(vc)
        inc = vc.int("increment")
        p = o + inc
        vc.assume(And(p >= 0, p < ax.length))
        for j in (p - 1, p):
            vc.assume(Implies(And(j >= 0, j < ax.length - 1), ax.raw(j) < ax.raw(j + 1)))
        vc.ghost.update(ax=ax, o=o)
        return dict(grid=grid, mass=abstract_mass(), increment=inc)

    def ensures(self, result, grid=None, mass=None, increment=None):
        from pyvc import ctx
        g = ctx.PATH.ghost
        ax, o = g["ax"], g["o"]
        p = o + increment
        x = ax.raw(p)
        L, R = MU(cell_lo(ax, p), x), MU(x, cell_hi(ax, p))
        return {"right-share-of-the-cell-mass": result * (L + R) == R, "is-a-probability": And(result >= 0, result <= 1)}

    def modular_result(self, vc, **kw):
        return vc.fresh("p_right", "r")

    def replay(self, model, clause, case):
        from contracts import battery
        from rpylib.grid.spatial import CTMCUniformGrid
        from rpylib.process.coupling.couplingmarkovchain import CouplingSimulation
        m = battery.models(("hem",))["hem"]
        grid = CTMCUniformGrid(h=0.05, model=m)
        grid.refine()
        ax, o = grid.axes[0], grid.origin_coordinate.value
        nu = m.levy_triplet.nu
        for inc in (-3, -1, 1, 3, 5):
            p = o + inc
            x = ax[p]
            lo, hi = 0.5 * (ax[p - 1] + x), 0.5 * (x + ax[p + 1])
            want = nu.integrate(x, hi) / (nu.integrate(lo, x) + nu.integrate(x, hi))
            got = CouplingSimulation.probability_to_right_jump(grid, m.mass, inc)
            if abs(got - want) > 1e-12:
                return (True, {"increment": inc, "native": float(got), "expected": float(want)})
        return (False, {})


class CouplingState(FunctionContract):
    raises = {"ZeroDivisionError": lambda **a: True}
    raises_exact = False
    """coupling_state(increment) on a refined grid (origin index even): a fine jump that lands on a coarse state is copied
    unchanged; any other fine jump moves to one of the two ADJACENT coarse states, to the right with probability
    probability_to_right_jump (as a function of the coupling uniform)."""
    prop = "C03"
    target = CM + "CouplingSimulation.coupling_state"
    name = "CouplingSimulation.coupling_state"

    def __init__(self):
        self.pr = ProbabilityToRight()
        self.modular = (self.pr,)

    def configure(self, interp):
        from pyvc import ctx
        interp.hooks["rpylib.distribution.univariate.uniform:Uniform.sample"] = lambda it, f, b: ctx.PATH.ghost["u"]

    def setup(self, vc, case):
        grid, ax, h, o = wf_grid(vc)
        basic_axioms(vc)
        inc, u = vc.int("increment"), vc.real("coupling_uniform")
        p = o + inc
        # refined grid (C13): odd length, even origin index; the increment addresses a state of the grid
        vc.assume(And(o % 2 == 0, ax.length % 2 == 1, p >= 0, p < ax.length, u >= 0, u < 1))
        vc.ghost.update(ax=ax, o=o, u=u)
        uni = vc.obj("rpylib.distribution.univariate.uniform:Uniform")
        model = vc.obj(LM + "LevyModel", mass=abstract_mass())
        fine = vc.obj("rpylib.process.markovchain.markovchain:MarkovChainProcess", model=model)
        cp = vc.obj(CM + "CouplingMarkovChain", grid=grid, uniform=uni, fine_process=fine)
        return dict(self=vc.obj(CM + "CouplingSimulation", coupling_process=cp), increment=inc)

    def ensures(self, result, self_=None, increment=None):
        from pyvc import ctx
        g = ctx.PATH.ghost
        ax, o, u = g["ax"], g["o"], g["u"]
        p = o + increment
        x = ax.raw(p)
        L, R = MU(cell_lo(ax, p), x), MU(x, cell_hi(ax, p))
        even = p % 2 == 0
        return {"coarse-grid-states-are-copied-unchanged": Implies(even, result == x),
                "other-states-move-to-an-adjacent-coarse-state": Implies(Not(even), Or(result == ax.raw(p + 1), result == ax.raw(p - 1))),
                "right-with-the-right-share-of-the-cell-mass": Implies(And(Not(even), L + R > 0), (result == ax.raw(p + 1)) == (u * (L + R) < R))}


class Telescoping(Lemma):
    """for every coarse state y: the fine rate of y, plus the fine rates of its two fine neighbours times the probability
    that the coupling sends them to y, equals the COARSE chain's rate of y (mass of y's coarse cell); for the coarse origin
    the mass landing on it lies inside the coarse central cell.  Fine grid = refine(coarse grid) per C13's contract."""
    prop = "C03"
    name = "property:coupled-coarse-chain-has-the-previous-level's-rates"
    cases = ("interior", "left-end", "right-end", "origin")

    def prove(self, vc, case):
        grid, c, h, oc = wf_grid(vc, name="coarse_axis")
        basic_axioms(vc)
        n = c.length
        f = vc.seq("fine_axis", "r", min_len=5)
        j = vc.int("j")
        vc.assume(And(j >= 0, j < n))
        vc.assume(f.length == 2 * n - 1)
        # C13 refine contract, instantiated at the indices used
        for k in (j - 1, j, j + 1):
            vc.assume(Implies(And(k >= 0, k < n), f.raw(2 * k) == c.raw(k)))
            vc.assume(Implies(And(k >= 0, k < n - 1), And(2 * f.raw(2 * k + 1) == c.raw(k) + c.raw(k + 1), c.raw(k) < c.raw(k + 1))))
        of = 2 * oc
        nm = self.name + f"[{case}]"
        rate = lambda i: MU(cell_lo(f, i), cell_hi(f, i))                       # fine rate of fine state i (C01)
        R = lambda i: MU(f.raw(i), cell_hi(f, i))                               # rate * P(right)   (contract of probability_to_right_jump)
        Lm = lambda i: MU(cell_lo(f, i), f.raw(i))                              # rate * P(left)
        y = 2 * j
        if case == "interior":
            vc.assume(And(j >= 1, j <= n - 2, j != oc))
            pts = [f.raw(y - 1), cell_lo(f, y), cell_hi(f, y), f.raw(y + 1)]
            for a_, b_, c_ in ((pts[0], pts[1], pts[2]), (pts[0], pts[2], pts[3])):
                vc.assume(additivity(a_, b_, c_))
            vc.check(nm + "::fine-neighbours-are-the-coarse-cell-boundaries", And(f.raw(y - 1) == cell_lo(c, j), f.raw(y + 1) == cell_hi(c, j)))
            vc.check(nm + "::rates-telescope", R(y - 1) + rate(y) + Lm(y + 1) == MU(cell_lo(c, j), cell_hi(c, j)))
        elif case == "left-end":
            vc.assume(And(j == 0, oc >= 1))
            vc.assume(additivity(f.raw(0), cell_hi(f, 0), f.raw(1)))
            vc.check(nm + "::rates-telescope", rate(0) + Lm(1) == MU(cell_lo(c, 0), cell_hi(c, 0)))
        elif case == "right-end":
            vc.assume(And(j == n - 1, oc <= n - 2))
            vc.assume(additivity(f.raw(y - 1), cell_lo(f, y), f.raw(y)))
            vc.check(nm + "::rates-telescope", R(y - 1) + rate(y) == MU(cell_lo(c, j), cell_hi(c, j)))
        else:
            vc.assume(j == oc)
            vc.check(nm + "::mass-landing-on-the-coarse-origin-is-inside-the-coarse-central-cell",
                     And(f.raw(of + 1) == h / 2, f.raw(of - 1) == -h / 2, cell_lo(f, of + 1) == h / 4, cell_hi(f, of - 1) == -h / 4,
                         Lm(of + 1) == MU(h / 4, h / 2), R(of - 1) == MU(-h / 2, -h / 4)))


UNITS = [ProbabilityToRight(), CouplingState(), Telescoping()]
ASSUMPTIONS = ["A1: floats are mathematical reals", "A6: the model's mass is an additive non-negative interval function (C09/C12)",
               "the fine grid is the refinement of the coarse grid (C13 contract of refine) and rates are cell masses (C01)",
               "expected-payoff telescoping E[P_l^coarse] = E[P_{l-1}^fine] follows from equal laws (not mechanised)"]
TRUSTED_BASE = ["z3 5.1", "pyvc interpreter + numpy models"]
BOUNDED = []
