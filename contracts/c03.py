"""C03 — level coupling keeps the coarse path in the previous level's law (telescoping).

1-d coupling: verified against the abstract measure MU; the fine grid is the refinement of the coarse one as specified
by C13's contract of `refine` (old states at twice their index, arithmetic mid-points inserted, origin index doubled).
"""
import numpy as np
import z3

from pyvc.contract import FunctionContract, Lemma, VC, Req, ForAllInts
from pyvc.interp import LoopSpec
from pyvc.sym import And, Or, Not, Implies, If, Eq, compare, smax, smin, is_sym, Sym, lift, as_real_term, as_int_term, INF
from pyvc.values import SymSeq
from contracts.spec_measure import MU, MU1, MU2, additivity, basic_axioms
from contracts.c01 import wf_grid, cell_lo, cell_hi, mu_measure, SP, GR, LM

PROPERTY_ID = "C03"
LEVEL = "proof"
CM = "rpylib.process.coupling.couplingmarkovchain:"


def abstract_mass():
    from pyvc.lib import Model
    from pyvc import ctx

    def mass(interp, a, b, indices=None):
        ctx.PATH.check("-> mass::requires(a<=b)", a <= b)
        return MU(a, b)
    return Model(mass, "abstract-mass")


class ProbabilityToRight(FunctionContract):
    """probability_to_right_jump(grid, mass, increment) = mass(state, right cell boundary) / mass(whole cell)"""
    prop = "C03"
    target = CM + "CouplingSimulation.probability_to_right_jump"
    name = "CouplingSimulation.probability_to_right_jump"
    raises_exact = False

    def __init__(self):
        def zero_cell(grid=None, mass=None, increment=None, **kw):
            ax = grid.fields["axes"][0]
            p = grid.fields["origin_coordinate"].fields["value"] + increment
            x = ax.raw(p)
            return MU(cell_lo(ax, p), x) + MU(x, cell_hi(ax, p)) == 0
        self.raises = {"ZeroDivisionError": zero_cell}      # a state whose cell has no mass (it is never sampled)

    def setup(self, vc, case):
        grid, ax, h, o = wf_grid(vc)
        basic_axioms(vc)
        inc = vc.int("increment")
        p = o + inc
        vc.assume(And(p >= 0, p < ax.length))
        for j in (p - 1, p):
            vc.assume(Implies(And(j >= 0, j < ax.length - 1), ax.raw(j) < ax.raw(j + 1)))
        vc.ghost.update(ax=ax, o=o)
        return dict(grid=grid, mass=abstract_mass(), increment=inc)

    def ensures(self, result, grid=None, mass=None, increment=None):
        from pyvc import ctx
        g = ctx.PATH.ghost
        ax, o = g["ax"], g["o"]
        p = o + increment
        x = ax.raw(p)
        L, R = MU(cell_lo(ax, p), x), MU(x, cell_hi(ax, p))
        return {"right-share-of-the-cell-mass": result * (L + R) == R, "is-a-probability": And(result >= 0, result <= 1)}

    def modular_result(self, vc, **kw):
        return vc.fresh("p_right", "r")

    def replay(self, model, clause, case):
        from contracts import battery
        from rpylib.grid.spatial import CTMCUniformGrid
        from rpylib.process.coupling.couplingmarkovchain import CouplingSimulation
        m = battery.models(("hem",))["hem"]
        grid = CTMCUniformGrid(h=0.05, model=m)
        grid.refine()
        ax, o = grid.axes[0], grid.origin_coordinate.value
        nu = m.levy_triplet.nu
        for inc in (-3, -1, 1, 3, 5):
            p = o + inc
            x = ax[p]
            lo, hi = 0.5 * (ax[p - 1] + x), 0.5 * (x + ax[p + 1])
            want = nu.integrate(x, hi) / (nu.integrate(lo, x) + nu.integrate(x, hi))
            got = CouplingSimulation.probability_to_right_jump(grid, m.mass, inc)
            if abs(got - want) > 1e-12:
                return (True, {"increment": inc, "native": float(got), "expected": float(want)})
        return (False, {})


class CouplingState(FunctionContract):
    raises = {"ZeroDivisionError": lambda **a: True}
    raises_exact = False
    """coupling_state(increment) on a refined grid (origin index even): a fine jump that lands on a coarse state is copied
    unchanged; any other fine jump moves to one of the two ADJACENT coarse states, to the right with probability
    probability_to_right_jump (as a function of the coupling uniform)."""
    prop = "C03"
    target = CM + "CouplingSimulation.coupling_state"
    name = "CouplingSimulation.coupling_state"

    def __init__(self):
        self.pr = ProbabilityToRight()
        self.modular = (self.pr,)

    def configure(self, interp):
        from pyvc import ctx
        interp.hooks["rpylib.distribution.univariate.uniform:Uniform.sample"] = lambda it, f, b: ctx.PATH.ghost["u"]

    def setup(self, vc, case):
        grid, ax, h, o = wf_grid(vc)
        basic_axioms(vc)
        inc, u = vc.int("increment"), vc.real("coupling_uniform")
        p = o + inc
        # refined grid (C13): odd length, even origin index; the increment addresses a state of the grid
        vc.assume(And(o % 2 == 0, ax.length % 2 == 1, p >= 0, p < ax.length, u >= 0, u < 1))
        vc.ghost.update(ax=ax, o=o, u=u)
        uni = vc.obj("rpylib.distribution.univariate.uniform:Uniform")
        model = vc.obj(LM + "LevyModel", mass=abstract_mass())
        fine = vc.obj("rpylib.process.markovchain.markovchain:MarkovChainProcess", model=model)
        cp = vc.obj(CM + "CouplingMarkovChain", grid=grid, uniform=uni, fine_process=fine)
        return dict(self=vc.obj(CM + "CouplingSimulation", coupling_process=cp), increment=inc)

    def ensures(self, result, self_=None, increment=None):
        from pyvc import ctx
        g = ctx.PATH.ghost
        ax, o, u = g["ax"], g["o"], g["u"]
        p = o + increment
        x = ax.raw(p)
        L, R = MU(cell_lo(ax, p), x), MU(x, cell_hi(ax, p))
        even = p % 2 == 0
        return {"coarse-grid-states-are-copied-unchanged": Implies(even, result == x),
                "other-states-move-to-an-adjacent-coarse-state": Implies(Not(even), Or(result == ax.raw(p + 1), result == ax.raw(p - 1))),
                "right-with-the-right-share-of-the-cell-mass": Implies(And(Not(even), L + R > 0), (result == ax.raw(p + 1)) == (u * (L + R) < R))}


class Telescoping(Lemma):
    """for every coarse state y: the fine rate of y, plus the fine rates of its two fine neighbours times the probability
    that the coupling sends them to y, equals the COARSE chain's rate of y (mass of y's coarse cell); for the coarse origin
    the mass landing on it lies inside the coarse central cell.  Fine grid = refine(coarse grid) per C13's contract."""
    prop = "C03"
    name = "property:coupled-coarse-chain-has-the-previous-level's-rates"
    cases = ("interior", "left-end", "right-end", "origin")

    def prove(self, vc, case):
        grid, c, h, oc = wf_grid(vc, name="coarse_axis")
        basic_axioms(vc)
        n = c.length
        f = vc.seq("fine_axis", "r", min_len=5)
        j = vc.int("j")
        vc.assume(And(j >= 0, j < n))
        vc.assume(f.length == 2 * n - 1)
        # C13 refine contract, instantiated at the indices used
        for k in (j - 1, j, j + 1):
            vc.assume(Implies(And(k >= 0, k < n), f.raw(2 * k) == c.raw(k)))
            vc.assume(Implies(And(k >= 0, k < n - 1), And(2 * f.raw(2 * k + 1) == c.raw(k) + c.raw(k + 1), c.raw(k) < c.raw(k + 1))))
        of = 2 * oc
        nm = self.name + f"[{case}]"
        rate = lambda i: MU(cell_lo(f, i), cell_hi(f, i))                       # fine rate of fine state i (C01)
        R = lambda i: MU(f.raw(i), cell_hi(f, i))                               # rate * P(right)   (contract of probability_to_right_jump)
        Lm = lambda i: MU(cell_lo(f, i), f.raw(i))                              # rate * P(left)
        y = 2 * j
        if case == "interior":
            vc.assume(And(j >= 1, j <= n - 2, j != oc))
            pts = [f.raw(y - 1), cell_lo(f, y), cell_hi(f, y), f.raw(y + 1)]
            for a_, b_, c_ in ((pts[0], pts[1], pts[2]), (pts[0], pts[2], pts[3])):
                vc.assume(additivity(a_, b_, c_))
            vc.check(nm + "::fine-neighbours-are-the-coarse-cell-boundaries", And(f.raw(y - 1) == cell_lo(c, j), f.raw(y + 1) == cell_hi(c, j)))
            vc.check(nm + "::rates-telescope", R(y - 1) + rate(y) + Lm(y + 1) == MU(cell_lo(c, j), cell_hi(c, j)))
        elif case == "left-end":
            vc.assume(And(j == 0, oc >= 1))
            vc.assume(additivity(f.raw(0), cell_hi(f, 0), f.raw(1)))
            vc.check(nm + "::rates-telescope", rate(0) + Lm(1) == MU(cell_lo(c, 0), cell_hi(c, 0)))
        elif case == "right-end":
            vc.assume(And(j == n - 1, oc <= n - 2))
            vc.assume(additivity(f.raw(y - 1), cell_lo(f, y), f.raw(y)))
            vc.check(nm + "::rates-telescope", R(y - 1) + rate(y) == MU(cell_lo(c, j), cell_hi(c, j)))
        else:
            vc.assume(j == oc)
            vc.check(nm + "::mass-landing-on-the-coarse-origin-is-inside-the-coarse-central-cell",
                     And(f.raw(of + 1) == h / 2, f.raw(of - 1) == -h / 2, cell_lo(f, of + 1) == h / 4, cell_hi(f, of - 1) == -h / 4,
                         Lm(of + 1) == MU(h / 4, h / 2), R(of - 1) == MU(-h / 2, -h / 4)))


class DiffusionCoupling(FunctionContract):
    """simulate_diffusion_with_coupling: fine and coarse diffusion paths are the running sums of the SAME Brownian
    increments scaled by the fine / coarse coefficient (fixed-dates variant, n increments, n <= 3)."""
    prop = "C03"
    target = CM + "CouplingSimulation.simulate_diffusion_with_coupling"
    name = "CouplingSimulation.simulate_diffusion_with_coupling"
    cases = (1, 2, 3)

    def setup(self, vc, n):
        import collections
        w = np.array(vc.reals("w", n), dtype=object)
        other = np.array(vc.reals("w_next_path", n), dtype=object)
        dq = collections.deque([w, other])
        ef, ec = vc.real("coef_fine"), vc.real("coef_coarse")
        sq = np.array(vc.reals("sqrt_dt", n), dtype=object)
        sim = vc.obj("rpylib.process.markovchain.markovchain:MCSimulationFixedTimes", _brownian_increments=dq)
        fine = vc.obj("rpylib.process.markovchain.markovchain:MarkovChainProcess", _path_simulation=sim)
        cp = vc.obj(CM + "CouplingMarkovChain", fine_process=fine, equivalent_diffusion_coefficient_fine=ef, equivalent_diffusion_coefficient_coarse=ec)
        vc.ghost.update(w=w, ef=ef, ec=ec, sq=sq, dq=dq, other=other)
        return dict(self=vc.obj(CM + "CouplingSimulation", coupling_process=cp), sqrt_dts=sq)

    def ensures(self, result, self_=None, sqrt_dts=None):
        from pyvc import ctx
        g = ctx.PATH.ghost
        w, ef, ec, sq = g["w"], g["ef"], g["ec"], g["sq"]
        f, c = result
        n = len(w)
        run_f = [sum((sq[i] * ef * w[i] for i in range(k + 1)), 0) for k in range(n)]
        run_c = [sum((sq[i] * ec * w[i] for i in range(k + 1)), 0) for k in range(n)]
        return {"fine-is-running-sum-with-fine-coefficient": And(*[f[k] == run_f[k] for k in range(n)]),
                "coarse-is-running-sum-of-the-same-increments-with-coarse-coefficient": And(*[c[k] == run_c[k] for k in range(n)]),
                "one-pre-drawn-row-consumed": (len(g["dq"]) == 1) and (g["dq"][0] is g["other"])}


class NextLevel(FunctionContract):
    """CouplingMarkovChain.next_level: the coarse coefficient becomes the fine coefficient of the level just left, the
    grid is refined exactly once BEFORE the new fine chain is built on it, the level counter advances, and the frozen
    coarse deterministic path is the affine function through the old fine path's values at t=0 and t=1."""
    prop = "C03"
    target = CM + "CouplingMarkovChain.next_level"
    name = "CouplingMarkovChain.next_level"
    cases = ("no-path-manager", "with-path-manager")

    def configure(self, interp):
        from pyvc import ctx
        MCP = "rpylib.process.markovchain.markovchain:MarkovChainProcess."
        log = lambda ev: ctx.PATH.ghost.setdefault("log", []).append(ev)

        def new_chain(it, f, b):
            log(("new-fine-chain", b["grid"], b["model"], b["method"], ctx.PATH.ghost.get("refined", 0)))
            b["self"].fields.update(equivalent_diffusion_coefficient=ctx.PATH.ghost["E_new"], grid=b["grid"], tag="new", process_representation=None)
        interp.hooks[MCP + "__init__"] = new_chain
        interp.hooks["rpylib.grid.spatial:CTMCGrid.refine"] = lambda it, f, b: (ctx.PATH.ghost.update(refined=ctx.PATH.ghost.get("refined", 0) + 1), log(("refine", b["self"])))[1]
        interp.hooks[CM + "CouplingMarkovChain.initialisation"] = lambda it, f, b: log(("initialisation", b["self"].fields["fine_process"].fields.get("tag")))
        interp.hooks[CM + "CouplingMarkovChain.pre_computation"] = lambda it, f, b: log(("pre_computation", b["mc_paths"]))

        def det_path(it, f, b):
            g = ctx.PATH.ghost
            t = b["times"]
            base, slope = (g["x0_old"], g["d_old"]) if b["self"].fields.get("tag") != "new" else (g["x0_new"], g["d_new"])
            return it.lib.np_map(lambda x: base + slope * x, np.asarray(t, dtype=object) if not isinstance(t, np.ndarray) else t)
        interp.hooks["rpylib.process.process:Process.deterministic_path"] = det_path
        interp.hooks["rpylib.montecarlo.path:MCPath.update"] = lambda it, f, b: None

    def setup(self, vc, case):
        g = vc.ghost
        E_old, E_new, lvl = vc.real("coef_fine_old"), vc.real("coef_fine_new"), vc.int("level")
        g.update(E_new=E_new, E_old=E_old, lvl=lvl, x0_old=vc.real("x0"), d_old=vc.real("drift_old"), x0_new=vc.real("x0_new"), d_new=vc.real("drift_new"))
        grid = vc.obj(SP + "CTMCGrid")
        old_fine = vc.obj("rpylib.process.markovchain.markovchain:MarkovChainProcess", equivalent_diffusion_coefficient=E_old, tag="old",
                          process_representation=None)
        model = vc.obj(LM + "LevyModel")
        method = vc.enum("rpylib.distribution.sampling:SamplingMethod", "INVERSION")
        cp = vc.obj(CM + "CouplingMarkovChain", level=lvl, grid=grid, model=model, method=method, fine_process=old_fine,
                    equivalent_diffusion_coefficient_fine=E_old, equivalent_diffusion_coefficient_coarse=vc.real("coef_coarse_old"))
        pms = None
        if case == "with-path-manager":
            pm = vc.obj("rpylib.montecarlo.path:MCPath", deterministic_path=None)
            pms = [pm]
        g.update(grid=grid, pms=pms, model=model, method=method)
        product = vc.obj("rpylib.product.product:Product")
        return dict(self=cp, mc_paths=vc.int("mc_paths"), path_managers=pms, product=product, max_step_epsilon=None)

    def ensures(self, result, self_=None, path_managers=None, **kw):
        from pyvc import ctx
        g = ctx.PATH.ghost
        f = self_.fields
        log = g.get("log", [])
        kinds = [e[0] for e in log]
        out = {"level-advances": f["level"] == g["lvl"] + 1,
               "coarse-coefficient-is-the-previous-fine-coefficient": f["equivalent_diffusion_coefficient_coarse"] == g["E_old"],
               "fine-coefficient-is-the-new-chain's": f["equivalent_diffusion_coefficient_fine"] == g["E_new"],
               "grid-refined-exactly-once-before-the-new-chain-is-built": kinds.count("refine") == 1 and kinds.count("new-fine-chain") == 1
               and kinds.index("refine") < kinds.index("new-fine-chain") and log[kinds.index("refine")][1] is g["grid"],
               "new-chain-on-the-refined-grid-same-model-and-method": any(e[0] == "new-fine-chain" and e[1] is g["grid"] and e[2] is g["model"] and e[3] is g["method"] for e in log),
               "new-chain-initialised-and-pre-computed": ("initialisation", "new") in log and kinds.count("pre_computation") == 1 and kinds.index("initialisation") > kinds.index("new-fine-chain")}
        if path_managers is not None:
            ok = len(path_managers) == 2
            out["one-path-manager-appended"] = ok
            if ok:
                t = ctx.PATH.fresh("t", "r")
                it = ctx.INTERP
                both = it.call(path_managers[-1].fields["deterministic_path"], [np.array([t], dtype=object)], {})
                out["fine-component-is-the-new-chain's-path"] = both[0][0] == g["x0_new"] + g["d_new"] * t
                out["coarse-component-is-the-previous-level's-path-frozen"] = both[1][0] == g["x0_old"] + g["d_old"] * t
        return out


CL = "rpylib.process.coupling.couplinglevycopula:"
MFULL = z3.Function("MASS2", *([z3.RealSort()] * 5))
MMARG = {k: z3.Function(f"MASS_margin{k}", z3.RealSort(), z3.RealSort(), z3.RealSort()) for k in (0, 1)}


def mass2(a, b):
    return Sym(MFULL(*[as_real_term(lift(x)) for x in (a[0], a[1], b[0], b[1])]), "r")


class CopulaCouplingState(FunctionContract):
    """CouplingLevyCopulaSimulation.__coupling_state, d = 2, by parity of the fine increment: all-even -> the state is
    copied; otherwise the coarse state is chosen, as a function of the coupling uniform, with probability
    (mass of the part of the FINE CELL that belongs to that coarse state's cell) / (mass of the fine cell), the masses being
    those of the joint measure -- which is what makes the coarse path follow the previous level's law."""
    prop = "C03"
    target = CL + "CouplingLevyCopulaSimulation.__coupling_state"
    # "...|after an earlier jump": the simulation object (built by its real constructor) has already coupled one jump of
    # mixed parity -- the answer for the next jump must not depend on it
    cases = ("even-even", "odd-odd", "even-odd", "odd-even", "odd-odd|after an earlier jump", "odd-even|after an earlier jump")
    raises = {"ZeroDivisionError": lambda **a: True, "ValueError": lambda **a: True}
    raises_exact = False

    def __init__(self):
        self.name = "CouplingLevyCopulaSimulation.__coupling_state"
        self.target = CL + "CouplingLevyCopulaSimulation._CouplingLevyCopulaSimulation__coupling_state"

    def configure(self, interp):
        from pyvc import ctx
        interp.hooks["rpylib.distribution.univariate.uniform:Uniform.sample"] = lambda it, f, b: ctx.PATH.ghost["u"]
        interp.hooks["rpylib.model.levycopulamodel:LevyCopulaModel.dimension_model"] = lambda it, f, b: 2
        interp.hooks["rpylib.model.levycopulamodel:LevyCopulaModel.dimension"] = lambda it, f, b: 2

    def setup(self, vc, case):
        from pyvc.lib import Model
        from pyvc import ctx
        grid, ax, h, o = wf_grid(vc, d=2, quantified=False)      # explicit instances of the ordering below
        # the axes of a grid may differ (credit grids with one default level per name): the second coordinate has its OWN axis
        # (same length and origin index, as the grid constructors build them)
        ax1 = vc.seq("axis_of_coordinate1", "r", min_len=3)
        vc.assume(And(ax1.length == ax.length, ax1.raw(o) == 0))
        axes = [ax, ax1]
        grid.fields["axes"] = axes
        grid.fields["truncations"] = [(a_.raw(0), a_.raw(a_.length - 1)) for a_ in axes]
        case, _, history = case.partition("|")
        inc = vc.ints("increment", 2)
        u = vc.real("coupling_uniform")
        par = {"even": 0, "odd": 1}
        want = [par[x] for x in case.split("-")]
        ps = [o + i for i in inc]
        vc.assume(And(o % 2 == 0, ax.length % 2 == 1, u >= 0, u <= 1, *[And(p >= 1, p <= ax.length - 2, p % 2 == w) for p, w in zip(ps, want)]))
        for a_, p_ in zip(axes, ps):
            for j in (p_ - 1, p_):
                vc.assume(a_.raw(j) < a_.raw(j + 1))

        def mass(interp, a, b, indices=None):
            a, b = tuple(a), tuple(b)
            idx = list(indices) if indices is not None else [0, 1]
            ctx.PATH.check("__coupling_state -> mass::requires(a<=b)", And(*[x <= y for x, y in zip(a, b)]))
            if len(idx) == 2:
                return mass2(a, b)
            k = idx[0]
            return Sym(MMARG[k](as_real_term(lift(a[0])), as_real_term(lift(b[0]))), "r")
        model = vc.obj("rpylib.model.levycopulamodel:LevyCopulaModel", mass=Model(mass, "abstract-copula-mass"))
        cp = vc.obj(CL + "CouplingProcessLevyCopula", grid=grid, model=model, _uniform=vc.obj("rpylib.distribution.univariate.uniform:Uniform"))
        sim = vc.new(CL + "CouplingLevyCopulaSimulation", cp)
        if history:
            inc0 = vc.ints("earlier_increment", 2)
            ps0 = [o + i for i in inc0]
            vc.assume(And(*[And(p >= 1, p <= ax.length - 2, p % 2 == w) for p, w in zip(ps0, (0, 1))]))
            for a_, p_ in zip(axes, ps0):
                for j in (p_ - 1, p_):
                    vc.assume(a_.raw(j) < a_.raw(j + 1))
            u0 = vc.real("earlier_coupling_uniform")
            vc.assume(And(u0 >= 0, u0 <= 1))
            vc.ghost.update(u=u0)
            from pyvc.sym import PyRaise as _PR
            try:
                vc.method(sim, "_CouplingLevyCopulaSimulation__coupling_state", tuple(inc0))
            except _PR:
                vc.assume(False)        # the earlier jump raised (degenerate cell): not the history this case is about
        vc.ghost.update(ax=ax, axes=axes, o=o, u=u, ps=ps, case=case)
        return dict(self=sim, increment=tuple(inc))

    def ensures(self, result, self_=None, increment=None, **kw):
        from pyvc import ctx
        g = ctx.PATH.ghost
        axes, ps, u, case = g["axes"], g["ps"], g["u"], g["case"]
        x = [a_.raw(p) for a_, p in zip(axes, ps)]
        lo = [cell_lo(a_, p) for a_, p in zip(axes, ps)]
        hi = [cell_hi(a_, p) for a_, p in zip(axes, ps)]
        res = list(result) if isinstance(result, (tuple, np.ndarray)) else None
        if res is None or len(res) != 2:
            return {"two-coordinates": False}
        cell = mass2(lo, hi)
        out = {}
        if case == "even-even":
            out["coarse-grid-states-are-copied-unchanged"] = And(res[0] == x[0], res[1] == x[1])
            return out
        odd = [k for k, w in enumerate(case.split("-")) if w == "odd"]
        even = [k for k in (0, 1) if k not in odd]
        for k in even:
            out[f"coordinate{k}-on-the-coarse-grid-is-kept"] = res[k] == x[k]
        for k in odd:
            out[f"coordinate{k}-moves-to-an-adjacent-coarse-state"] = Or(res[k] == axes[k].raw(ps[k] - 1), res[k] == axes[k].raw(ps[k] + 1))
        # the first alternative tried by the code is the all-(-1) neighbour: its share of the FINE CELL's joint mass
        a = [lo[k] if k in even else lo[k] for k in (0, 1)]
        b = [hi[k] if k in even else x[k] for k in (0, 1)]
        share = mass2(a, b)
        first = And(*[res[k] == axes[k].raw(ps[k] - 1) for k in odd])
        out["first-neighbour-chosen-with-its-share-of-the-fine-cell's-joint-mass"] = Implies(cell > 0, first == (u * cell <= share))
        return out

    def replay(self, model, clause, case):
        # native: real __coupling_state on a refined 2-d grid with Clayton-coupled HEM margins; the probability of the first
        # neighbour is measured by bisection on the coupling uniform and compared with the joint-mass share
        from types import SimpleNamespace
        from contracts import battery
        from rpylib.grid.spatial import CTMCUniformGrid
        from rpylib.process.coupling.couplinglevycopula import CouplingLevyCopulaSimulation
        cm = battery.copula_model(2, "clayton")
        grid = CTMCUniformGrid.create_from_fixed_nb_of_points(h=0.1, nb_of_points=7, dimension=2)
        grid.refine()
        ax, o = grid.axes[0], grid.origin_coordinate.value[0]

        class U:
            def __init__(self):
                self.u = 0.5

            def sample(self):
                return self.u
        uni = U()
        case, _, history = case.partition("|")
        cm.dimension_model = lambda: 2
        if "adjacent" in clause or "requires" in clause or "kept" in clause or "copied" in clause:
            # a grid whose axes differ: credit grid with one default level per name, refined once
            from rpylib.grid.spatial import CTMCCredit
            g2 = CTMCCredit(h=0.05, level_a=[-0.2, -0.12], model=cm)
            g2.refine()
            sim2 = CouplingLevyCopulaSimulation(SimpleNamespace(grid=g2, model=cm, _uniform=uni))
            f2 = getattr(sim2, "_CouplingLevyCopulaSimulation__coupling_state")
            o2 = g2.origin_coordinate.value
            wp = [0 if w == "even" else 1 for w in case.split("-")]
            for inc in ((-2, -3), (-4, -5), (2, 3), (-6, -3), (-3, -2), (-5, -4), (-3, -3), (-5, -3), (-2, -4)):
                if [i % 2 for i in inc] != wp:
                    continue
                pos = [o2[k] + inc[k] for k in (0, 1)]
                x = [float(g2.axes[k][pos[k]]) for k in (0, 1)]
                for uu in (0.05, 0.5, 0.95):
                    uni.u = uu
                    try:
                        r = [float(v) for v in f2(tuple(inc))]
                    except Exception as e:
                        return (True, {"grid": "CTMCCredit levels (-0.2, -0.12), refined once", "increment": inc, "exception": f"{type(e).__name__}: {e}"})
                    for k in (0, 1):
                        ok = (r[k] == x[k]) if not wp[k] else (r[k] in (float(g2.axes[k][pos[k] - 1]), float(g2.axes[k][pos[k] + 1])))
                        if not ok:
                            return (True, {"grid": "CTMCCredit levels (-0.2, -0.12), refined once", "increment": inc, "fine_state": x, "coupling_uniform": uu, "coarse_state": r,
                                           "coordinate": k, "adjacent_states_on_its_axis": [float(g2.axes[k][pos[k] - 1]), float(g2.axes[k][pos[k] + 1])]})
        sim = CouplingLevyCopulaSimulation(SimpleNamespace(grid=grid, model=cm, _uniform=uni))
        f = getattr(sim, "_CouplingLevyCopulaSimulation__coupling_state")
        if history:
            uni.u = 0.4
            f((2, 3))           # an earlier jump of mixed parity on the same simulation object
        want_par = [0 if w == "even" else 1 for w in case.split("-")]
        worst = None
        for inc in ((2, 3), (3, 2), (3, 3), (-2, 3), (3, -2), (-3, -3), (2, -3), (4, 1), (1, 4), (2, 2)):
            if [i % 2 for i in inc] != want_par:
                continue
            ps = [o + i for i in inc]
            x = [ax[p] for p in ps]
            lo = [0.5 * (ax[p - 1] + ax[p]) for p in ps]
            hi = [0.5 * (ax[p] + ax[p + 1]) for p in ps]
            odd = [k for k in (0, 1) if want_par[k]]
            if not odd:
                uni.u = 0.3
                r = f(tuple(inc))
                if tuple(float(v) for v in r) != tuple(float(v) for v in x):
                    return (True, {"increment": inc, "native": [float(v) for v in r], "state": x})
                continue
            first = [ax[ps[k] - 1] if k in odd else x[k] for k in (0, 1)]
            a_, b_ = 0.0, 1.0
            for _ in range(40):
                uni.u = 0.5 * (a_ + b_)
                r = f(tuple(inc))
                if all(abs(float(r[k]) - first[k]) < 1e-12 for k in (0, 1)):
                    a_ = uni.u
                else:
                    b_ = uni.u
            p_code = 0.5 * (a_ + b_)
            cell = cm.mass(a=tuple(lo), b=tuple(hi))
            share = cm.mass(a=tuple(lo), b=tuple(hi[k] if k not in odd else x[k] for k in (0, 1)))
            p_true = share / cell
            info = {"increment": inc, "state": x, "P_code(first neighbour)": p_code, "joint-mass share": p_true}
            if "share" in clause or "unsupported" in clause or "exception" in clause:
                if abs(p_code - p_true) > 1e-6:
                    return (True, info)
            else:
                for uu in (0.01, 0.3, 0.6, 0.99):
                    uni.u = uu
                    r = f(tuple(inc))
                    kept = all(abs(float(r[k]) - x[k]) < 1e-12 for k in (0, 1) if k not in odd)
                    adj = all(min(abs(float(r[k]) - ax[ps[k] - 1]), abs(float(r[k]) - ax[ps[k] + 1])) < 1e-12 for k in odd)
                    if not (kept and adj):
                        return (True, {**info, "u": uu, "native": [float(v) for v in r]})
            worst = info
        return (False, worst)


CS = "rpylib.process.coupling.couplingsde:"


class SDENextLevel(FunctionContract):
    """CouplingSDE.next_level: the coarse driver drift of the new level is the fine driver drift of the level just left
    (whatever the level), the time-step cap is (h/2)^beta of the grid about to be refined, the driver coupling advances
    exactly once (which refines the grid), and the new fine drift is read from the driver's NEW fine chain."""
    prop = "C03"
    target = CS + "CouplingSDE.next_level"
    name = "CouplingSDE.next_level"

    def configure(self, interp):
        from pyvc import ctx
        log = lambda ev: ctx.PATH.ghost.setdefault("log", []).append(ev)
        interp.hooks[CS + "CouplingSDE.initialisation"] = lambda it, f, b: log(("initialisation", b["self"].fields["level"]))

        def driver_next(it, f, b):
            g = ctx.PATH.ghost
            log(("driver.next_level", b["path_managers"], b["max_step_epsilon"], b["mc_paths"]))
            b["self"].fields["fine_process"] = g["new_driver_fine"]
        interp.hooks[CM + "CouplingMarkovChain.next_level"] = driver_next

        def sde_drift_now(it, f, b):
            # the drift function of the SDE scheme on the grid "as it is now": tagged with how often the driver coupling
            # (which refines the grid) has advanced when it is asked for
            g = ctx.PATH.ghost
            n_adv = [e[0] for e in g.get("log", [])].count("driver.next_level")
            log(("sde_drift_of_the_current_level", n_adv))
            return g["sde_new"] if n_adv == 1 else g["sde_stale"]
        interp.hooks[CS + "CouplingSDE._sde_drift_of_the_current_level"] = sde_drift_now
        interp.hooks["rpylib.process.markovchain.markovchain:MarkovChainProcess.process_drift"] = lambda it, f, b: b["self"].fields["_drift_tag"]
        interp.hooks["rpylib.montecarlo.path:MCPath.update"] = lambda it, f, b: None
        interp.hooks[LM + "LevyModel.blumenthal_getoor_index"] = lambda it, f, b: ctx.PATH.ghost["beta"]
        # the level-0 process' deterministic part = the model's CURRENT initial value (abstract: whatever it is when asked)
        interp.hooks["rpylib.markovchain.markovchainsde:MarkovChainSDE.deterministic_path"] = None
        interp.hooks.pop("rpylib.markovchain.markovchainsde:MarkovChainSDE.deterministic_path")
        interp.hooks["rpylib.process.markovchain.markovchainsde:MarkovChainSDE.deterministic_path"] = lambda it, f, b: ctx.PATH.ghost["x0_now"]

    def setup(self, vc, case):
        g = vc.ghost
        h, beta, lvl = vc.real("h"), vc.real("beta"), vc.int("level")
        vc.assume(And(h > 0, beta > 0, beta < 2, lvl >= 0))
        d_h, d_2h, d_new, d_level0 = vc.real("mc_drift_h"), vc.real("mc_drift_2h_old"), vc.real("new_fine_drift"), vc.real("level0_chain_drift")
        MCP = "rpylib.process.markovchain.markovchain:MarkovChainProcess"
        old_driver_fine = vc.obj(MCP, _drift_tag=d_h)
        new_driver_fine = vc.obj(MCP, _drift_tag=d_new)
        driver = vc.obj(CM + "CouplingMarkovChain", grid=vc.obj(SP + "CTMCGrid", h=h), fine_process=old_driver_fine)
        level0_chain = vc.obj(MCP, _drift_tag=d_level0)
        sde_fine = vc.obj("rpylib.process.markovchain.markovchainsde:MarkovChainSDE", markov_chain=level0_chain)
        model = vc.obj("rpylib.model.levydrivensde.levydrivensde:LevyDrivenSDEModel", driver=vc.obj(LM + "LevyModel"))
        spots = vc.real("spots")
        sde_h, sde_2h, sde_new, sde_stale = (vc.real(n_) for n_ in ("sde_drift_fine_old", "sde_drift_coarse_old", "sde_drift_on_the_refined_grid", "sde_drift_on_the_unrefined_grid"))
        o = vc.obj(CS + "CouplingSDE", level=lvl, model=model, driver_coupling_process=driver, fine_process=sde_fine, mc_drift_h=d_h, mc_drift_2h=d_2h,
                   sde_drift_h=sde_h, sde_drift_2h=sde_2h, epsilon=vc.real("eps_old"), _process_representation=None, _spots=spots)
        g.update(sde_h=sde_h, sde_new=sde_new, sde_stale=sde_stale)
        pm = vc.obj("rpylib.montecarlo.path:MCPath", deterministic_path=None)
        pms = [pm]
        g.update(h=h, beta=beta, lvl=lvl, d_h=d_h, d_new=d_new, new_driver_fine=new_driver_fine, pms=pms, spots=spots, mcp=vc.int("mc_paths"), x0_now=spots)
        return dict(self=o, mc_paths=g["mcp"], path_managers=pms, product=vc.obj("rpylib.product.product:Product"))

    def ensures(self, result, self_=None, path_managers=None, **kw):
        from pyvc import ctx
        from pyvc.lib import m_pow
        g = ctx.PATH.ghost
        f = self_.fields
        log = g.get("log", [])
        kinds = [e[0] for e in log]
        eps = m_pow(g["h"] / 2, g["beta"])
        out = {"level-advances": f["level"] == g["lvl"] + 1,
               "coarse-driver-drift-is-the-previous-fine-driver-drift": f["mc_drift_2h"] == g["d_h"],
               "fine-driver-drift-is-the-new-fine-chain's": f["mc_drift_h"] == g["d_new"],
               # "the coarse drift ... [is that] of level l-1", for the drift of the SDE scheme too (it depends on the grid)
               "coarse-sde-drift-is-the-previous-fine-sde-drift": f.get("sde_drift_2h") is not None and f["sde_drift_2h"] == g["sde_h"],
               "fine-sde-drift-is-the-scheme's-on-the-refined-grid": f.get("sde_drift_h") is not None and f["sde_drift_h"] == g["sde_new"],
               "time-step-cap-is-(h/2)^beta": f["epsilon"] == eps,
               "driver-coupling-advances-exactly-once-without-path-managers-with-the-new-cap":
                   kinds.count("driver.next_level") == 1 and log[kinds.index("driver.next_level")][1] is None
                   and (log[kinds.index("driver.next_level")][2] == eps),
               "one-path-manager-appended": len(path_managers) == 2}
        if len(path_managers) == 2:
            it = ctx.INTERP
            both = it.call(path_managers[-1].fields["deterministic_path"], [np.array([ctx.PATH.fresh("t", "r")], dtype=object)], {})
            out["deterministic-part-is-the-initial-value-for-both-components"] = And(both[0] == g["spots"], both[1] == g["spots"])
            # history: the model's initial value is reassigned after the level was set up -- both components start from the
            # CURRENT initial value (the one the Euler increments are computed from)
            g["x0_now"] = ctx.PATH.fresh("initial_value_after_reassignment", "r")
            again = it.call(path_managers[-1].fields["deterministic_path"], [np.array([ctx.PATH.fresh("t", "r")], dtype=object)], {})
            out["deterministic-part-follows-a-reassigned-initial-value"] = And(again[0] == g["x0_now"], again[1] == g["x0_now"])
        return out


def _sde_drift_replay():
    """Levy Libor model (CGMY driver): after next_level the fine component must be drifted with the scheme's drift on the
    refined grid and the coarse one with the drift of the level before (zz(h) = second moment of the simulated jumps)"""
    import warnings
    from rpylib.distribution.sampling import SamplingMethod
    from rpylib.grid.spatial import CTMCUniformGrid
    from rpylib.model.levydrivensde.levylibormodel import LevyLiborModel
    from rpylib.model.utils import create_levy_model, ModelType
    from rpylib.montecarlo.path import MLMCPath
    from rpylib.process.coupling.couplingsde import CouplingSDE
    from rpylib.process.markovchain.markovchainsde import MarkovChainLevyLiborModel
    from rpylib.product.payoff import Swaption
    from rpylib.product.product import Product
    from rpylib.product.underlying import Libors
    with warnings.catch_warnings():
        warnings.simplefilter("ignore")
        driver = create_levy_model(ModelType.CGMY)(c=0.5, g=10, m=12, y=0.8)
        model = LevyLiborModel(libor_rates=[0.02, 0.025, 0.03], tenors=[1.0, 1.5, 2.0, 2.5], sigma=np.array([[0.5], [0.8], [1.0]]), driver=driver)
        product = Product(payoff_underlying=Libors(), payoff=Swaption(underlying_rates=model.x0, deltas=model.deltas, strike=0.025), maturity=1.0, notional=100.0)
        method = SamplingMethod.BINARYSEARCHTREEADAPTED1D
        cp = CouplingSDE(model=model, grid=CTMCUniformGrid(h=0.05, model=model), method=method)
        product.update(cp.fine_process.process_representation)
        cp.initialisation(product)
        managers = [MLMCPath(deterministic_path=cp.fine_process.deterministic_path, activate_spot_underlying=False)]
        cp.pre_computation(mc_paths=2, product=product)
        x = np.array([model.x0]).T
        scheme = lambda h: (lambda p_: (p_.initialisation(product), p_.sde_drift(0.0, x).ravel())[1])(MarkovChainLevyLiborModel(model=model, method=method, grid=CTMCUniformGrid(h=h, model=model)))
        cp.next_level(2, managers, product)
        used_fine = getattr(cp, "sde_drift_h", None) or cp.fine_process.sde_drift
        used_coarse = getattr(cp, "sde_drift_2h", None) or cp.fine_process.sde_drift
        got = [used_fine(0.0, x).ravel(), used_coarse(0.0, x).ravel()]
        want = [scheme(0.025), scheme(0.05)]
        bad = not (np.allclose(got[0], want[0], rtol=1e-9, atol=0) and np.allclose(got[1], want[1], rtol=1e-9, atol=0))
        return (bool(bad), {"level": 1, "fine_grid_h": 0.025, "sde_drift_used_fine": got[0].tolist(), "scheme_on_h=0.025": want[0].tolist(),
                            "sde_drift_used_coarse": got[1].tolist(), "scheme_on_h=0.05": want[1].tolist()})


def _sde_next_level_replay(self, model, clause, case):
    if "sde-drift" in clause:
        return _sde_drift_replay()
    if "reassigned" not in clause:
        return None
    import warnings
    from rpylib.distribution.sampling import SamplingMethod
    from rpylib.grid.spatial import CTMCUniformGrid
    from rpylib.model.levydrivensde.levydrivensde import LevyDrivenSDEModel, DiagX
    from rpylib.model.levymodel.mixed.hem import HEMParameters, HEMModel
    from rpylib.process.coupling.couplingsde import CouplingSDE
    from rpylib.product.payoff import Swaption
    from rpylib.product.product import Product
    from rpylib.product.underlying import Libors
    with warnings.catch_warnings():
        warnings.simplefilter("ignore")
        driver = HEMModel(parameters=HEMParameters(sigma=0.1, p=0.6, eta1=20, eta2=25, intensity=3))
        m = LevyDrivenSDEModel(driver=driver, x0=3.0, a=DiagX(1))
        grid = CTMCUniformGrid(h=0.02, model=m)
        cp = CouplingSDE(model=m, method=SamplingMethod.BINARYSEARCHTREEADAPTED1D, grid=grid)
        product = Product(payoff_underlying=Libors(), payoff=Swaption(underlying_rates=np.full(1, 0.02), deltas=np.ones(1), strike=0.02), maturity=1.0, notional=100.0)
        cp.initialisation(product)
        cp.pre_computation(4, product)

        class PM:
            deterministic_path = None

            def update(self, representation):
                pass
        pms = [PM()]
        cp.next_level(4, pms, product)
        m.x0 = np.array([5.0])              # the initial value is reassigned after the level was set up
        start = np.ravel(np.asarray(pms[-1].deterministic_path(np.array([0.0, 1.0])), dtype=float))
    return (not np.allclose(start, 5.0), {"initial_value_at_construction": 3.0, "reassigned_to": 5.0, "deterministic_part_of_the_coupled_level": start.tolist()})


SDENextLevel.replay = _sde_next_level_replay

UNITS = [ProbabilityToRight(), CouplingState(), Telescoping(), DiffusionCoupling(), NextLevel(), CopulaCouplingState(), SDENextLevel()]
ASSUMPTIONS = ["A1: floats are mathematical reals", "A6: the model's mass is an additive non-negative interval function (C09/C12)",
               "the fine grid is the refinement of the coarse grid (C13 contract of refine) and rates are cell masses (C01)",
               "expected-payoff telescoping E[P_l^coarse] = E[P_{l-1}^fine] follows from equal laws (not mechanised)"]
TRUSTED_BASE = ["z3 5.1", "pyvc interpreter + numpy models"]


class TelescopingBattery:
    """B2 (native, bounded): real CouplingMarkovChain objects taken through levels 1..3 (next_level on ONE object, as the
    multilevel engine does); at each level the transfer probability of every odd fine state is measured by bisection on
    the coupling uniform fed to the real coupling_state, and  sum_x rate_f(x) P(x -> y)  is compared with the previous
    level's rate of y.  Grids: uniform and probability-step (non-arithmetic middle); models: HEM, Merton."""
    name = "bounded:telescoping-battery"
    tier = "quick"

    def run(self, tier, seed):
        import copy
        from contracts import battery
        from rpylib.grid.spatial import CTMCUniformGrid, CTMCGridProbabilityStep
        from rpylib.process.coupling.couplingmarkovchain import CouplingMarkovChain
        from rpylib.distribution.sampling import SamplingMethod
        from rpylib.distribution.samplingfactory import create_q_vector
        from rpylib.product.product import Product
        from rpylib.product.underlying import Spot
        from rpylib.product.payoff import Forward

        class U:
            u = 0.5

            def sample(self, *a, **k):
                return self.u

            def reset_sampling_cost(self):
                pass

            def cost(self):
                return 0
        ev, viol, samples = 0, {}, []
        product = Product(payoff_underlying=Spot(), payoff=Forward(strike=100.0), maturity=1.0)
        levels = 3 if tier == "thorough" else 2
        for mname, m in battery.models(("hem", "merton")).items():
            for gname, mk in (("uniform", lambda: CTMCUniformGrid(h=0.1, model=m)),
                              ("probability-step", lambda: CTMCGridProbabilityStep(h=0.1, model=m, minimum_probability_step=0.1))):
                np.random.seed(7)
                grid = mk()
                cp = CouplingMarkovChain(model=m, method=SamplingMethod.INVERSION, grid=grid)
                cp.initialisation(product=product)
                uni = U()
                q_prev = create_q_vector(cp.fine_process.model.levy_triplet.nu, cp.grid)
                for level in range(1, levels + 1):
                    cp.next_level(mc_paths=1, path_managers=None, product=product)
                    cp.uniform = uni
                    sim = cp._path_coupling_simulation
                    g = cp.grid
                    ax, o = g.axes[0], g.origin_coordinate.value
                    q_f = create_q_vector(cp.fine_process.model.levy_triplet.nu, g)
                    induced = np.zeros(len(q_prev))
                    for i in range(len(ax)):
                        if i == o or q_f[i] <= 0:
                            continue
                        inc = i - o
                        if i % 2 == 0:
                            uni.u = 0.5
                            v = sim.coupling_state(inc)
                            if abs(v - ax[i]) > 1e-14:
                                viol.setdefault("copy", {"obligation": f"{self.name}::coarse-states-copied-unchanged", "bounded": self.name,
                                                         "witness": {"model": mname, "grid": gname, "level": level, "fine_index": i, "value": float(v)}})
                            induced[i // 2] += q_f[i]
                            continue
                        lo_, hi_ = 0.0, 1.0
                        for _ in range(36):
                            uni.u = 0.5 * (lo_ + hi_)
                            v = sim.coupling_state(inc)
                            if abs(v - ax[i + 1]) < 1e-14:
                                lo_ = uni.u
                            else:
                                hi_ = uni.u
                        p_right = 0.5 * (lo_ + hi_)
                        induced[(i + 1) // 2] += q_f[i] * p_right
                        induced[(i - 1) // 2] += q_f[i] * (1 - p_right)
                    oc = o // 2
                    ev += 1
                    err = max(abs(induced[j] - q_prev[j]) / max(q_prev[j], 1e-12) for j in range(len(q_prev)) if j != oc)
                    info = {"model": mname, "grid": gname, "level": level, "max_relative_rate_error": float(err), "coarse_states": len(q_prev)}
                    if len(samples) < 4:
                        samples.append(info)
                    if err > 1e-6:
                        viol.setdefault("rates", {"obligation": f"{self.name}::induced-coarse-rates-are-the-previous-level's-rates", "bounded": self.name, "witness": info})
                    q_prev = q_f
        return {"name": self.name, "evaluations": ev, "distinct_nontrivial": ev, "violations": list(viol.values()), "samples": samples,
                "bound": f"HEM, Merton x uniform/probability-step (h=0.1) x levels 1..{levels}"}

    def replay(self, rec):
        r = self.run("thorough", 0)
        hit = [v for v in r["violations"] if v["obligation"] == rec["obligation"]]
        return (bool(hit), hit[0]["witness"] if hit else {})


BOUNDED = [TelescopingBattery()]


def LATE_UNITS():
    # "fine jumps landing on coarse-grid states are copied unchanged": the states of level l-1 ARE states of level l (every
    # old state at twice its index, on ITS OWN axis) -- the contract of CTMCGrid.refine lives in c13
    from contracts import c13
    return [c13.Refine()]
