"""C10 — exponent, triplet, cumulants and simulation drifts describe one same process.

Analytic mode (pyvc/spval.py): the REAL constructors, levy_exponent, density __call__, cumulant classes,
log_characteristic_function and process_drift bodies are executed over symbolic expressions (parameters are symbols with
the regime's assumptions, the argument x a real symbol); the closed forms the code computes are then compared with the
Levy-Khintchine specification by the analytic back end (sympy: differentiation, integration of the code's own density,
simplification; trusted, A4):

   psi(0) = 0,   -i psi'(0) = a0 + int z (1 - c0(z)) nu(dz),   -psi''(x) = sigma^2 + int z^2 e^{ixz} nu(dz)  for all x

which pins psi(x) = i x a0 - sigma^2 x^2 / 2 + int (e^{ixz} - 1 - i x z c0(z)) nu(dz) (two functions with the same second
derivative on the line, the same value and the same first derivative at 0 are equal: A6), c0 the cut-off of the model's
declared representation.  Branch conditions on symbolic parameters are decided at a sample point of the regime and each
decision is validated for the whole regime by z3 (obligation `regime-decides-branch`).
"""
import itertools

import numpy as np
import sympy as sp
import z3

from pyvc.contract import FunctionContract, Lemma, VC, Req
from pyvc.sym import Unsupported, Sym
from pyvc.spval import SpVal, SpBool, to_sp

PROPERTY_ID = "C10"
LEVEL = "proof"
LMX = "rpylib.model.levymodel."
I = sp.I


def S(name, **kw):
    return sp.Symbol(name, **kw)


# ---- regimes: parameter expressions (in positive / real symbols), facts for z3, a sample point
def regimes():
    sg, lam, e1, e2, w = S("sigma", positive=True), S("lam", positive=True), S("e1", positive=True), S("eta2", positive=True), S("w", positive=True)
    muj, sj = S("mu_j", positive=True), S("sigma_j", positive=True)     # the parameter class constrains mu_j >= 0
    nu, q = S("nu", positive=True), S("q", positive=True)
    # theta ranges over every real below 1/nu - sigma^2/2, i.e. 1 - theta nu - sigma^2 nu / 2 = q > 0: the VG exponential
    # moment (hence the exponential model) exists exactly there
    th = (1 - q) / nu - sg ** 2 / 2
    c, g, m1, y = S("c", positive=True), S("g", positive=True), S("m1", positive=True), S("y", real=True)
    yp = S("y", positive=True)
    R = {}
    R["BlackScholes"] = dict(levy=(LMX + "mixed.blackscholes:PureDiffusiveModel", dict(mu=SpVal(0), sigma=SpVal(sg))),
                             exp=(LMX + "mixed.blackscholes:BlackScholesModel", LMX + "mixed.blackscholes:BlackScholesParameters", dict(sigma=SpVal(sg))),
                             facts=[], sample={sg: 0.3}, own_drift=True)
    # p = 1/(1+w) in (0,1); eta1 = 1 + e1 > 1 (needed for a finite exponential moment)
    R["HEM"] = dict(levy=(LMX + "mixed.hem:HEMModel", LMX + "mixed.hem:HEMParameters", dict(sigma=SpVal(sg), p=SpVal(1 / (1 + w)), eta1=SpVal(1 + e1), eta2=SpVal(e2), intensity=SpVal(lam))),
                    exp=LMX + "mixed.hem:ExponentialOfHEMModel", facts=[], sample={sg: 0.3, w: 0.7, e1: 11.0, e2: 17.0, lam: 2.0}, own_drift=True)
    R["Merton"] = dict(levy=(LMX + "mixed.merton:MertonModel", LMX + "mixed.merton:MertonParameters", dict(sigma=SpVal(sg), mu_j=SpVal(muj), sigma_j=SpVal(sj), intensity=SpVal(lam))),
                       exp=LMX + "mixed.merton:ExponentialOfMertonModel", facts=[], sample={sg: 0.3, muj: 0.1, sj: 0.2, lam: 2.0}, own_drift=True)
    thr = S("theta", real=True)
    R["VG"] = dict(levy=(LMX + "purejump.variancegamma:VarianceGammaModel", LMX + "purejump.variancegamma:VGParameters", dict(sigma=SpVal(sg), nu=SpVal(nu), theta=SpVal(thr))),
                   exp_params=dict(sigma=SpVal(sg), nu=SpVal(nu), theta=SpVal(th)),
                   exp=LMX + "purejump.variancegamma:ExponentialOfVarianceGammaModel", facts=[], sample={sg: 0.3, nu: 0.2, q: 1.011, thr: -0.1}, own_drift=False)
    for tag, yv, facts, ys in (("y<0", -yp, [], 0.6), ("y=0", sp.Integer(0), [], None), ("0<y<1", yp, [yp < 1], 0.4), ("y=1", sp.Integer(1), [], None),
                               ("1<y<2", yp, [yp > 1, yp < 2], 1.5)):
        sample = {c: 0.8, g: 6.0, m1: 7.0}
        if ys is not None:
            sample[yp] = ys
        R[f"CGMY[{tag}]"] = dict(levy=(LMX + "purejump.cgmy:CGMYModel", LMX + "purejump.cgmy:CGMYParameters", dict(c=SpVal(c), g=SpVal(g), m=SpVal(1 + m1), y=SpVal(yv))),
                                 exp=LMX + "purejump.cgmy:ExponentialOfCGMYModel", facts=facts, sample=sample, own_drift=False)
    return R


REGIMES = regimes()


# ---- sympy relational -> z3 (polynomial fragment) for the validation of branch decisions
def sp_to_z3(e, env):
    if e.is_Symbol:
        if e not in env:
            env[e] = z3.Real(str(e))
        return env[e]
    if e.is_Integer:
        return z3.RealVal(int(e))
    if e.is_Rational:
        return z3.Q(int(e.p), int(e.q))
    if e.is_Float:
        r = sp.nsimplify(e, rational=True)
        return z3.Q(int(r.p), int(r.q))
    if e.is_Add:
        return z3.Sum(*[sp_to_z3(a, env) for a in e.args])
    if e.is_Mul:
        r = sp_to_z3(e.args[0], env)
        for a in e.args[1:]:
            r = r * sp_to_z3(a, env)
        return r
    if e.is_Pow and e.exp.is_Integer:
        b = sp_to_z3(e.base, env)
        n = int(e.exp)
        r = z3.RealVal(1)
        for _ in range(abs(n)):
            r = r * b
        return r if n >= 0 else 1 / r
    if isinstance(e, sp.core.relational.Relational):
        l, r = sp_to_z3(e.lhs, env), sp_to_z3(e.rhs, env)
        return {"<": l < r, "<=": l <= r, ">": l > r, ">=": l >= r, "==": l == r, "!=": l != r}[e.rel_op]
    if isinstance(e, sp.And):
        return z3.And(*[sp_to_z3(a, env) for a in e.args])
    if isinstance(e, sp.Or):
        return z3.Or(*[sp_to_z3(a, env) for a in e.args])
    if isinstance(e, sp.Not):
        return z3.Not(sp_to_z3(e.args[0], env))
    raise Unsupported(f"branch condition outside the polynomial fragment: {e}")


def install_oracle(vc, regime, tag):
    """decide undecided comparisons at the regime's sample point and prove regime => decision with z3"""
    facts, sample = [f for f in regime["facts"] if f is not sp.true and f is not True], regime["sample"]

    def decide(rel):
        val = rel.subs(sample)
        try:
            truth = bool(val)
        except TypeError:
            raise Unsupported(f"analytic mode: {rel} is not decided at the sample point")
        env = {}
        goal = sp_to_z3(rel, env)
        s = z3.Solver()
        for sym in set().union(rel.free_symbols, *[f.free_symbols for f in facts]):
            t = sp_to_z3(sym, env)
            if sym.is_positive:
                s.add(t > 0)
        for f in facts:
            s.add(sp_to_z3(f, env))
        s.add(z3.Not(goal) if truth else goal)
        ok = s.check() == z3.unsat
        if ok:
            vc.check(f"{tag}::regime-decides-branch[{rel}]", True)
            return truth
        # the code distinguishes two parts of the regime: both are explored (path fork on the z3 image of the relation,
        # under the regime's facts); the analytic obligations that follow are probed at a point of the sub-regime
        from pyvc import ctx
        P = ctx.PATH
        if not vc.ghost.get("sp_facts_in_pc"):
            env0 = {}
            for f in facts:
                P.assume(Sym(sp_to_z3(f, env0), "b"))
            for sym in set().union(*[f.free_symbols for f in facts]) if facts else ():
                if sym.is_positive:
                    P.assume(Sym(sp_to_z3(sym, env0) > 0, "b"))
            vc.ghost["sp_facts_in_pc"] = True
        for sym in rel.free_symbols:
            if sym.is_positive:
                P.assume(Sym(sp_to_z3(sym, env) > 0, "b"))
        truth = P.decide(goal)
        sub = vc.ghost.setdefault("sp_subregime", [])
        sub.append(rel if truth else sp.Not(rel))
        # a point of the sub-regime for the symbols the relations mention (the other symbols keep the regime's sampler)
        s2 = z3.Solver()
        s2.add(*P.pc)
        point = {}
        if s2.check() == z3.sat:
            mdl = s2.model()
            for sym in set().union(*[r_.free_symbols for r_ in sub]):
                v = mdl.eval(z3.Real(str(sym)), model_completion=True)
                try:
                    point[sym] = sp.Rational(v.numerator_as_long(), v.denominator_as_long())
                except Exception:
                    pass
        vc.ghost["sp_subregime_point"] = point
        return truth
    vc.ghost["sp_decide"] = decide


def build_levy(vc, regime):
    spec = regime["levy"]
    if len(spec) == 2:
        return vc.new(spec[0], **spec[1]), None
    par = vc.new(spec[1], **spec[2])
    return vc.new(spec[0], par), par


def zero_form(e):
    """try several normalisations; the first that reaches 0 wins (otherwise the plain simplification is returned)"""
    first = None
    for f in (sp.simplify, sp.gammasimp, lambda v: sp.expand(sp.expand_func(v)),
              lambda v: sp.simplify(sp.powsimp(sp.powdenest(sp.expand(sp.expand_func(v)), force=True), force=True)),
              lambda v: sp.simplify(sp.gammasimp(sp.powsimp(sp.expand_power_base(sp.expand_func(v), force=True), force=True)))):
        try:
            r = f(e)
        except Exception:
            continue
        if r == 0:
            return r
        first = r if first is None else first
    return first if first is not None else e


def half_line_integral(expr, z, lo=0):
    """int_lo^oo expr dz.  Terms of the form K z^a e^{-b z} (the only ones the tempered-stable / exponential densities
    produce) are integrated by the Gamma rule  int_0^oo z^a e^{-bz} dz = Gamma(a+1) b^{-a-1}  (Re b > 0, a > -1; for a lower
    limit lo > 0 the upper incomplete gamma); anything else goes to sympy's integrator."""
    indep, dep = sp.sympify(expr).as_independent(z, as_Add=False)       # z-free factor stays in one piece
    dep = sp.expand(dep)
    total = 0
    for term in sp.Add.make_args(dep):
        term = sp.powsimp(term, combine="exp")
        coeff, a, b = indep, 0, 0
        ok = True
        for f in sp.Mul.make_args(term):
            if not f.has(z):
                coeff *= f
            elif f == z:
                a += 1
            elif f.is_Pow and f.base == z and not f.exp.has(z):
                a += f.exp
            elif isinstance(f, sp.exp):
                lin = sp.expand(f.args[0])
                bb = -sp.diff(lin, z)
                if sp.simplify(lin + bb * z) != 0 or bb.has(z):
                    ok = False
                    break
                b += bb
            else:
                ok = False
                break
        if not ok or b == 0:
            return sp.integrate(expr, (z, lo, sp.oo), conds="none")
        b = sp.simplify(b)
        total += coeff * (sp.gamma(a + 1) / b ** (a + 1) if lo == 0 else sp.uppergamma(a + 1, b * lo) / b ** (a + 1))
    return total


def cutoff_integrals(rep_name, nu_pos, nu_neg, zs):
    """int z (1 - c0(z)) nu(dz): c0 = 0 (ZERO) -> the whole line; c0 = 1 (CENTER) -> 0; c0 = 1{|z|<1} (ONEONE) -> the tails"""
    z = zs
    if rep_name == "CENTER":
        return sp.Integer(0)
    lo = 0 if rep_name == "ZERO" else 1
    if rep_name not in ("ZERO", "ONEONE"):
        raise Unsupported(f"declared representation {rep_name}")
    pos = half_line_integral(z * nu_pos, z, lo)
    neg = half_line_integral(-z * nu_neg, z, lo)      # x = -z on the negative half line
    return pos + neg


def numeric_point(regime, extra=None):
    def f(rng):
        pt = {k: float(v) * rng.uniform(0.8, 1.25) for k, v in regime["sample"].items()}
        for k in list(pt):
            if str(k) == "y" and any(str(fc) for fc in regime["facts"]):
                pt[k] = float(regime["sample"][k]) * rng.uniform(0.95, 1.05)
        pt.update({k: fn(rng) for k, fn in (extra or {}).items()})
        return pt
    return f


class LevyKhintchine(Lemma):
    """exponent = Levy-Khintchine integral of (declared drift, sigma, density, declared representation)"""
    prop = "C10"
    cases = tuple(REGIMES)

    def __init__(self):
        self.name = "property:exponent-is-the-levy-khintchine-integral"

    def prove(self, vc, case):
        regime = REGIMES[case]
        nm = f"{self.name}[{case}]"
        install_oracle(vc, regime, nm)
        model, par = build_levy(vc, regime)
        it = vc.interp
        x = S("x", real=True)
        z = S("z", positive=True)
        psi = to_sp(vc.method(model, "levy_exponent", SpVal(x)))
        trip = model.fields["levy_triplet"]
        a0, sigma = to_sp(model.fields["_original_drift"]), to_sp(trip.fields["sigma"])
        rep = trip.fields["representation"]
        rep_name = getattr(rep, "name", str(rep))
        nu = trip.fields["nu"]
        nu_pos = to_sp(it.call(nu, [SpVal(z)], {}))          # density at +z
        nu_neg = to_sp(it.call(nu, [SpVal(-z)], {}))         # density at -z
        samp = numeric_point(regime, {x: lambda rng: rng.uniform(-3, 3)})
        samp0 = numeric_point(regime)
        vc.check_zero(nm + "::psi(0)=0", lambda: sp.simplify(psi.subs(x, 0)), samp0)
        corr = cutoff_integrals(rep_name, nu_pos, nu_neg, z)
        vc.check_zero(nm + "::first-derivative-at-0-is-the-mean-of-the-declared-representation",
                      lambda: zero_form(-I * sp.diff(psi, x).subs(x, 0) - (a0 + corr)), samp0)
        # direct simulation of the Levy model itself: x0 + process_drift t + sigma W + the (uncompensated / compensated as
        # declared) jumps must have the mean rate of the exponent, i.e. the stated simulation drift is the declared drift
        vc.check_zero(nm + "::simulation-drift-of-the-levy-model-is-the-declared-drift", lambda: zero_form(to_sp(vc.method(model, "process_drift")) - to_sp(trip.fields["a"])), samp0)
        # the exponent describes the model, not the representation its triplet currently sits in: after a change of
        # representation of the model's own triplet the exponent is the same function (finite-activity models)
        if case in ("BlackScholes", "HEM", "Merton"):
            R = vc.enum(LMX + "levymodel:LevyRepresentation", "CENTER" if rep_name != "CENTER" else "ZERO")
            vc.method(trip, "set_representation", R)
            psi_after = to_sp(vc.method(model, "levy_exponent", SpVal(x)))
            vc.check_zero(nm + "::exponent-unchanged-by-a-representation-change-of-the-model's-triplet", lambda: zero_form(psi_after - psi), samp)
        # second derivative along the imaginary axis x = i s (0 < s small): e^{ixz} = e^{-sz} is a real Laplace kernel the CAS
        # integrates in closed form; both sides are analytic in x on the strip where the exponential moments exist, so the
        # identity on that segment is the identity for every x (identity theorem, A6)
        sv = S("s", positive=True)
        second = half_line_integral(z ** 2 * sp.exp(-sv * z) * nu_pos, z) + half_line_integral(z ** 2 * sp.exp(sv * z) * nu_neg, z)
        vc.check(nm + "::second-moment-transform-has-a-closed-form", not second.has(sp.Integral))
        psi2 = sp.diff(psi, x, 2).subs(x, I * sv)
        samp_s = numeric_point(regime, {sv: lambda rng: rng.uniform(0.05, 0.9)})
        vc.check_zero(nm + "::second-derivative-is-minus-(sigma^2+int-z^2-e^{ixz}-nu(dz))",
                      lambda: zero_form(psi2 + sigma ** 2 + second), samp_s)

    def replay(self, model, clause, case):
        return native_lk_replay(case, clause)


def native_model(case, exponential=False, reinit=False):
    import importlib
    regime = REGIMES[case]
    pt = {str(k): float(v) for k, v in regime["sample"].items()}
    spec = regime["levy"]
    val = lambda v: complex(to_sp(v).subs({S(k, **a): x for k, x in pt.items() for a in ({"positive": True}, {"real": True})})).real
    def cls(fq):
        mod, cn = fq.split(":")
        return getattr(importlib.import_module(mod), cn)
    if len(spec) == 2:
        kw = {k: val(v) for k, v in spec[1].items()}
        if exponential:
            e = regime["exp"]
            return cls(e[0])(spot=90.0, r=0.03, d=0.01, parameters=cls(e[1])(sigma=kw["sigma"]))
        return cls(spec[0])(**kw)
    par = cls(spec[1])(**{k: val(v) for k, v in spec[2].items()})
    if reinit:
        par.initialisation()
    if exponential:
        return cls(regime["exp"])(spot=90.0, r=0.03, d=0.01, parameters=par)
    return cls(spec[0])(par)


def native_lk_replay(case, clause=""):
    """numeric Levy-Khintchine integral (quadrature of the real density) against the real exponent, clause by clause:
    value at 0, slope at 0 (central difference), second difference at a few arguments (insensitive to a drift error)"""
    import warnings
    from scipy.integrate import quad
    m = native_model(case)
    trip = m.levy_triplet
    nu = trip.nu
    rep = trip.representation.name
    a0, sg = m._original_drift, trip.sigma

    def lk(x):
        def integrand(zv, part):
            c0 = {"ZERO": 0.0, "CENTER": 1.0, "ONEONE": 1.0 if abs(zv) < 1 else 0.0}[rep]
            v = (np.exp(1j * x * zv) - 1 - 1j * x * zv * c0) * nu(zv)
            return v.real if part == 0 else v.imag
        tot = 0j
        with warnings.catch_warnings():
            warnings.simplefilter("ignore")
            for lo, hi in ((-np.inf, -1.0), (-1.0, -1e-3), (-1e-3, -1e-12), (1e-12, 1e-3), (1e-3, 1.0), (1.0, np.inf)):
                tot += quad(integrand, lo, hi, args=(0,), limit=800, epsabs=1e-12, epsrel=1e-10)[0] + 1j * quad(integrand, lo, hi, args=(1,), limit=800, epsabs=1e-12, epsrel=1e-10)[0]
        return 1j * x * a0 - 0.5 * (sg * x) ** 2 + tot
    ex = lambda x: complex(m.levy_exponent(x))
    info = {"model": repr(m), "declared_representation": rep, "declared_drift": float(a0)}
    if "representation-change" in clause:
        from rpylib.model.levymodel.levymodel import LevyRepresentation as LR
        xs = (0.7, -1.3, 2.1)
        before = [ex(x) for x in xs]
        trip.set_representation(LR.CENTER if rep != "CENTER" else LR.ZERO)
        after = [ex(x) for x in xs]
        return (not np.allclose(before, after, rtol=1e-12, atol=1e-14), {**info, "x": list(xs), "exponent_before": [[v.real, v.imag] for v in before], "exponent_after_set_representation": [[v.real, v.imag] for v in after]})
    if "simulation-drift" in clause:
        pdv = float(m.process_drift())
        return (abs(pdv - float(trip.a)) > 1e-12, {**info, "process_drift": pdv})
    if "psi(0)" in clause:
        v = ex(0.0)
        return (abs(v) > 1e-12, {**info, "levy_exponent(0)": [v.real, v.imag]})
    if "first-derivative" in clause:
        h = 1e-3
        got, want = (ex(h) - ex(-h)) / (2 * h), (lk(h) - lk(-h)) / (2 * h)
        return (abs(got - want) > 1e-5 * max(1.0, abs(want)), {**info, "slope_of_exponent_at_0": [got.real, got.imag], "slope_of_levy_khintchine_integral_at_0": [want.real, want.imag]})
    worst, winfo = 0.0, {}
    h = 0.05
    for x in (0.7, -1.3, 2.1):
        got = (ex(x + h) - 2 * ex(x) + ex(x - h)) / h ** 2
        want = (lk(x + h) - 2 * lk(x) + lk(x - h)) / h ** 2
        err = abs(got - want) / max(1.0, abs(want))
        if err > worst:
            worst, winfo = err, {"x": x, "second_difference_of_exponent": [got.real, got.imag], "second_difference_of_levy_khintchine_integral": [want.real, want.imag]}
    return (worst > 1e-4, {**info, **winfo})


class Cumulants(Lemma):
    """the stated cumulant functions are t times the derivatives of the exponent at zero: kappa_n(t) = t (-i)^n psi^(n)(0)"""
    prop = "C10"
    cases = tuple(REGIMES)

    def __init__(self):
        self.name = "property:cumulants-are-derivatives-of-the-exponent"

    def prove(self, vc, case):
        from pyvc.sym import PyRaise
        regime = REGIMES[case]
        nm = f"{self.name}[{case}]"
        install_oracle(vc, regime, nm)
        model, par = build_levy(vc, regime)
        x, t = S("x", real=True), S("t", positive=True)
        psi = to_sp(vc.method(model, "levy_exponent", SpVal(x)))
        cum = model.fields["cumulant"]
        samp = numeric_point(regime, {t: lambda rng: rng.uniform(0.2, 2.0)})
        stated = 0
        for n in range(1, 7):
            try:
                k = vc.method(cum, f"cumulant{n}", SpVal(t))
            except PyRaise as e:
                if e.exc_type == "NotImplementedError":
                    continue
                raise
            stated += 1
            kn = to_sp(k)
            want = t * (-I) ** n * sp.diff(psi, x, n)
            vc.check_zero(nm + f"::cumulant{n}", (lambda kn=kn, want=want: sp.simplify(kn - sp.limit(want, x, 0))), samp)
        vc.check(nm + "::at-least-the-first-two-cumulants-are-stated", stated >= 2)

    def replay(self, model, clause, case):
        m = native_model(case)
        import re
        mm = re.search(r"cumulant(\d)$", clause)
        n = int(mm.group(1)) if mm else 2
        h = 5e-2
        # finite-difference derivative of the real exponent at 0 (central differences of order n)
        from math import comb
        d = sum((-1) ** k * comb(n, k) * complex(m.levy_exponent((n / 2 - k) * h)) for k in range(n + 1)) / h ** n
        want = ((-1j) ** n * d).real
        got = float(getattr(m.cumulant, f"cumulant{n}")(1.0))
        return (abs(got - want) > 3e-2 * abs(want) + 1e-9, {"model": repr(m), "n": n, "stated_cumulant": got, "finite_difference_of_exponent": want})


class Martingale(Lemma):
    """exponential models: (1) the characteristic function of log S_t at -i is the forward S0 exp((r-d)t); (2) where the
    model states its own drift for direct simulation (Black-Scholes, HEM, Merton): drift + sigma^2/2 + int (e^z - 1) nu(dz)
    = r - d, the jump integral taken over the code's own density (exact jump law)."""
    prop = "C10"
    cases = tuple((r_, route) for r_ in REGIMES for route in ("constructed", "re-initialised"))

    def __init__(self):
        self.name = "property:discounted-spot-is-a-martingale"

    def prove(self, vc, case_route):
        case, route = case_route
        regime = REGIMES[case]
        nm = f"{self.name}[{case},{route} parameters]"
        install_oracle(vc, regime, nm)
        spot, r, d, t = S("spot", positive=True), S("r", positive=True), S("d", positive=True), S("t", positive=True)
        e = regime["exp"]
        if isinstance(e, tuple):
            par = vc.new(e[1], **e[2])
            if route == "re-initialised":
                vc.method(par, "initialisation")        # the calibration / parameter-update route
            model = vc.new(e[0], SpVal(spot), SpVal(r), SpVal(d), par)
        else:
            spec = regime["levy"]
            par = vc.new(spec[1], **regime.get("exp_params", spec[2]))
            if route == "re-initialised":
                vc.method(par, "initialisation")        # the calibration / parameter-update route
            model = vc.new(e, SpVal(spot), SpVal(r), SpVal(d), par)
        samp = numeric_point(regime, {spot: lambda g: g.uniform(50, 150), r: lambda g: g.uniform(0.0, 0.08), d: lambda g: g.uniform(0.0, 0.05), t: lambda g: g.uniform(0.1, 3.0)})
        cf = to_sp(vc.method(model, "log_characteristic_function", SpVal(t), -1j))
        vc.check_zero(nm + "::characteristic-function-at-minus-i-is-the-forward", lambda: sp.simplify(sp.log(sp.simplify(cf / (spot * sp.exp((r - d) * t))))), samp)
        if route == "constructed":
            # the rate is an attribute of the model: after it is reassigned every route must follow the new rate
            r2 = S("r_new", positive=True)
            vc.interp.setattr(model, "r", SpVal(r2))
            omega = to_sp(model.fields["omega"])
            samp_r = lambda g: {**samp(g), r2: g.uniform(0.0, 0.08)}
            cf2 = to_sp(vc.method(model, "log_characteristic_function", SpVal(t), -1j))
            vc.check_zero(nm + "::after-a-rate-update:characteristic-function-at-minus-i-is-the-new-forward", lambda: sp.simplify(sp.log(sp.simplify(cf2 / (spot * sp.exp((r2 - d) * t))))), samp_r)
            vc.check_zero(nm + "::after-a-rate-update:drift-coefficient-follows-the-new-rate", lambda: sp.simplify(to_sp(vc.method(model, "drift")) - (r2 - d + omega)), samp_r)
            if regime["own_drift"]:
                drift_before = to_sp(vc.method(model, "process_drift"))
                vc.interp.setattr(model, "r", SpVal(r))
                drift_orig = to_sp(vc.method(model, "process_drift"))
                vc.check_zero(nm + "::after-a-rate-update:direct-simulation-drift-follows-the-new-rate", lambda: sp.simplify((drift_before - drift_orig) - (r2 - r)), samp_r)
                # ... also through a simulation process built (and already asked for its drift) BEFORE the update
                vc.interp.hooks["rpylib.distribution.univariate.uniform:Uniform.__init__"] = lambda it_, f, b: None
                proc = vc.new("rpylib.process.levyprocess:LevyProcess", model)
                p_before = to_sp(vc.method(proc, "process_drift"))
                x_before = to_sp(vc.method(proc, "deterministic_path", SpVal(t)))        # what a path actually adds
                vc.interp.setattr(model, "r", SpVal(r2))
                p_after = to_sp(vc.method(proc, "process_drift"))
                x_after = to_sp(vc.method(proc, "deterministic_path", SpVal(t)))
                vc.interp.setattr(model, "r", SpVal(r))
                vc.check_zero(nm + "::after-a-rate-update:drift-of-an-existing-simulation-process-follows-the-new-rate", lambda: sp.simplify((p_after - p_before) - (r2 - r)), samp_r)
                vc.check_zero(nm + "::after-a-rate-update:deterministic-path-of-an-existing-simulation-process-follows-the-new-rate", lambda: sp.simplify((x_after - x_before) - (r2 - r) * t), samp_r)
            vc.interp.setattr(model, "r", SpVal(r))
            # ... and the spot is an attribute too: every route starts from the model's CURRENT spot
            s2 = S("spot_new", positive=True)
            vc.interp.setattr(model, "spot", SpVal(s2))
            samp_s = lambda g: {**samp(g), s2: g.uniform(50, 150)}
            cf3 = to_sp(vc.method(model, "log_characteristic_function", SpVal(t), -1j))
            vc.check_zero(nm + "::after-a-spot-update:characteristic-function-at-minus-i-is-the-forward-of-the-new-spot", lambda: sp.simplify(sp.log(sp.simplify(cf3 / (s2 * sp.exp((r - d) * t))))), samp_s)
            x0v = to_sp(vc.method(model, "x0_value"))
            vc.check_zero(nm + "::after-a-spot-update:simulation-starts-at-the-logarithm-of-the-new-spot", lambda: sp.simplify(sp.exp(x0v) / s2 - 1), samp_s)
            vc.interp.setattr(model, "spot", SpVal(spot))
        mean1 = to_sp(vc.method(model, "mean", SpVal(t)))
        vc.check_zero(nm + "::mean-of-S_t/S_0-is-exp((r-d)t)", lambda: sp.simplify(sp.log(sp.simplify(mean1 / sp.exp((r - d) * t)))), samp)
        if regime["own_drift"]:
            z = S("z", positive=True)
            it = vc.interp
            trip = model.fields["levy_triplet"]
            nu = trip.fields["nu"]
            sigma = to_sp(trip.fields["sigma"])
            nu_pos, nu_neg = to_sp(it.call(nu, [SpVal(z)], {})), to_sp(it.call(nu, [SpVal(-z)], {}))
            jump = half_line_integral((sp.exp(z) - 1) * nu_pos, z) + half_line_integral((sp.exp(-z) - 1) * nu_neg, z)
            drift = to_sp(vc.method(model, "process_drift"))
            vc.check_zero(nm + "::direct-simulation-drift-compensates-diffusion-and-jumps", lambda: sp.simplify(drift + sigma ** 2 / 2 + jump - (r - d)), samp)

    def replay(self, model, clause, case_route):
        case, route = case_route
        m = native_model(case, exponential=True, reinit=(route == "re-initialised"))
        T = 0.8
        fwd = np.exp((m.r - m.d) * T)
        got_cf = complex(m.log_characteristic_function(t=T, x=-1j, log_spot=0))
        info = {"model": repr(m), "T": T, "forward/S0": float(fwd), "characteristic_function_at_-i": [got_cf.real, got_cf.imag]}
        bad = abs(got_cf - fwd) > 1e-9
        if "after-a-spot-update" in clause:
            s_new = 1.2 * float(m.spot)
            m.spot = s_new
            cfv = complex(m.log_characteristic_function(t=T, x=-1j))
            return (abs(cfv - s_new * fwd) > 1e-9 * s_new or abs(np.exp(m.x0_value()) - s_new) > 1e-9 * s_new,
                    {"model": repr(m), "spot_after_update": s_new, "E[S_T]_from_the_characteristic_function": cfv.real, "forward_of_the_new_spot": float(s_new * fwd), "exp(x0_value)": float(np.exp(m.x0_value()))})
        if "deterministic-path-of-an-existing-simulation-process" in clause:
            from rpylib.process.levyprocess import LevyProcess
            pr = LevyProcess(m)
            x0_ = float(np.ravel(pr.deterministic_path(np.array([T])))[-1])
            m.r = m.r + 0.02
            x1_ = float(np.ravel(pr.deterministic_path(np.array([T])))[-1])
            return (abs((x1_ - x0_) - 0.02 * T) > 1e-12, {"model": repr(m), "T": T, "deterministic_path_at_T_before": x0_, "after_r_plus_0.02": x1_})
        if "existing-simulation-process" in clause:
            from rpylib.process.levyprocess import LevyProcess
            pr = LevyProcess(m)
            d0 = float(pr.process_drift())
            m.r = m.r + 0.02
            d1 = float(pr.process_drift())
            return (abs((d1 - d0) - 0.02) > 1e-12, {"model": repr(m), "process_drift_of_the_process_before": d0, "after_r_plus_0.02": d1})
        if "after-a-rate-update:direct-simulation" in clause:
            d0 = float(m.process_drift())
            m.r = m.r + 0.02
            d1 = float(m.process_drift())
            return (abs((d1 - d0) - 0.02) > 1e-12, {"model": repr(m), "process_drift_before": d0, "process_drift_after_r_plus_0.02": d1})
        if REGIMES[case]["own_drift"]:
            from scipy.integrate import quad
            nu = m.levy_triplet.nu
            jump = quad(lambda zv: (np.exp(zv) - 1) * nu(zv), 1e-12, np.inf, limit=400)[0] + quad(lambda zv: (np.exp(zv) - 1) * nu(zv), -np.inf, -1e-12, limit=400)[0]
            growth = float(m.process_drift() + 0.5 * m.levy_triplet.sigma ** 2 + jump)
            info.update({"direct-simulation growth rate: drift + sigma^2/2 + int(e^z-1)nu": growth, "r-d": float(m.r - m.d)})
            if "direct-simulation" in clause:
                bad = abs(growth - (m.r - m.d)) > 1e-7
        return (bool(bad), info)


UNITS = [LevyKhintchine(), Cumulants(), Martingale()]


def LATE_UNITS():
    # representation changes (path-independent, reversible) and the drift of the Markov-chain approximation are the
    # contracts of C04 over the abstract measure layer
    from contracts import c04
    # ... and the chain constructor's clause "truncate, then compensate: the mean of the truncated process is preserved", also
    # when a drift accessor of the caller's triplet was evaluated before (whatever it computed for the untruncated measure)
    return [c04.Representations(), c04.Initialisation(), c04.MeanIdentity(), c04.ChainConstructor()]


ASSUMPTIONS = ["A1: floats are mathematical reals", "A4: sympy's differentiation, definite integration (conds='none': the parameter regime guarantees convergence), limits and simplification",
               "A6: a twice differentiable function on the line is determined by its second derivative and its value and first derivative at 0"]
TRUSTED_BASE = ["sympy 1.14", "z3 5.1 (validation of branch decisions; abstract measure layer of the C04 units)", "pyvc interpreter, analytic mode (pyvc/spval.py)"]
BOUNDED = []
