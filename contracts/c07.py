"""C07 — standard Monte-Carlo price, error and control-variate adjustment are textbook.

Engine loop: verified for a symbolic number of paths with an inductive invariant over a ghost event log (which path id
was simulated, processed, discounted and stored at which row).  Estimator algebra: proved for every sample of size
n <= N_SAMPLES with symbolic values (complete in the values, bounded in n).
"""
import numpy as np
import z3

from pyvc.contract import FunctionContract, Lemma, VC, Req, ForAllInts
from pyvc.interp import LoopSpec
from pyvc.sym import And, Or, Not, Implies, If, Eq, compare, smax, smin, is_sym, Sym, lift, as_real_term, as_int_term, INF, PyRaise
from pyvc.values import SymSeq

PROPERTY_ID = "C07"
LEVEL = "proof"
EN = "rpylib.montecarlo.standard.engine:"
ST = "rpylib.montecarlo.statistic.statistic:"
TL = "rpylib.montecarlo.statistic.tools:"
PA = "rpylib.montecarlo.path:"
N_SAMPLES = 4

PAYF = z3.Function("PAYOFF_OF_PATH", z3.IntSort(), z3.RealSort())     # notional * payoff(path with this id)
CVF = z3.Function("CONTROL_OF_PATH", z3.IntSort(), z3.RealSort())


def PAY(i):
    return Sym(PAYF(as_int_term(lift(i))), "r")


def CVV(i):
    return Sym(CVF(as_int_term(lift(i))), "r")


class EnginePrice(FunctionContract):
    """Engine.price, single-process branch, mc_paths symbolic: every row i < mc_paths of the payoff statistics is
    df * (notional * payoff)(i-th simulated path); exactly mc_paths paths are simulated, each processed, discounted and
    stored once, in that order; the control-variate coefficients are computed once, after the loop, on those statistics."""
    prop = "C07"
    target = EN + "Engine.price"
    name = "standard.Engine.price"

    def __init__(self):
        def inv(L, g):
            k = L._i
            rows, cvrows, J = g["stats"].fields["_payoff_statistics"].fields["stats"], g["stats"].fields["_control_variates_statistics"].fields["stats"], g["J"]
            return And(g["drawn"] == k, rows.length == g["N"], cvrows.length == g["N"],
                       Implies(And(J >= 0, J < k), And(rows.raw(J) == g["df"] * PAY(J), cvrows.raw(J) == g["df"] * CVV(J))),
                       g["seeded"] == 1)
        self.loops = {0: LoopSpec(inv, havoc={"__ghost__": lambda path, g: g.__setitem__("drawn", path.fresh("drawn", "i"))})}

    def configure(self, interp):
        from pyvc import ctx
        G = lambda: ctx.PATH.ghost

        def init(it, f, b):
            g = G()
            g["init_calls"] = g.get("init_calls", 0) + 1
            b["self"].fields["path_manager"] = g["pm"]
            b["self"].fields["statistics"] = g["stats"]
        interp.hooks[EN + "Engine.initialisation"] = init

        def sim(it, f, b):
            g = G()
            pid = g["drawn"]
            g["drawn"] = pid + 1
            return ("path", pid)
        interp.hooks["rpylib.process.process:Process.simulate_one_path"] = sim

        def process(it, f, b):
            pm = b["self"]
            kind, pid = pm.fields["stochastic_path"]
            pm.fields["payoff"] = PAY(pid)
            pm.fields["payoff_control_variates"] = CVV(pid)
        interp.hooks[PA + "MCPath.process"] = process
        interp.hooks[PA + "MCPath.update"] = lambda it, f, b: None
        interp.hooks["rpylib.process.process:Process.df"] = lambda it, f, b: G()["df"]

        def seed(it, f, b):
            g = G()
            g["seeded"] = g.get("seeded", 0) + 1
            g["seed_before_draw"] = g.get("seed_before_draw", True) and (concrete(g["drawn"]) == 0)
        interp.hooks["rpylib.montecarlo.configuration:Configuration.initialisation_seed"] = seed

        def cvc(it, f, b):
            g = G()
            g["cv_calls"] = g.get("cv_calls", []) + [(b["statistics"], g["drawn"])]
        interp.hooks["rpylib.product.product:ControlVariates.compute_coefficients"] = cvc

    def setup(self, vc, case):
        g = vc.ghost
        N = vc.int("mc_paths")
        df = vc.real("df")
        J = vc.int("J")
        vc.assume(And(N >= 0, J >= 0, J < N))
        g.update(N=N, df=df, J=J, drawn=0, seeded=0)
        mk_stat = lambda nm: vc.obj(ST + "Statistic", stats=vc.seq(nm, "r"))
        pay, cvs = mk_stat("payoff_rows"), mk_stat("cv_rows")
        vc.assume(And(pay.fields["stats"].length == N, cvs.fields["stats"].length == N))
        stats = vc.obj(ST + "MCStatistics", _payoff_statistics=pay, _control_variates_statistics=cvs,
                       _spot_underlying_statistics=vc.obj(ST + "NoStatistic"), _payoff_statistics_with_cv=mk_stat("cv_adjusted"))
        pm = vc.obj(PA + "MCPath", payoff=None, payoff_control_variates=0.0, spot_underlying=0, stochastic_path=None)
        g.update(stats=stats, pm=pm)
        cfg = vc.obj("rpylib.montecarlo.configuration:ConfigurationStandard", mc_paths=N, nb_of_processes=1,
                     control_variates=vc.obj("rpylib.product.product:ControlVariates"))
        proc = vc.obj("rpylib.process.process:Process", process_representation=None)
        eng = vc.obj(EN + "Engine", configuration=cfg, process=proc, path_manager=None, statistics=None)
        product = vc.obj("rpylib.product.product:Product", maturity=vc.real("maturity"))
        return dict(self=eng, product=product)

    def ensures(self, result, self_=None, product=None):
        from pyvc import ctx
        g = ctx.PATH.ghost
        rows = g["stats"].fields["_payoff_statistics"].fields["stats"]
        cvrows = g["stats"].fields["_control_variates_statistics"].fields["stats"]
        J, N, df = g["J"], g["N"], g["df"]
        calls = g.get("cv_calls", [])
        return {"returns-the-statistics-it-filled": result is g["stats"],
                "row-i-is-the-discounted-notional-scaled-payoff-of-the-i-th-path": rows.raw(J) == df * PAY(J),
                "control-row-i-is-the-discounted-control-payoff-of-the-same-path": cvrows.raw(J) == df * CVV(J),
                "exactly-mc_paths-paths-simulated": g["drawn"] == N,
                "one-row-per-path-no-resize": rows.length == N,
                "seeded-once-before-the-first-draw": And(g["seeded"] == 1, g.get("seed_before_draw", False) is True),
                "control-variate-coefficients-computed-once-after-the-loop-on-these-statistics":
                    (len(calls) == 1) and (calls[0][0] is g["stats"]) and (calls[0][1] == N),
                "initialised-once": g.get("init_calls", 0) == 1}


def concrete(v):
    from pyvc.sym import concrete_value
    return concrete_value(v) if is_sym(v) else v


def arr(vc, name, n, dim):
    xs = vc.reals(name, n * dim)
    a = np.empty((n, dim), dtype=object)
    for i in range(n):
        for j in range(dim):
            a[i, j] = xs[i * dim + j]
    return a


class PriceAndError(Lemma):
    """MCStatistics.price() / mc_stddev() on n samples of a dim-dimensional payoff: the arithmetic mean per component and
    the unbiased sample standard deviation per component divided by sqrt(n) (n = number of paths, not n * dim)."""
    prop = "C07"
    cases = tuple((n, d) for n in range(1, N_SAMPLES + 1) for d in (1, 2))

    def __init__(self):
        self.name = "property:price-and-error"

    def prove(self, vc, case):
        n, d = case
        nm = f"{self.name}[n={n},dim={d}]"
        A = arr(vc, "payoff", n, d)
        stat = vc.obj(ST + "Statistic", stats=A)
        mcs = vc.obj(ST + "MCStatistics", _payoff_statistics=stat, _control_variates_statistics=vc.obj(ST + "NoStatistic"),
                     _payoff_statistics_with_cv=vc.obj(ST + "Statistic", stats=arr(vc, "unused", n, d)))
        price = vc.method(mcs, "price")
        err = vc.method(mcs, "mc_stddev")
        price = [price] if d == 1 else list(price)
        err = [err] if (d == 1 or n == 1) and not isinstance(err, (list, np.ndarray)) else list(np.ravel(np.asarray(err, dtype=object)))
        for j in range(d):
            col = [A[i, j] for i in range(n)]
            mean = sum(col, 0) / n
            vc.check(nm + f"::component{j}:price-is-the-arithmetic-mean", price[j] == mean)
            if n >= 2:
                ss = sum(((x - mean) * (x - mean) for x in col), 0)
                e = err[j]
                vc.check(nm + f"::component{j}:error-is-unbiased-stddev-over-sqrt-n", And(e >= 0, e * e * n * (n - 1) == ss))
            else:
                vc.check(nm + f"::component{j}:single-sample-error-is-zero", err[min(j, len(err) - 1)] == 0)

    def replay(self, model, clause, case):
        from rpylib.montecarlo.statistic.statistic import MCStatistics, Statistic, NoStatistic
        n, d = case
        vals = [float(v["float"]) if isinstance(v, dict) else float(v) for v in (model.get("payoff") or [])]
        if len(vals) != n * d:
            vals = [float((7 * i) % 5) + 0.5 * i for i in range(n * d)]
        A = np.array(vals).reshape(n, d)
        st = Statistic("payoff", shape=(d,), mc_paths=n, process_representation=None)
        st.stats = A
        mcs = MCStatistics(payoff_statistics=st)
        price, err = np.atleast_1d(mcs.price()), np.atleast_1d(mcs.mc_stddev())
        want_p = A.mean(axis=0)
        want_e = A.std(axis=0, ddof=1) / np.sqrt(n) if n >= 2 else np.zeros(d)
        bad = not np.allclose(price, want_p) or (len(err) != d and n >= 2) or not np.allclose(np.resize(err, d), want_e)
        return (bool(bad), {"samples": A.tolist(), "price": price.tolist(), "reported_error": err.tolist(), "textbook_error": want_e.tolist()})


class ControlVariate(Lemma):
    """ControlVariates.helper_compute_coefficients, one control, n samples: the adjusted sample Y - b*(X - price_X) with
    b* = cov(X,Y)/var(X); its mean is mean(Y) - b*(mean(X) - price_X) (the raw mean when the control's sample mean hits its
    price) and its sample variance is var(Y) - cov^2/var(X) <= var(Y); degenerate control (var < 1e-12): unchanged."""
    prop = "C07"
    cases = (2, 3)

    def __init__(self):
        self.name = "property:control-variate"

    def prove(self, vc, n):
        nm = f"{self.name}[n={n}]"
        x = np.array(vc.reals("x", n), dtype=object)
        y = np.array(vc.reals("y", n), dtype=object)
        px = vc.real("price_x")
        f = vc.interp.get_function("rpylib.product.product:ControlVariates.helper_compute_coefficients")
        res = vc.interp.call(f, [], dict(x=x.reshape(n, 1), y=y, prices=px))
        res = list(np.ravel(np.asarray(res, dtype=object)))
        mx, my = sum(x, 0) / n, sum(y, 0) / n
        vx = sum(((a - mx) * (a - mx) for a in x), 0) / n
        cxy = sum(((a - mx) * (b - my) for a, b in zip(x, y)), 0) / n
        vy = sum(((b - my) * (b - my) for b in y), 0) / n
        mr = sum(res, 0) / n
        vr = sum(((r - mr) * (r - mr) for r in res), 0) / n
        degenerate = vx < z3.RealVal("1e-12") if False else (vx < Sym(z3.Q(1, 10 ** 12), "r"))
        vc.check(nm + "::length", len(res) == n)
        b = vc.fresh("b_star", "r")
        vc.assume(Implies(Not(degenerate), b * vx == cxy))
        vc.assume(Implies(degenerate, b == 0))
        vc.check(nm + "::adjusted-sample-is-Y-minus-bstar-times-(X-price)", And(*[r == yy - b * (xx - px) for r, xx, yy in zip(res, x, y)]))
        vc.check(nm + "::mean-of-adjusted-sample", mr == my - b * (mx - px))
        vc.check(nm + "::raw-mean-when-the-control-hits-its-price", Implies(mx == px, mr == my))
        vc.check(nm + "::variance-identity", Implies(Not(degenerate), vr * vx == vy * vx - cxy * cxy))
        vc.check(nm + "::variance-never-exceeds-the-raw-one", vr <= vy)

    def replay(self, model, clause, n):
        from rpylib.product.product import ControlVariates
        f = lambda k, dflt: [float(v["float"]) if isinstance(v, dict) else float(v) for v in model.get(k, dflt)]
        x, y = np.array(f("x", [1.0, 2.0, 4.0][:n])), np.array(f("y", [2.0, 1.0, 5.0][:n]))
        pv = model.get("price_x", 2.0)
        px = float(pv["float"]) if isinstance(pv, dict) else float(pv)
        res = np.ravel(ControlVariates.helper_compute_coefficients(x=x.reshape(n, 1), y=y, prices=px))
        vx = x.var()
        b = 0.0 if abs(vx) < 1e-12 else np.cov(x, y, bias=True)[0, 1] / vx
        want = y - b * (x - px)
        bad = not np.allclose(res, want) or res.var() > y.var() + 1e-12
        return (bool(bad), {"x": x.tolist(), "y": y.tolist(), "price_x": px, "adjusted": res.tolist(), "expected": want.tolist()})


UNITS = [EnginePrice(), PriceAndError(), ControlVariate()]
ASSUMPTIONS = ["A1: floats are mathematical reals", "the payoff of a path is a function of the path (C17); simulate_one_path returns a fresh path per call",
               f"estimator algebra: every sample size n <= {N_SAMPLES} (symbolic values)"]
TRUSTED_BASE = ["z3 5.1 (LRA/NRA + arrays)", "pyvc interpreter + numpy models (mean, std, cov, inv for 1x1/2x2)"]
BOUNDED = []
