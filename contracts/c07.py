"""C07 — standard Monte-Carlo price, error and control-variate adjustment are textbook.

Engine loop: verified for a symbolic number of paths with an inductive invariant over a ghost event log (which path id
was simulated, processed, discounted and stored at which row).  Estimator algebra: proved for every sample of size
n <= N_SAMPLES with symbolic values (complete in the values, bounded in n).
"""
import numpy as np
import z3

from pyvc.contract import FunctionContract, Lemma, VC, Req, ForAllInts
from pyvc.interp import LoopSpec
from pyvc.sym import And, Or, Not, Implies, If, Eq, compare, smax, smin, is_sym, Sym, lift, as_real_term, as_int_term, INF, PyRaise
from pyvc.values import SymSeq, Obj

PROPERTY_ID = "C07"
LEVEL = "proof"
EN = "rpylib.montecarlo.standard.engine:"
ST = "rpylib.montecarlo.statistic.statistic:"
TL = "rpylib.montecarlo.statistic.tools:"
PA = "rpylib.montecarlo.path:"
N_SAMPLES = 4

PAYF = z3.Function("PAYOFF_OF_PATH", z3.IntSort(), z3.RealSort())     # notional * payoff(path with this id)
CVF = z3.Function("CONTROL_OF_PATH", z3.IntSort(), z3.RealSort())


def PAY(i):
    return Sym(PAYF(as_int_term(lift(i))), "r")


def CVV(i):
    return Sym(CVF(as_int_term(lift(i))), "r")


class EnginePrice(FunctionContract):
    """Engine.price, single-process branch, mc_paths symbolic: every row i < mc_paths of the payoff statistics is
    df * (notional * payoff)(i-th simulated path); exactly mc_paths paths are simulated, each processed, discounted and
    stored once, in that order; the control-variate coefficients are computed once, after the loop, on those statistics."""
    prop = "C07"
    target = EN + "Engine.price"
    name = "standard.Engine.price"

    def __init__(self):
        def inv(L, g):
            k = L._i
            rows, cvrows, J = g["stats"].fields["_payoff_statistics"].fields["stats"], g["stats"].fields["_control_variates_statistics"].fields["stats"], g["J"]
            return And(g["drawn"] == k, rows.length == g["N"], cvrows.length == g["N"],
                       Implies(And(J >= 0, J < k), And(rows.raw(J) == g["df"] * PAY(J), cvrows.raw(J) == g["df"] * CVV(J))),
                       g["seeded"] == 1)
        self.loops = {0: LoopSpec(inv, havoc={"__ghost__": lambda path, g: g.__setitem__("drawn", path.fresh("drawn", "i"))})}

    def configure(self, interp):
        from pyvc import ctx
        G = lambda: ctx.PATH.ghost

        def init(it, f, b):
            g = G()
            g["init_calls"] = g.get("init_calls", 0) + 1
            b["self"].fields["path_manager"] = g["pm"]
            b["self"].fields["statistics"] = g["stats"]
        interp.hooks[EN + "Engine.initialisation"] = init

        def sim(it, f, b):
            g = G()
            pid = g["drawn"]
            g["drawn"] = pid + 1
            return ("path", pid)
        interp.hooks["rpylib.process.process:Process.simulate_one_path"] = sim

        def process(it, f, b):
            pm = b["self"]
            kind, pid = pm.fields["stochastic_path"]
            pm.fields["payoff"] = PAY(pid)
            pm.fields["payoff_control_variates"] = CVV(pid)
        interp.hooks[PA + "MCPath.process"] = process
        interp.hooks[PA + "MCPath.update"] = lambda it, f, b: None
        interp.hooks["rpylib.process.process:Process.df"] = lambda it, f, b: G()["df"]

        def seed(it, f, b):
            g = G()
            g["seeded"] = g.get("seeded", 0) + 1
            g["seed_before_draw"] = g.get("seed_before_draw", True) and (concrete(g["drawn"]) == 0)
        interp.hooks["rpylib.montecarlo.configuration:Configuration.initialisation_seed"] = seed

        def cvc(it, f, b):
            g = G()
            g["cv_calls"] = g.get("cv_calls", []) + [(b["statistics"], g["drawn"])]
        interp.hooks["rpylib.product.product:ControlVariates.compute_coefficients"] = cvc

    def setup(self, vc, case):
        g = vc.ghost
        N = vc.int("mc_paths")
        df = vc.real("df")
        J = vc.int("J")
        vc.assume(And(N >= 0, J >= 0, J < N))
        g.update(N=N, df=df, J=J, drawn=0, seeded=0)
        mk_stat = lambda nm: vc.obj(ST + "Statistic", stats=vc.seq(nm, "r"))
        pay, cvs = mk_stat("payoff_rows"), mk_stat("cv_rows")
        vc.assume(And(pay.fields["stats"].length == N, cvs.fields["stats"].length == N))
        stats = vc.obj(ST + "MCStatistics", _payoff_statistics=pay, _control_variates_statistics=cvs,
                       _spot_underlying_statistics=vc.obj(ST + "NoStatistic"), _payoff_statistics_with_cv=mk_stat("cv_adjusted"))
        pm = vc.obj(PA + "MCPath", payoff=None, payoff_control_variates=0.0, spot_underlying=0, stochastic_path=None)
        g.update(stats=stats, pm=pm)
        cfg = vc.obj("rpylib.montecarlo.configuration:ConfigurationStandard", mc_paths=N, nb_of_processes=1,
                     control_variates=vc.obj("rpylib.product.product:ControlVariates"))
        proc = vc.obj("rpylib.process.process:Process", process_representation=None)
        eng = vc.obj(EN + "Engine", configuration=cfg, process=proc, path_manager=None, statistics=None)
        product = vc.obj("rpylib.product.product:Product", maturity=vc.real("maturity"))
        return dict(self=eng, product=product)

    def ensures(self, result, self_=None, product=None):
        from pyvc import ctx
        g = ctx.PATH.ghost
        rows = g["stats"].fields["_payoff_statistics"].fields["stats"]
        cvrows = g["stats"].fields["_control_variates_statistics"].fields["stats"]
        J, N, df = g["J"], g["N"], g["df"]
        calls = g.get("cv_calls", [])
        return {"returns-the-statistics-it-filled": result is g["stats"],
                "row-i-is-the-discounted-notional-scaled-payoff-of-the-i-th-path": rows.raw(J) == df * PAY(J),
                "control-row-i-is-the-discounted-control-payoff-of-the-same-path": cvrows.raw(J) == df * CVV(J),
                "exactly-mc_paths-paths-simulated": g["drawn"] == N,
                "one-row-per-path-no-resize": rows.length == N,
                "seeded-once-before-the-first-draw": And(g["seeded"] == 1, g.get("seed_before_draw", False) is True),
                "control-variate-coefficients-computed-once-after-the-loop-on-these-statistics":
                    (len(calls) == 1) and (calls[0][0] is g["stats"]) and (calls[0][1] == N),
                "initialised-once": g.get("init_calls", 0) == 1}


def concrete(v):
    from pyvc.sym import concrete_value
    return concrete_value(v) if is_sym(v) else v


def arr(vc, name, n, dim):
    xs = vc.reals(name, n * dim)
    a = np.empty((n, dim), dtype=object)
    for i in range(n):
        for j in range(dim):
            a[i, j] = xs[i * dim + j]
    return a


class PriceAndError(Lemma):
    """MCStatistics.price() / mc_stddev() on n samples of a dim-dimensional payoff: the arithmetic mean per component and
    the unbiased sample standard deviation per component divided by sqrt(n) (n = number of paths, not n * dim)."""
    prop = "C07"
    cases = tuple((n, d) for n in range(1, N_SAMPLES + 1) for d in (1, 2))

    def __init__(self):
        self.name = "property:price-and-error"

    def prove(self, vc, case):
        n, d = case
        nm = f"{self.name}[n={n},dim={d}]"
        A = arr(vc, "payoff", n, d)
        stat = vc.obj(ST + "Statistic", stats=A)
        mcs = vc.obj(ST + "MCStatistics", _payoff_statistics=stat, _control_variates_statistics=vc.obj(ST + "NoStatistic"),
                     _payoff_statistics_with_cv=vc.obj(ST + "Statistic", stats=arr(vc, "unused", n, d)))
        price = vc.method(mcs, "price")
        err = vc.method(mcs, "mc_stddev")
        price = [price] if d == 1 else list(price)
        err = [err] if (d == 1 or n == 1) and not isinstance(err, (list, np.ndarray)) else list(np.ravel(np.asarray(err, dtype=object)))
        for j in range(d):
            col = [A[i, j] for i in range(n)]
            mean = sum(col, 0) / n
            vc.check(nm + f"::component{j}:price-is-the-arithmetic-mean", price[j] == mean)
            if n >= 2:
                ss = sum(((x - mean) * (x - mean) for x in col), 0)
                e = err[j]
                vc.check(nm + f"::component{j}:error-is-unbiased-stddev-over-sqrt-n", And(e >= 0, e * e * n * (n - 1) == ss))
            else:
                vc.check(nm + f"::component{j}:single-sample-error-is-zero", err[min(j, len(err) - 1)] == 0)

    def replay(self, model, clause, case):
        from rpylib.montecarlo.statistic.statistic import MCStatistics, Statistic, NoStatistic
        n, d = case
        vals = [float(v["float"]) if isinstance(v, dict) else float(v) for v in (model.get("payoff") or [])]
        if len(vals) != n * d:
            vals = [float((7 * i) % 5) + 0.5 * i for i in range(n * d)]
        A = np.array(vals).reshape(n, d)
        st = Statistic("payoff", shape=(d,), mc_paths=n, process_representation=None)
        st.stats = A
        mcs = MCStatistics(payoff_statistics=st)
        price, err = np.atleast_1d(mcs.price()), np.atleast_1d(mcs.mc_stddev())
        want_p = A.mean(axis=0)
        want_e = A.std(axis=0, ddof=1) / np.sqrt(n) if n >= 2 else np.zeros(d)
        bad = not np.allclose(price, want_p) or (len(err) != d and n >= 2) or not np.allclose(np.resize(err, d), want_e)
        return (bool(bad), {"samples": A.tolist(), "price": price.tolist(), "reported_error": err.tolist(), "textbook_error": want_e.tolist()})


class ControlVariate(Lemma):
    """ControlVariates.helper_compute_coefficients, one control, n samples: the adjusted sample Y - b*(X - price_X) with
    b* = cov(X,Y)/var(X); its mean is mean(Y) - b*(mean(X) - price_X) (the raw mean when the control's sample mean hits its
    price) and its sample variance is var(Y) - cov^2/var(X) <= var(Y); degenerate control (var < 1e-12): unchanged."""
    prop = "C07"
    cases = (2, 3)

    def __init__(self):
        self.name = "property:control-variate"

    def prove(self, vc, n):
        nm = f"{self.name}[n={n}]"
        x = np.array(vc.reals("x", n), dtype=object)
        y = np.array(vc.reals("y", n), dtype=object)
        px = vc.real("price_x")
        f = vc.interp.get_function("rpylib.product.product:ControlVariates.helper_compute_coefficients")
        res = vc.interp.call(f, [], dict(x=x.reshape(n, 1), y=y, prices=px))
        res = list(np.ravel(np.asarray(res, dtype=object)))
        mx, my = sum(x, 0) / n, sum(y, 0) / n
        vx = sum(((a - mx) * (a - mx) for a in x), 0) / n
        cxy = sum(((a - mx) * (b - my) for a, b in zip(x, y)), 0) / n
        vy = sum(((b - my) * (b - my) for b in y), 0) / n
        mr = sum(res, 0) / n
        vr = sum(((r - mr) * (r - mr) for r in res), 0) / n
        degenerate = vx < z3.RealVal("1e-12") if False else (vx < Sym(z3.Q(1, 10 ** 12), "r"))
        vc.check(nm + "::length", len(res) == n)
        b = vc.fresh("b_star", "r")
        vc.assume(Implies(Not(degenerate), b * vx == cxy))
        vc.assume(Implies(degenerate, b == 0))
        vc.check(nm + "::adjusted-sample-is-Y-minus-bstar-times-(X-price)", And(*[r == yy - b * (xx - px) for r, xx, yy in zip(res, x, y)]))
        vc.check(nm + "::mean-of-adjusted-sample", mr == my - b * (mx - px))
        vc.check(nm + "::raw-mean-when-the-control-hits-its-price", Implies(mx == px, mr == my))
        vc.check(nm + "::variance-identity", Implies(Not(degenerate), vr * vx == vy * vx - cxy * cxy))
        vc.check(nm + "::variance-never-exceeds-the-raw-one", vr <= vy)

    def replay(self, model, clause, n):
        from rpylib.product.product import ControlVariates
        f = lambda k, dflt: [float(v["float"]) if isinstance(v, dict) else float(v) for v in model.get(k, dflt)]
        x, y = np.array(f("x", [1.0, 2.0, 4.0][:n])), np.array(f("y", [2.0, 1.0, 5.0][:n]))
        pv = model.get("price_x", 2.0)
        px = float(pv["float"]) if isinstance(pv, dict) else float(pv)
        res = np.ravel(ControlVariates.helper_compute_coefficients(x=x.reshape(n, 1), y=y, prices=px))
        vx = x.var()
        b = 0.0 if abs(vx) < 1e-12 else np.cov(x, y, bias=True)[0, 1] / vx
        want = y - b * (x - px)
        bad = not np.allclose(res, want) or res.var() > y.var() + 1e-12
        return (bool(bad), {"x": x.tolist(), "y": y.tolist(), "price_x": px, "adjusted": res.tolist(), "expected": want.tolist()})


class ControlVariate2(Lemma):
    """ControlVariates.helper_compute_coefficients, TWO controls, n samples (real body, np.cov / np.linalg.inv models).
    Route analysis by z3 per path: the code may fall back to b* = 0 only when a control has no sample variance or the
    controls' covariance matrix is singular.  On the regression route the adjusted sample, its mean and its variance are
    rational identities decided by sympy: adjusted = Y - b*.(X - prices) with Sigma_x b* = sigma_xy (Cramer), mean =
    mean(Y) - b*.(mean(X) - prices), variance = var(Y) - mean((b*.(X - mean X))^2) <= var(Y)."""
    prop = "C07"
    cases = (3,)

    def __init__(self):
        self.name = "property:control-variate-two-controls"

    def prove(self, vc, n):
        import sympy as sp
        nm = f"{self.name}[n={n}]"
        xs = vc.reals("x", 2 * n)
        x = np.empty((n, 2), dtype=object)
        for i in range(n):
            x[i, 0], x[i, 1] = xs[2 * i], xs[2 * i + 1]
        y = np.array(vc.reals("y", n), dtype=object)
        p = np.array(vc.reals("price_x", 2), dtype=object)
        f = vc.interp.get_function("rpylib.product.product:ControlVariates.helper_compute_coefficients")
        res = vc.interp.call(f, [], dict(x=x, y=y, prices=p))
        res = list(np.ravel(np.asarray(res, dtype=object)))
        vc.check(nm + "::length", len(res) == n)
        m0, m1, my = sum(x[:, 0], 0) / n, sum(x[:, 1], 0) / n, sum(y, 0) / n
        S00 = sum(((a - m0) * (a - m0) for a in x[:, 0]), 0) / n
        S11 = sum(((a - m1) * (a - m1) for a in x[:, 1]), 0) / n
        S01 = sum(((a - m0) * (b - m1) for a, b in zip(x[:, 0], x[:, 1])), 0) / n
        s0 = sum(((a - m0) * (b - my) for a, b in zip(x[:, 0], y)), 0) / n
        s1 = sum(((a - m1) * (b - my) for a, b in zip(x[:, 1], y)), 0) / n
        det = S00 * S11 - S01 * S01
        tiny = Sym(z3.Q(1, 10 ** 12), "r")
        fallback = all(z3.is_true(z3.simplify(as_real_term(lift(r)) == as_real_term(lift(yy)))) for r, yy in zip(res, y))
        if fallback:
            # b* = 0 was used: with non-degenerate controls the textbook adjustment b*.(X_i - price) must then vanish
            b0n, b1n = s0 * S11 - s1 * S01, s1 * S00 - s0 * S01          # Cramer numerators of b*
            nondeg = And(S00 >= tiny, S11 >= tiny, det != 0)
            vc.check(nm + "::zero-coefficient-only-when-the-regression-adjustment-vanishes-or-the-controls-are-degenerate",
                     Implies(nondeg, And(*[b0n * (x[i, 0] - p[0]) + b1n * (x[i, 1] - p[1]) == 0 for i in range(n)])))
            return
        vc.cover(nm + "::regression-route")
        X = [[vc.sp(x[i, j]) for j in range(2)] for i in range(n)]
        Y = [vc.sp(v) for v in y]
        P = [vc.sp(v) for v in p]
        R = [vc.sp(r) for r in res]
        M = [sum(X[i][j] for i in range(n)) / n for j in range(2)]
        MY = sum(Y) / n
        C = [[sum((X[i][a] - M[a]) * (X[i][b] - M[b]) for i in range(n)) / n for b in range(2)] for a in range(2)]
        c = [sum((X[i][a] - M[a]) * (Y[i] - MY) for i in range(n)) / n for a in range(2)]
        D = C[0][0] * C[1][1] - C[0][1] * C[1][0]
        b = [(c[0] * C[1][1] - c[1] * C[0][1]) / D, (c[1] * C[0][0] - c[0] * C[1][0]) / D]
        syms = sorted(set().union(*[e.free_symbols for e in R]), key=str)
        samp = lambda rng: {s_: rng.uniform(-2.0, 2.0) for s_ in syms}
        num = lambda e: (lambda: sp.expand(sp.fraction(sp.together(e))[0]))      # rational identity <=> numerator expands to 0
        want = [Y[i] - sum(b[j] * (X[i][j] - P[j]) for j in range(2)) for i in range(n)]
        for i in range(n):
            vc.check_zero(nm + f"::adjusted-sample-{i}-is-Y-minus-bstar-times-(X-price)", num(R[i] - want[i]), samp)
        for a in range(2):
            vc.check_zero(nm + f"::bstar-solves-the-normal-equation-{a}", num(sum(C[a][j] * b[j] for j in range(2)) - c[a]), samp)
        # for ANY coefficient vector beta: mean and variance of Y - beta.(X - price); with the normal equations the last term
        # vanishes, so variance = var(Y) - mean((bstar.(X - mean X))^2) <= var(Y)
        be = [sp.Symbol("beta0", real=True), sp.Symbol("beta1", real=True)]
        A = [Y[i] - sum(be[j] * (X[i][j] - P[j]) for j in range(2)) for i in range(n)]
        ma = sum(A) / n
        samp2 = lambda rng: {**samp(rng), be[0]: rng.uniform(-2, 2), be[1]: rng.uniform(-2, 2)}
        vc.check_zero(nm + "::mean-of-adjusted-sample", num(ma - (MY - sum(be[j] * (M[j] - P[j]) for j in range(2)))), samp2)
        va = sum((r - ma) ** 2 for r in A) / n
        vy = sum((v - MY) ** 2 for v in Y) / n
        explained = sum((sum(be[j] * (X[i][j] - M[j]) for j in range(2))) ** 2 for i in range(n)) / n     # a mean of squares: >= 0
        defect = sum(be[a] * (c[a] - sum(C[a][j] * be[j] for j in range(2))) for a in range(2))
        vc.check_zero(nm + "::variance-is-raw-variance-minus-a-mean-of-squares-given-the-normal-equations", num(va - (vy - explained) + 2 * defect), samp2)

    def replay(self, model, clause, n):
        from rpylib.product.product import ControlVariates
        from contracts.std_harness import textbook_cv
        def f(k, dflt):
            if isinstance(model.get(k), list):
                return [float(v["float"]) if isinstance(v, dict) else float(v) for v in model[k]]
            if f"{k}_0" in model:        # a point found by the analytic back end: one entry per symbol
                return [float(model.get(f"{k}_{i}", dflt[i])) for i in range(len(dflt))]
            return dflt
        xs = f("x", [1.0, 0.5, -1.0, 0.25, 0.0, 2.0, 0.7, -0.3][: 2 * n])
        x = np.array(xs[: 2 * n]).reshape(n, 2)
        y = np.array(f("y", [2.0, 1.0, 5.0, 0.5][:n]))
        px = np.array(f("price_x", [0.3, -0.2]))
        res = np.ravel(ControlVariates.helper_compute_coefficients(x=x, y=y, prices=px))
        want = textbook_cv(y, x, px)
        bad = res.shape != want.shape or not np.allclose(res, want, rtol=1e-8, atol=1e-10) or res.var() > y.var() * (1 + 1e-10) + 1e-14
        return (bool(bad), {"x": x.tolist(), "y": y.tolist(), "prices": px.tolist(), "adjusted": res.tolist(), "textbook": want.tolist()})


class ComputeCoefficients(FunctionContract):
    """ControlVariates.compute_coefficients (real body; helper_compute_coefficients replaced by its recorded call): for every
    payoff component k the helper receives the n x c matrix of that component's control samples, that component's payoff
    samples and the vector (price of control j for component k)_j, and its result becomes column k of the adjusted
    statistics; nothing else is written."""
    prop = "C07"
    target = "rpylib.product.product:ControlVariates.compute_coefficients"
    name = "ControlVariates.compute_coefficients"
    cases = tuple((c, d, kind) for c in (1, 2) for d in (1, 2) for kind in ("scalar-prices", "vector-prices") if not (kind == "scalar-prices" and d > 1))
    N = 2

    def configure(self, interp):
        from pyvc import ctx

        def helper(it, f, b):
            g = ctx.PATH.ghost
            k = len(g.setdefault("helper_calls", []))
            out = np.array([ctx.PATH.fresh(f"adj{k}", "r") for _ in range(self.N)], dtype=object)
            g["helper_calls"].append((b["x"], b["y"], b["prices"], out))
            return out
        interp.hooks["rpylib.product.product:ControlVariates.helper_compute_coefficients"] = helper

    def setup(self, vc, case):
        c, d, kind = case
        n = self.N
        X = np.empty((n, c, d), dtype=object)
        Y = np.empty((n, d), dtype=object)
        for i in range(n):
            for k in range(d):
                Y[i, k] = vc.real(f"Y_{i}_{k}")
                for j in range(c):
                    X[i, j, k] = vc.real(f"X_{i}_{j}_{k}")
        if kind == "scalar-prices":
            prices = [vc.real(f"price_{j}") for j in range(c)]
            pm = [[prices[j] for k in range(d)] for j in range(c)]
        else:
            prices = [np.array([vc.real(f"price_{j}_{k}") for k in range(d)], dtype=object) for j in range(c)]
            pm = [[prices[j][k] for k in range(d)] for j in range(c)]
        vc.ghost.update(X=X, Y=Y, pm=pm, case=case)
        mk = lambda a: vc.obj(ST + "Statistic", stats=a)
        adj = mk(np.array([[vc.real(f"old_{i}_{k}") for k in range(d)] for i in range(n)], dtype=object))
        stats = vc.obj(ST + "MCStatistics", _payoff_statistics=mk(Y), _control_variates_statistics=mk(X), _payoff_statistics_with_cv=adj,
                       _spot_underlying_statistics=vc.obj(ST + "NoStatistic"))
        cv = vc.obj("rpylib.product.product:ControlVariates", prices=prices, nb_cvs=c, products=[None] * c)
        return dict(self=cv, statistics=stats)

    def ensures(self, result, self_=None, statistics=None):
        from pyvc import ctx
        g = ctx.PATH.ghost
        c, d, kind = g["case"]
        n = self.N
        X, Y, pm = g["X"], g["Y"], g["pm"]
        calls = g.get("helper_calls", [])
        out = {"one-regression-per-payoff-component": len(calls) == d}
        if len(calls) != d:
            return out
        adj = statistics.fields["_payoff_statistics_with_cv"].fields["stats"]
        ok_shape = isinstance(adj, np.ndarray) and adj.shape == (n, d)
        out["adjusted-statistics-has-one-row-per-path-and-one-column-per-component"] = ok_shape
        for k, (x, y, pr, res) in enumerate(calls):
            x, y = np.asarray(x, dtype=object), np.asarray(y, dtype=object)
            prv = np.ravel(np.asarray(pr, dtype=object))
            out[f"component{k}:control-samples-passed"] = (x.shape == (n, c)) and And(*[x[i, j] == X[i, j, k] for i in range(n) for j in range(c)])
            out[f"component{k}:payoff-samples-passed"] = (y.shape == (n,)) and And(*[y[i] == Y[i, k] for i in range(n)])
            out[f"component{k}:each-control-has-its-own-price"] = (prv.shape == (c,)) and And(*[prv[j] == pm[j][k] for j in range(c)])
            if ok_shape:
                out[f"component{k}:column-is-the-regression-residual"] = And(*[adj[i, k] == res[i] for i in range(n)])
        out["raw-payoff-statistics-untouched"] = statistics.fields["_payoff_statistics"].fields["stats"] is Y
        return out

    def replay(self, model, clause, case):
        from contracts.std_harness import run_schedule
        c, d, kind = case
        pr = run_schedule([25], dim=d, n_controls=c, scalar_prices=(kind == "scalar-prices"))
        return (bool(pr), {"native_harness_problems": pr[:3], "controls": c, "payoff_dimension": d, "prices": kind})


class ControlReadsItsPath(Lemma):
    """a control variate with a PATH-DEPENDENT payoff (down-and-out barrier call on the spot; real ControlVariates.process /
    process_mlmc, real Product and Barrier bodies, 3 symbolic path points): the control's value on a path is what the product
    is worth on that path on its own -- knocked out iff THIS path goes below the barrier, whatever path was valued before,
    and in the multilevel call each component with its own path."""
    prop = "C07"
    cases = ("breaching path", "quiet path", "quiet path after a breaching one", "multilevel: fine breaches, coarse does not", "multilevel: coarse breaches, fine does not")

    def __init__(self):
        self.name = "property:path-dependent-control-reads-its-own-path"

    def prove(self, vc, case):
        nm = f"{self.name}[{case}]"
        UND, PAY = "rpylib.product.underlying:", "rpylib.product.payoff:"
        strike, barrier = vc.real("strike"), vc.real("barrier")
        vc.assume(And(strike > 0, barrier > 0))
        pay = vc.new(PAY + "Barrier", strike, vc.enum(PAY + "PayoffType", "CALL"), vc.enum(PAY + "BarrierType", "DOWN_AND_OUT"), barrier)
        ctrl = vc.new("rpylib.product.product:Product", vc.new(UND + "Spot"), pay, 1.0)
        cv = vc.new("rpylib.product.product:ControlVariates", [ctrl], [0.0])
        vc.method(cv, "initialisation", vc.new(UND + "Spot"))
        times = np.array([0.0, 0.5, 1.0])

        def path(name, breaching):
            xs = vc.reals(name, 3)
            vc.assume(And(*[x > 0 for x in xs]))
            vc.assume(xs[1] < barrier if breaching else And(*[x >= barrier for x in xs]))
            return np.array(xs, dtype=object)
        vanilla = lambda s_: If(s_ - strike > 0, s_ - strike, 0.0)
        if case.startswith("multilevel"):
            fine_breaches = "fine breaches" in case
            pf, pc = path("fine", fine_breaches), path("coarse", not fine_breaches)
            res = np.ravel(np.asarray(vc.method(cv, "process_mlmc", times, pf, pc, pf, pc, pf[-1], pc[-1]), dtype=object)).tolist()
            ok = len(res) == 2
            vc.check(nm + "::one-value-per-component", ok)
            if ok:
                want = (0.0, vanilla(pc[-1])) if fine_breaches else (vanilla(pf[-1]), 0.0)
                vc.check(nm + "::each-component-is-knocked-out-iff-its-own-path-breaches", And(compare(res[0], want[0], "=="), compare(res[1], want[1], "==")))
            return
        if case == "quiet path after a breaching one":
            pa = path("earlier", True)
            vc.method(cv, "process", times, pa, pa, pa[-1])
        p_ = path("path", case == "breaching path")
        res = np.ravel(np.asarray(vc.method(cv, "process", times, p_, p_, p_[-1]), dtype=object)).tolist()
        vc.check(nm + "::one-value", len(res) == 1)
        if len(res) == 1:
            vc.check(nm + "::knocked-out-iff-this-path-breaches", compare(res[0], 0.0 if case == "breaching path" else vanilla(p_[-1]), "=="))

    def replay(self, model, clause, case):
        from rpylib.product.product import Product, ControlVariates
        from rpylib.product.underlying import Spot
        from rpylib.product.payoff import Barrier, PayoffType, BarrierType
        ctrl = Product(Spot(), Barrier(100.0, PayoffType.CALL, BarrierType.DOWN_AND_OUT, 90.0), 1.0)
        cv = ControlVariates([ctrl], [0.0])
        cv.initialisation(Spot())
        t = np.array([0.0, 0.5, 1.0])
        breach, quiet = np.array([100.0, 85.0, 108.0]), np.array([100.0, 95.0, 108.0])
        if case.startswith("multilevel"):
            pf, pc = (breach, quiet) if "fine breaches" in case else (quiet, breach)
            got = np.ravel(cv.process_mlmc(t, pf, pc, pf, pc, pf[-1], pc[-1])).astype(float).tolist()
            want = [0.0, 8.0] if "fine breaches" in case else [8.0, 0.0]
            return (got != want, {"fine_path": pf.tolist(), "coarse_path": pc.tolist(), "control_values_fine_coarse": got, "own_values": want})
        if case == "quiet path after a breaching one":
            cv.process(t, breach, breach, breach[-1])
        p_ = breach if case == "breaching path" else quiet
        got = float(np.ravel(cv.process(t, p_, p_, p_[-1]))[0])
        want = 0.0 if case == "breaching path" else 8.0
        return (got != want, {"history": case, "path": p_.tolist(), "barrier": 90.0, "strike": 100.0, "control_value": got, "its_own_value_on_this_path": want})


class ControlUnderlyings(Lemma):
    """ControlVariates.initialisation + process (real bodies) with controls written on the n-th spot while the priced product is
    written on the whole spot vector: every control is evaluated from the product's payoff underlying of THIS path (its own
    component), through the four-argument call the engine makes."""
    prop = "C07"
    cases = (2, 3, "same-class-other-term", "same-class-same-term", "same-class-other-private-term")

    def __init__(self):
        self.name = "property:controls-on-the-nth-spot"

    def prove(self, vc, d):
        from pyvc.sym import PyRaise
        if d == "same-class-other-term":
            return self.prove_same_class(vc)
        if d == "same-class-same-term":
            return self.prove_same_class(vc, same=True)
        if d == "same-class-other-private-term":
            # DefaultTime keeps its only term (the default level) in a private attribute
            return self.prove_same_class(vc, cls="DefaultTime", ctrl_args=(-0.1,), prod_args=(-0.2,), what="DefaultTime(-0.2), control on DefaultTime(-0.1)")
        nm = f"{self.name}[{d} names]"
        it = vc.interp
        UND = "rpylib.product.underlying:"
        PAYK = z3.Function("CONTROL_PRODUCT_PAYOFF", z3.IntSort(), z3.RealSort(), z3.RealSort())
        pay = lambda k, u: Sym(PAYK(z3.IntVal(k), as_real_term(lift(u))), "r")
        it.hooks["rpylib.product.product:Product.__call__"] = lambda it_, f, b: pay(b["self"].fields["tag"], [v for k_, v in b.items() if k_ != "self"][0])
        prods = [self._control(vc, vc.new(UND + "NthSpot", k + 1), k) for k in range(d)]
        cv = vc.obj("rpylib.product.product:ControlVariates", products=prods, prices=[0.0] * d, nb_cvs=d, _underlying_functions=[])
        vc.method(cv, "initialisation", vc.new(UND + "Spot"))          # the payoff underlying OBJECT of the priced product
        pu = np.array(vc.reals("spot_at_maturity", d), dtype=object)
        times = np.array([0.0, 1.0])
        path = np.array(vc.reals("path", 2 * d), dtype=object).reshape(d, 2)
        try:
            res = vc.method(cv, "process", times, path, path, pu)
        except PyRaise as e:
            vc.check(nm + f"::controls-are-evaluated[{e.exc_type}]", False)
            return
        res = list(np.ravel(np.asarray(res, dtype=object)))
        vc.check(nm + "::one-value-per-control", len(res) == d)
        for k in range(min(d, len(res))):
            vc.check(nm + f"::control{k}-is-its-own-product-on-its-own-component", compare(res[k], pay(k, pu[k]), "=="))

    @staticmethod
    def _control(vc, underlying, tag):
        """a control product through the real constructor (its payoff is a forward: not path dependent; its value function is
        abstracted per product by the hook on Product.__call__)"""
        p_ = vc.new("rpylib.product.product:Product", underlying, vc.new("rpylib.product.payoff:Forward", 0.0), 1.0)
        p_.fields["tag"] = tag
        return p_

    def prove_same_class(self, vc, same=False, cls="NthSpot", ctrl_args=(2,), prod_args=None, what=None):
        """the priced product is written on the FIRST spot, the control on the SECOND one (same underlying class, other term):
        the control must be evaluated on its own component of the path, not on the product's payoff underlying;  same=True:
        both on the second spot -- whichever route the code takes (re-use of the product's payoff underlying or its own
        evaluation) the control is valued on the second spot of this path"""
        nm = f"{self.name}[product on NthSpot({2 if same else 1}), control on NthSpot(2)]" if what is None else f"{self.name}[product on {what}]"
        if prod_args is None:
            prod_args = (2 if same else 1,)
        it = vc.interp
        UND = "rpylib.product.underlying:"
        PAYK = z3.Function("CONTROL_PRODUCT_PAYOFF", z3.IntSort(), z3.RealSort(), z3.RealSort())
        pay = lambda k, u: Sym(PAYK(z3.IntVal(k), as_real_term(lift(u))), "r")
        it.hooks["rpylib.product.product:Product.__call__"] = lambda it_, f, b: pay(b["self"].fields["tag"], [v for k_, v in b.items() if k_ != "self"][0])
        ctrl = vc.new(UND + cls, *ctrl_args)
        own = vc.real("value_of_the_second_spot")
        it.hooks[UND + cls + ".value"] = lambda it_, f, b: own if b["self"] is ctrl else vc.real("value_of_the_first_spot")
        cv = vc.obj("rpylib.product.product:ControlVariates", products=[self._control(vc, ctrl, 0)], prices=[0.0], nb_cvs=1, _underlying_functions=[])
        vc.method(cv, "initialisation", vc.new(UND + cls, *prod_args))
        pu = own if same else vc.real("payoff_underlying_of_the_priced_product")     # same underlying: the engine hands over its value on this path
        path = np.array(vc.reals("path", 4), dtype=object).reshape(2, 2)
        res = list(np.ravel(np.asarray(vc.method(cv, "process", np.array([0.0, 1.0]), path, path, pu), dtype=object)))
        vc.check(nm + "::control-is-evaluated-on-its-own-underlying", len(res) == 1 and compare(res[0], pay(0, own), "=="))

    def replay(self, model, clause, d):
        from rpylib.product.product import Product, ControlVariates
        from rpylib.product.underlying import NthSpot, Spot
        from rpylib.product.payoff import Vanilla, PayoffType
        if d == "same-class-same-term":
            cvx = ControlVariates([Product(payoff_underlying=NthSpot(2), payoff=Vanilla(strike=1.0, payoff_type=PayoffType.CALL), maturity=1.0)], [0.1])
            cvx.initialisation(NthSpot(2))
            path = np.array([[1.0, 1.5], [1.0, 2.5]])
            pu = NthSpot(2).value(np.array([0.0, 1.0]), path, path)
            got = float(np.ravel(cvx.process(np.array([0.0, 1.0]), path, path, pu))[0])
            return (abs(got - 1.5) > 1e-12, {"terminal_spots": [1.5, 2.5], "control_on_the_second_spot": got, "its_own_payoff": 1.5})
        if d == "same-class-other-private-term":
            from rpylib.product.underlying import DefaultTime
            from rpylib.product.payoff import Forward
            cvx = ControlVariates([Product(payoff_underlying=DefaultTime(-0.1), payoff=Forward(strike=0.0), maturity=1.0)], [0.1])
            cvx.initialisation(DefaultTime(-0.2))
            times = np.array([0.0, 0.5, 1.0])
            path = np.array([[1.0, 0.85, 0.85]])            # one jump of log-ratio -0.16: below -0.1, above -0.2
            jp = np.array([1.0, 0.85, 0.85])               # identity representation: the jump component as a factor
            pu = DefaultTime(-0.2).value(times, path, jp)
            got = float(np.ravel(cvx.process(times, path, jp, pu))[0])
            want = float(np.ravel(DefaultTime(-0.1).value(times, path, jp))[0])
            return (not (got == want), {"path": path.tolist(), "control_on_level_-0.1": got, "its_own_default_time": want, "default_time_of_the_priced_product's_level_-0.2": float(np.ravel(pu)[0])})
        if d == "same-class-other-term":
            cvx = ControlVariates([Product(payoff_underlying=NthSpot(2), payoff=Vanilla(strike=1.0, payoff_type=PayoffType.CALL), maturity=1.0)], [0.1])
            cvx.initialisation(NthSpot(1))
            path = np.array([[1.0, 1.5], [1.0, 2.5]])        # identity representation: the path holds the spots themselves
            pu = NthSpot(1).value(np.array([0.0, 1.0]), path, path)
            got = float(np.ravel(cvx.process(np.array([0.0, 1.0]), path, path, pu))[0])
            own = NthSpot(2).value(np.array([0.0, 1.0]), path, path)
            want = float(max(float(np.ravel(own)[0]) - 1.0, 0.0))
            return (abs(got - want) > 1e-12, {"terminal_spots": [1.5, 2.5], "control_on_the_second_spot": got, "its_own_payoff": want})
        prods = [Product(payoff_underlying=NthSpot(k + 1), payoff=Vanilla(strike=1.0, payoff_type=PayoffType.CALL), maturity=1.0) for k in range(d)]
        cv = ControlVariates(prods, [0.1] * d)
        cv.initialisation(Spot())
        pu = np.array([1.5 + k for k in range(d)])
        path = np.log(np.stack([np.ones(d), pu], axis=1))
        try:
            res = np.ravel(np.asarray(cv.process(np.array([0.0, 1.0]), path, path, pu), dtype=float))
        except Exception as e:
            return (True, {"names": d, "exception": f"{type(e).__name__}: {e}"})
        want = np.maximum(pu - 1.0, 0.0)
        return (not np.allclose(res, want), {"names": d, "control_payoffs": res.tolist(), "expected": want.tolist()})


class EngineInitialisation(FunctionContract):
    """Engine.initialisation(mc_paths, product), whatever an earlier price() call left in the engine: the statistics object
    of the run is created by this call for exactly mc_paths paths (so no row of an earlier run can enter the mean), the path
    manager is re-created, and the process pre-computation is asked for the same number of paths."""
    prop = "C07"
    target = EN + "Engine.initialisation"
    name = "standard.Engine.initialisation"
    cases = ("first-call", "after-an-earlier-run")

    def configure(self, interp):
        from pyvc import ctx
        G = lambda: ctx.PATH.ghost

        def create(it, f, b):
            g = G()
            o = Obj(it.get_class(ST + "MCStatistics"))
            g.setdefault("created", []).append((o, b["mc_paths"], b["control_variates"], b["payoff_dimension"]))
            return o
        interp.hooks[ST + "create_mc_statistics"] = create
        interp.hooks["rpylib.montecarlo.path:create_path"] = lambda it, f, b: G().setdefault("paths", []).append(object()) or G()["paths"][-1]

        def pre(it, f, b):
            G().setdefault("pre", []).append((b["mc_paths"], len(G().get("created", []))))
        interp.hooks["rpylib.process.process:Process.pre_computation"] = pre
        for fq in ("rpylib.process.process:Process.initialisation", "rpylib.montecarlo.configuration:Configuration.initialisation",
                   "rpylib.product.product:Product.update", "rpylib.product.underlying:Underlying.check_consistency"):
            interp.hooks[fq] = lambda it, f, b: None
        interp.hooks["rpylib.process.process:Process.dimension"] = lambda it, f, b: 1

    def setup(self, vc, case):
        N = vc.int("mc_paths")
        vc.assume(N >= 0)
        g = vc.ghost
        prior = None
        if case == "after-an-earlier-run":
            M = vc.int("earlier_mc_paths")
            vc.assume(M >= 0)
            st = lambda nm: vc.obj(ST + "Statistic", stats=vc.seq(nm, "r"))
            pay = st("earlier_rows")
            vc.assume(pay.fields["stats"].length == M)
            prior = vc.obj(ST + "MCStatistics", _payoff_statistics=pay, _control_variates_statistics=vc.obj(ST + "NoStatistic"),
                           _spot_underlying_statistics=vc.obj(ST + "NoStatistic"), _payoff_statistics_with_cv=st("earlier_adj"))
        g.update(N=N, prior=prior)
        ncv = vc.obj("rpylib.product.product:NoControlVariates")
        cfg = vc.obj("rpylib.montecarlo.configuration:ConfigurationStandard", mc_paths=N, nb_of_processes=1, control_variates=ncv,
                     activate_spot_statistics=False)
        model = vc.obj("rpylib.model.model:Model")
        proc = vc.obj("rpylib.process.process:Process", process_representation=None, model=model, deterministic_path=None)
        vc.interp.hooks["rpylib.model.model:Model.dimension"] = lambda it, f, b: 1
        eng = vc.obj(EN + "Engine", configuration=cfg, process=proc, path_manager=None if prior is None else object(), statistics=prior)
        payoff = vc.obj("rpylib.product.payoff:Payoff")
        product = vc.obj("rpylib.product.product:Product", maturity=vc.real("maturity"), payoff=payoff,
                         payoff_underlying=vc.obj("rpylib.product.underlying:Underlying"))
        return dict(self=eng, mc_paths=N, product=product)

    def ensures(self, result, self_=None, mc_paths=None, product=None):
        from pyvc import ctx
        g = ctx.PATH.ghost
        created = g.get("created", [])
        pre = g.get("pre", [])
        # the statistics the run will fill hold exactly mc_paths rows: created here for mc_paths paths, or (harmless re-use:
        # every row is overwritten by the loop, see Engine.price) an earlier object of exactly that size
        st = self_.fields["statistics"]
        out = {"statistics-created-at-most-once-in-this-call": len(created) <= 1}
        if len(created) == 1 and st is created[0][0]:
            out["the-run's-statistics-hold-exactly-mc_paths-rows"] = created[0][1] == g["N"]
        elif st is not None and st is g["prior"]:
            out["the-run's-statistics-hold-exactly-mc_paths-rows"] = st.fields["_payoff_statistics"].fields["stats"].length == g["N"]
        else:
            out["the-run's-statistics-hold-exactly-mc_paths-rows"] = False
        out["path-manager-re-created"] = len(g.get("paths", [])) == 1 and self_.fields["path_manager"] is g["paths"][-1]
        out["pre-computation-for-the-same-number-of-paths"] = len(pre) == 1 and (pre[0][0] == g["N"])
        return out

    def replay(self, model, clause, case):
        from contracts.std_harness import run_schedule
        n = model.get("mc_paths") if isinstance(model.get("mc_paths"), int) else 7
        m = model.get("earlier_mc_paths") if isinstance(model.get("earlier_mc_paths"), int) else n + 5
        diff = max(-60, min(60, m - n))
        n = max(2, min(n, 100))
        m = max(2, n + diff)
        sched = [n] if case == "first-call" else [m, n]
        pr = run_schedule(sched)
        return (bool(pr), {"schedule_of_price_calls_on_one_engine": sched, "native_harness_problems": pr[:3]})


class StandardEngineBattery:
    """bounded (native): the real standard Engine + MCPath + Product + ControlVariates + statistics on scripted paths;
    repeated price() calls on one engine with growing / shrinking numbers of paths, 0-2 controls, scalar and vector strikes"""
    name = "bounded:standard-engine-battery"
    tier = "quick"
    CONFIGS = [dict(schedule=[20]), dict(schedule=[1]), dict(schedule=[20, 30, 12]), dict(schedule=[25], n_controls=1), dict(schedule=[25, 10, 40], n_controls=2),
               dict(schedule=[25], dim=2, n_controls=1), dict(schedule=[30, 8], dim=3, n_controls=2), dict(schedule=[30], n_controls=2, scalar_prices=False),
               dict(schedule=[16], dim=2), dict(schedule=[12, 12], n_controls=1, correlated=False)]

    def run(self, tier, seed):
        from contracts.std_harness import run_schedule
        viol, ev = [], 0
        for kw in self.CONFIGS:
            for sd in ((5, 11) if tier == "quick" else (5, 11, 23, 47, 101)):
                ev += 1
                try:
                    pr = run_schedule(seed=sd, **kw)
                except Exception as e:
                    pr = [f"exception {type(e).__name__}: {e}"]
                if pr and not viol:
                    viol.append({"obligation": f"{self.name}::textbook-price-error-and-control-variates", "bounded": self.name, "witness": {"config": {**kw, "seed": sd}, "problems": pr[:3]}})
        # a payoff that returns an array it keeps (a stored coupon): the engine must not write into it (unit and non-unit notional)
        for notional in (1.0, 2.5):
            ev += 1
            try:
                pr = self.persistent_payoff_run(notional)
            except Exception as e:
                pr = [f"exception {type(e).__name__}: {e}"]
            if pr:
                viol.append({"obligation": f"{self.name}::engine-does-not-write-into-the-payoff's-own-array", "bounded": self.name, "witness": {"notional": notional, "problems": pr[:3]}})
                break
        # worker-pool branch: exactly the configured number of paths is simulated and stored, also with fewer paths than workers
        for n_paths, workers in ((3, 4), (10, 2)):
            ev += 1
            try:
                pr = self.pool_run(n_paths, workers)
            except Exception as e:
                pr = [f"exception {type(e).__name__}: {e}"]
            if pr:
                viol.append({"obligation": f"{self.name}::worker-pool-simulates-exactly-the-configured-paths", "bounded": self.name,
                             "witness": {"mc_paths": n_paths, "worker_processes": workers, "problems": pr[:3]}})
                break
        return {"name": self.name, "evaluations": ev, "distinct_nontrivial": ev, "violations": viol, "samples": [],
                "bound": f"{len(self.CONFIGS)} scripted configurations x seeds; at most 40 paths per price() call, at most 3 calls per engine; 2 worker-pool runs"}

    @staticmethod
    def persistent_payoff_run(notional):
        from contracts import std_harness as H
        from rpylib.montecarlo.configuration import ConfigurationStandard
        from rpylib.montecarlo.standard.engine import Engine
        from rpylib.product.product import Product
        from rpylib.product.payoff import PayoffOnTheFly
        coupon = np.array([100.0])
        keep = coupon.copy()
        Terminal = H._classes()
        prod = Product(payoff_underlying=Terminal(0), payoff=PayoffOnTheFly(lambda u: coupon), maturity=1.0, notional=notional)
        df, n = 0.9, 12
        eng = Engine(ConfigurationStandard(mc_paths=n, seed=1, nb_of_processes=1), H.ScriptedProcess(np.zeros((n, 1)), df))
        st = eng.price(prod)
        out = []
        if not np.array_equal(coupon, keep):
            out.append(f"the payoff's stored array was modified: {coupon.tolist()} (was {keep.tolist()})")
        price = float(np.ravel(st.price(no_control_variates=True))[0])
        if abs(price - df * notional * 100.0) > 1e-9:
            out.append(f"price {price} is not df * notional * coupon = {df * notional * 100.0}")
        return out

    @staticmethod
    def pool_run(n_paths, workers):
        import warnings
        with warnings.catch_warnings():
            warnings.simplefilter("ignore")
            from rpylib.model.utils import create_exponential_of_levy_model
            from rpylib.model.levymodel.levymodel import ModelType
            from rpylib.process.levyprocess import LevyProcess
            from rpylib.montecarlo.configuration import ConfigurationStandard
            from rpylib.montecarlo.standard.engine import Engine
            from rpylib.product.product import Product
            from rpylib.product.underlying import Spot
            from rpylib.product.payoff import PayoffOnTheFly
            m = create_exponential_of_levy_model(ModelType.HEM)(spot=100.0, r=0.02, d=0.0)
            prod = Product(payoff_underlying=Spot(), payoff=PayoffOnTheFly(lambda u: u), maturity=0.5)
            # the statistics arrays are allocated uninitialised: poison them so that a row nobody wrote is recognisable
            from unittest import mock
            real_empty = np.empty
            with mock.patch("numpy.empty", side_effect=lambda shape, *a, **k: (lambda arr: (arr.fill(np.nan) if arr.dtype.kind == "f" else None) or arr)(real_empty(shape, *a, **k))):
                st = Engine(ConfigurationStandard(mc_paths=n_paths, seed=None, nb_of_processes=workers), LevyProcess(m)).price(prod)
        rows = np.ravel(np.asarray(st._payoff_statistics.stats, dtype=float))
        out = []
        if rows.size != n_paths:
            out.append(f"{rows.size} rows for {n_paths} configured paths")
        if not np.all(np.isfinite(rows)) or np.any(rows <= 0) or np.any(rows > 1e4):
            out.append(f"rows that were never simulated (terminal spot must be a positive number): {rows.tolist()[:6]}")
        if not np.isclose(float(np.ravel(st.price(no_control_variates=True))[0]), rows.mean()):
            out.append("price is not the mean of the stored rows")
        return out

    def replay(self, rec):
        from contracts.std_harness import run_schedule
        kw = dict(rec.get("witness", {}).get("config", {}))
        pr = run_schedule(**kw) if kw else []
        return (bool(pr), {"problems": pr[:3]})


UNITS = [EnginePrice(), EngineInitialisation(), PriceAndError(), ControlVariate(), ControlVariate2(), ComputeCoefficients(), ControlUnderlyings(), ControlReadsItsPath()]
ASSUMPTIONS = ["A1: floats are mathematical reals", "the payoff of a path is a function of the path (C17); simulate_one_path returns a fresh path per call",
               f"estimator algebra: every sample size n <= {N_SAMPLES} (symbolic values)"]
TRUSTED_BASE = ["z3 5.1 (LRA/NRA + arrays)", "pyvc interpreter + numpy models (mean, std, cov, inv for 1x1/2x2)"]
BOUNDED = [StandardEngineBattery()]
