"""C16 — the SDE scheme is the Euler scheme of its driver; rate models discount sanely."""
import numpy as np
import z3

from pyvc.contract import FunctionContract, Lemma, VC, Req
from pyvc.sym import And, Or, Not, Implies, If, Eq, compare, smax, smin, is_sym, Sym, lift, as_real_term, as_int_term, INF, PyRaise

PROPERTY_ID = "C16"
LEVEL = "proof"
N_TENORS = 3


class DiscountFactor(Lemma):
    """df of the Libor / forward-market models for m tenors T_0 < ... (initial rates >= 0): df(0) = 1, df > 0, df is
    non-increasing on every pair of times, and continuous at every tenor (the value at T_k equals the limit from the right)."""
    prop = "C16"
    cases = tuple((cls, k) for cls in ("levylibormodel:LevyLiborModel", "levyforwardmodel:LevyForwardModel") for k in ("monotone", "tenor-continuity", "at-zero")) \
        + tuple((cls, k, "rates reassigned") for cls in ("levylibormodel:LevyLiborModel", "levyforwardmodel:LevyForwardModel") for k in ("monotone", "tenor-continuity"))

    def __init__(self):
        self.name = "property:rate-model-df"

    def _model(self, vc, cls, reassigned=False):
        """the model built by its REAL constructor (tenor list, driver abstract); reassigned: built with other initial rates,
        x0 assigned afterwards (the attribute the simulation and the discount factor read)"""
        m = N_TENORS
        T = vc.reals("tenor", m)
        x0 = vc.reals("rate", m - 1)
        vc.assume(And(T[0] > 0, *[a < b for a, b in zip(T, T[1:])], *[x >= 0 for x in x0]))
        it = vc.interp
        it.hooks["rpylib.model.levymodel.levymodel:LevyModel.dimension"] = lambda it_, f, b: 1
        it.hooks["rpylib.model.levymodel.levymodel:LevyModel.finite_first_moment"] = lambda it_, f, b: True
        it.hooks["rpylib.model.model:Model.__init__"] = lambda it_, f, b: None
        driver = vc.obj("rpylib.model.levymodel.levymodel:LevyModel")
        sg = np.array(vc.reals("sigma", m - 1), dtype=object).reshape(m - 1, 1)
        first = x0
        if reassigned:
            first = vc.reals("rate_at_construction", m - 1)
            vc.assume(And(*[x >= 0 for x in first]))
        kw = {"libor_rates" if "Libor" in cls else "ois_rates": np.array(first, dtype=object)}
        o = vc.new("rpylib.model.levydrivensde." + cls, tenors=list(T), sigma=sg, driver=driver, **kw)
        if reassigned:
            it.setattr(o, "x0", np.array(x0, dtype=object))
        return o, T, x0

    def prove(self, vc, case):
        cls, kind = case[:2]
        re_ = len(case) > 2
        nm = f"{self.name}[{cls.split(':')[1]}{',initial rates reassigned after construction' if re_ else ''}]"
        o, T, x0 = self._model(vc, cls, reassigned=re_)
        if kind == "at-zero":
            vc.check(nm + "::df(0)=1", vc.method(o, "df", 0.0) == 1)
            t = vc.real("t")
            vc.assume(And(t >= 0, t <= T[-1]))
            vc.check(nm + "::positive", vc.method(o, "df", t) > 0)
        elif kind == "monotone":
            t1, t2 = vc.real("t1"), vc.real("t2")
            vc.assume(And(0 <= t1, t1 < t2, t2 <= T[-1]))
            d1, d2 = vc.method(o, "df", t1), vc.method(o, "df", t2)
            vc.check(nm + "::non-increasing", d1 >= d2)
        else:
            k = vc.int("k")
            vc.assume(And(k >= 0, k < len(T) - 1))
            Tk = T[0]
            for i in range(1, len(T) - 1):
                Tk = If(k == i, T[i], Tk)
            eps = vc.real("eps")
            nxt = T[1]
            for i in range(1, len(T) - 1):
                nxt = If(k == i, T[i + 1], nxt)
            vc.assume(And(eps > 0, Tk + eps <= nxt))
            at = vc.method(o, "df", Tk)
            after = vc.method(o, "df", Tk + eps)
            # continuity: |df(T_k + eps) - df(T_k)| <= eps * max rate * df(T_k)  (so it tends to 0 with eps)
            rmax = smax(list(x0))
            vc.check(nm + "::continuous-at-every-tenor", And(after <= at, at - after <= eps * rmax * at))

    def replay(self, model, clause, case):
        cls, kind = case[:2]
        import importlib
        from contracts import battery
        mod, cn = cls.split(":")
        M = getattr(importlib.import_module("rpylib.model.levydrivensde." + mod), cn)
        tenors = [1.0, 1.4, 3.0, 4.0]
        rates = np.array([0.02, 0.03, 0.04])
        first = np.array([0.05, 0.01, 0.02]) if len(case) > 2 else rates
        kw = {"libor_rates" if "Libor" in cn else "ois_rates": first.copy()}
        o = M(tenors=list(tenors), sigma=np.array([[0.2], [0.1], [0.15]]), driver=battery.models(("hem",))["hem"], **kw)
        if len(case) > 2:
            o.x0 = rates.copy()
        ts = np.linspace(0.0, 4.0, 4001)
        d = np.array([o.df(float(t)) for t in ts])
        jumps = np.abs(np.diff(d))
        bad = d[0] != 1.0 or np.any(d <= 0) or np.any(np.diff(d) > 1e-12) or np.max(jumps) > 1e-3
        i = int(np.argmax(np.diff(d))) if np.any(np.diff(d) > 1e-12) else int(np.argmax(jumps))
        return (bool(bad), {"tenors": o.tenors.tolist(), "rates": o.x0.tolist(), "t": float(ts[i]), "df(t)": float(d[i]), "df(t+0.001)": float(d[i + 1])})


SD = "rpylib.process.markovchain.markovchainsde:"
LD = "rpylib.model.levydrivensde.levydrivensde:"


class Euler(Lemma):
    """MarkovChainSDE.simulate_one_path on a driver path with n steps (times, Brownian and jump components symbolic):
    X_{i+1} = X_i + (sde drift + a(t_i, X_i) driver drift) dt_i + a(t_i, X_i)(dW_i + dL_i) on the driver's own time grid;
    constant a: X_T = x0 + a * Y_T; a(x) = diag(x): X_T = x0 * prod(1 + dY_i)."""
    prop = "C16"
    # TimeFn: a(t, x) = G(t) and sde drift D(t), both uninterpreted functions of time: the scheme evaluates them at the LEFT
    # end point t_i of every step
    cases = tuple((coef, m, n) for coef in ("Constant", "DiagX") for m, n in ((1, 1), (1, 2), (1, 3), (2, 1), (2, 2))) + (("TimeFn", 1, 2), ("TimeFn", 1, 3))

    def __init__(self):
        self.name = "property:euler-scheme"

    def prove(self, vc, case):
        coef, m, n = case
        nm = f"{self.name}[{coef},m=d={m},steps={n}]"
        it = vc.interp
        ts = vc.reals("t", n + 1)
        vc.assume(And(ts[0] == 0, *[a < b for a, b in zip(ts, ts[1:])]))
        W = np.array(vc.reals("W", m * (n + 1)), dtype=object).reshape(m, n + 1)
        Lp = np.array(vc.reals("L", m * (n + 1)), dtype=object).reshape(m, n + 1)
        x0 = np.array(vc.reals("x0", m), dtype=object)
        drift = vc.reals("driver_drift", m)
        c = vc.real("a_constant")
        G = z3.Function("coefficient_at_time", z3.RealSort(), z3.RealSort())
        D = z3.Function("sde_drift_at_time", z3.RealSort(), z3.RealSort())
        Gs = lambda t_: Sym(G(as_real_term(lift(t_))), "r")
        Ds = lambda t_: Sym(D(as_real_term(lift(t_))), "r")
        if coef == "TimeFn":
            a_obj = it.lib.Model(lambda i_, t_, x_: np.array([[Gs(t_)]], dtype=object), "a(t, x) = G(t)")
            it.hooks[LD + "LevyDrivenSDEModel.drift"] = lambda i_, f, b: np.array([[Ds(b["t"])]], dtype=object)
        else:
            a_obj = vc.new(LD + "Constant", m, m, c) if coef == "Constant" else vc.new(LD + "DiagX", m)
        x0_before = list(x0)
        model = vc.obj(LD + "LevyDrivenSDEModel", x0=x0, a=a_obj, _m=m, _d=m)
        path = vc.new("rpylib.montecarlo.path:StochasticJumpPath", np.array(ts, dtype=object), W, Lp)
        mc_drift = drift[0] if m == 1 else np.array(drift, dtype=object).reshape(m, 1)
        mcp = it.get_class("rpylib.process.markovchain.markovchain:MarkovChainProcess")
        it.hooks[mcp.find("simulate_one_path")[0].fq] = lambda i_, f, b: path
        it.hooks[mcp.find("process_drift")[0].fq] = lambda i_, f, b: mc_drift
        chain = vc.obj("rpylib.process.markovchain.markovchain:MarkovChainProcess")
        proc = vc.obj(SD + "MarkovChainSDE", model=model, markov_chain=chain)
        try:
            res = vc.method(proc, "simulate_one_path")
        except PyRaise as e:
            vc.check(nm + "::evaluates-without-exception", False)
            vc.path.results[-1].detail = str(e)
            return
        val = vc.method(res, "value")            # drift + diffusion + jump components, shape (m, n+1)
        # spec recursion (the scheme of the property text)
        X = [list(x0)]
        for i in range(n):
            dt = ts[i + 1] - ts[i]
            cur = X[-1]
            nxt = []
            for r in range(m):
                if coef == "Constant":
                    row = [c] * m
                elif coef == "TimeFn":
                    row = [Gs(ts[i])]
                else:
                    row = [cur[r] if k == r else 0 for k in range(m)]
                inc = sum((row[k] * (drift[k] * dt + (W[k, i + 1] - W[k, i]) + (Lp[k, i + 1] - Lp[k, i])) for k in range(m)), 0)
                if coef == "TimeFn":
                    inc = inc + Ds(ts[i]) * dt
                nxt.append(cur[r] + inc)         # sde drift of LevyDrivenSDEModel is 0
            X.append(nxt)
        ok_shape = isinstance(val, np.ndarray) and val.shape == (m, n + 1)
        vc.check(nm + "::path-shape", ok_shape)
        if not ok_shape:
            return
        vc.check(nm + "::euler-recursion-on-the-driver's-grid", And(*[x0_before[r] + val[r, i] == X[i][r] for r in range(m) for i in range(n + 1)]))
        x0_after = list(np.ravel(np.asarray(model.fields["x0"], dtype=object)))
        vc.check(nm + "::the-model's-initial-value-is-untouched", len(x0_after) == m and And(*[compare(x0_after[r], x0_before[r], "==") for r in range(m)]))
        if coef == "TimeFn":
            return
        x0 = np.array(x0_before, dtype=object)
        YT = [drift[k] * (ts[n] - ts[0]) + (W[k, n] - W[k, 0]) + (Lp[k, n] - Lp[k, 0]) for k in range(m)]
        if coef == "Constant":
            vc.check(nm + "::constant-coefficient-gives-x0-plus-a-times-driver", And(*[x0[r] + val[r, n] == x0[r] + c * sum(YT, 0) for r in range(m)]))
        else:
            prod = []
            for r in range(m):
                p_ = x0[r]
                for i in range(n):
                    p_ = p_ * (1 + drift[r] * (ts[i + 1] - ts[i]) + (W[r, i + 1] - W[r, i]) + (Lp[r, i + 1] - Lp[r, i]))
                prod.append(p_)
            vc.check(nm + "::diagonal-coefficient-gives-x0-times-product-of-(1+dY)", And(*[x0[r] + val[r, n] == prod[r] for r in range(m)]))
        vc.check(nm + "::times-are-the-driver's", all(a_ is b_ or (not is_sym(a_) and a_ == b_) for a_, b_ in zip(list(res.fields["jump_times"]), ts)))

    def replay(self, model, clause, case):
        coef, m, n = case
        from types import SimpleNamespace
        from rpylib.process.markovchain.markovchainsde import MarkovChainSDE
        from rpylib.model.levydrivensde.levydrivensde import Constant, DiagX
        from rpylib.montecarlo.path import StochasticJumpPath
        rng = np.random.default_rng(3)
        ts = np.concatenate(([0.0], np.sort(rng.uniform(0.1, 1.0, n))))
        W, Lp = rng.normal(size=(m, n + 1)) * 0.1, rng.normal(size=(m, n + 1)) * 0.1
        W[:, 0] = 0
        Lp[:, 0] = 0
        x0 = np.arange(1.0, m + 1.0)
        drift = 0.05 * np.arange(1, m + 1)
        gt = lambda t: 0.4 + 0.3 * t
        a = Constant(m, m, 0.7) if coef == "Constant" else (DiagX(m) if coef == "DiagX" else (lambda t, x: np.array([[gt(t)]])))
        proc = MarkovChainSDE.__new__(MarkovChainSDE)
        x0_kept = x0.copy()
        proc.model = SimpleNamespace(x0=x0, a=a, dimension=lambda: m, drift=lambda t, x: np.zeros_like(x), x0_value=lambda: x0)
        mc_drift = drift[0] if m == 1 else drift.reshape(m, 1)
        proc.markov_chain = SimpleNamespace(simulate_one_path=lambda: StochasticJumpPath(ts, W, Lp), process_drift=lambda: mc_drift)
        try:
            val = proc.simulate_one_path().value()
        except Exception as e:
            return (True, {"coefficient": coef, "m": m, "steps": n, "exception": f"{type(e).__name__}: {e}"})
        X = x0_kept.copy()
        for i in range(n):
            dY = drift * (ts[i + 1] - ts[i]) + (W[:, i + 1] - W[:, i]) + (Lp[:, i + 1] - Lp[:, i])
            X = X + (0.7 * dY.sum() if coef == "Constant" else (X * dY if coef == "DiagX" else gt(ts[i]) * dY))
        got = x0_kept + np.asarray(val)[:, -1] if np.asarray(val).shape == (m, n + 1) else None
        if "untouched" in clause:
            return (not np.allclose(x0, x0_kept), {"coefficient": coef, "m": m, "steps": n, "x0_before": x0_kept.tolist(), "x0_after_one_path": np.asarray(x0).tolist()})
        return (got is None or not np.allclose(got, X), {"coefficient": coef, "m": m, "steps": n, "native_X_T": None if got is None else got.tolist(), "euler_X_T": X.tolist()})


class CoupledEuler(Lemma):
    """CouplingSDE.simulate_one_path_with_coupling (real body) on a coupled driver path with n steps, m = d = 1 (times, both
    Brownian and both jump components symbolic): each component follows the scheme of the property text on the driver's
    grid -- the fine one with the fine driver path and drift mc_drift_h, the coarse one with the coarse path and mc_drift_2h,
    the coefficient and the SDE drift evaluated at the LEFT end point t_i (a(t, x) = G(t) x; sde drift D_fine(t), D_coarse(t):
    uninterpreted functions of time, one per component -- the scheme's drift depends on the level), and the model's initial
    value is left untouched."""
    prop = "C16"
    cases = (1, 2)

    def __init__(self):
        self.name = "property:coupled-euler-scheme"

    def prove(self, vc, n):
        nm = f"{self.name}[steps={n}]"
        it = vc.interp
        ts = vc.reals("t", n + 1)
        vc.assume(And(ts[0] == 0, *[a < b for a, b in zip(ts, ts[1:])]))
        W = np.array(vc.reals("W", 2 * (n + 1)), dtype=object).reshape(2, n + 1)
        Lp = np.array(vc.reals("L", 2 * (n + 1)), dtype=object).reshape(2, n + 1)
        x0s = vc.real("x0")
        x0 = np.array([x0s], dtype=object)
        dh, d2h = vc.real("driver_drift_fine"), vc.real("driver_drift_coarse")
        G = z3.Function("coefficient_at_time", z3.RealSort(), z3.RealSort())
        # the drift of the SDE scheme depends on the level (grid): one uninterpreted function of time per component
        D = z3.Function("sde_drift_of_component_at_time", z3.IntSort(), z3.RealSort(), z3.RealSort())
        Gs = lambda t_: Sym(G(as_real_term(lift(t_))), "r")
        Ds = lambda t_, comp=0: Sym(D(z3.IntVal(comp), as_real_term(lift(t_))), "r")

        def a_fn(i_, t_, x_):
            X = np.asarray(x_, dtype=object)
            if X.ndim == 3:        # stacked (fine, coarse) states: one 1 x 1 matrix per component
                return np.array([[[Gs(t_) * X[k, 0, 0]]] for k in range(X.shape[0])], dtype=object)
            return np.array([[Gs(t_) * np.ravel(X)[0]]], dtype=object)
        a_obj = it.lib.Model(a_fn, "a(t, x) = G(t) x")
        model = vc.obj(LD + "LevyDrivenSDEModel", x0=x0, a=a_obj, _m=1, _d=1)
        it.hooks[LD + "LevyDrivenSDEModel.dimension"] = lambda i_, f, b: 1
        fine = vc.obj(SD + "MarkovChainSDE", model=model)
        it.hooks[SD + "MarkovChainSDE.sde_drift"] = lambda i_, f, b: np.array([[Ds(b["t"], 7)]], dtype=object)      # the level-0 process' own: neither component's
        drift_fn = lambda comp: it.lib.Model(lambda i_, t_, x_: np.array([[Ds(t_, comp)]], dtype=object), f"sde drift of component {comp}")
        path = vc.new("rpylib.montecarlo.path:StochasticJumpPath", np.array(ts, dtype=object), W, Lp)
        CS = "rpylib.process.coupling.couplingsde:"
        drv = vc.obj("rpylib.process.coupling.couplingmarkovchain:CouplingMarkovChain")
        it.hooks["rpylib.process.coupling.couplingmarkovchain:CouplingMarkovChain.simulate_one_path_with_coupling"] = lambda i_, f, b: path
        o = vc.obj(CS + "CouplingSDE", model=model, fine_process=fine, mc_drift_h=dh, mc_drift_2h=d2h, driver_coupling_process=drv,
                   sde_drift_h=drift_fn(0), sde_drift_2h=drift_fn(1))
        try:
            res = vc.method(o, "simulate_one_path_with_coupling")
            val = vc.method(res, "value")
        except PyRaise as e:
            vc.check(nm + "::evaluates-without-exception", False)
            vc.path.results[-1].detail = str(e)
            return
        val = np.asarray(val, dtype=object)
        ok_shape = val.shape in ((2, 1, n + 1), (2, n + 1))
        vc.check(nm + "::path-shape", ok_shape)
        if not ok_shape:
            return
        val = val.reshape(2, n + 1)
        for comp, drift, tag in ((0, dh, "fine"), (1, d2h, "coarse")):
            X = [x0s]
            for i in range(n):
                dt = ts[i + 1] - ts[i]
                cur = X[-1]
                X.append(cur + Ds(ts[i], comp) * dt + Gs(ts[i]) * cur * (drift * dt + (W[comp, i + 1] - W[comp, i]) + (Lp[comp, i + 1] - Lp[comp, i])))
            vc.check(nm + f"::{tag}-component-follows-the-euler-recursion-on-the-driver's-grid", And(*[x0s + val[comp, i] == X[i] for i in range(n + 1)]))
        x0_after = list(np.ravel(np.asarray(model.fields["x0"], dtype=object)))
        vc.check(nm + "::the-model's-initial-value-is-untouched", len(x0_after) == 1 and compare(x0_after[0], x0s, "=="))

    def replay(self, model, clause, n):
        from types import SimpleNamespace
        from rpylib.process.coupling.couplingsde import CouplingSDE
        from rpylib.montecarlo.path import StochasticJumpPath
        rng = np.random.default_rng(5)
        ts = np.concatenate(([0.0], np.sort(rng.uniform(0.1, 1.0, n))))
        W, Lp = rng.normal(size=(2, n + 1)) * 0.1, rng.normal(size=(2, n + 1)) * 0.1
        W[:, 0] = 0
        Lp[:, 0] = 0
        gt, dt_ = (lambda t: 0.4 + 0.3 * t), (lambda t: 0.02 - 0.05 * t)
        x0 = np.array([1.5])
        x0_kept = x0.copy()

        def a(t, x):
            x = np.asarray(x)
            return gt(t) * x.reshape(x.shape[0], 1, 1) if x.ndim == 3 else np.array([[gt(t) * np.ravel(x)[0]]])
        o = CouplingSDE.__new__(CouplingSDE)
        o.model = SimpleNamespace(x0=x0, a=a, dimension=lambda: 1, x0_value=lambda: x0)
        o.fine_process = SimpleNamespace(sde_drift=lambda t, x: np.full_like(np.asarray(x, dtype=float), 9.0))       # neither component's
        o.sde_drift_h = lambda t, x: np.full_like(np.asarray(x, dtype=float), dt_(t))
        o.sde_drift_2h = lambda t, x: np.full_like(np.asarray(x, dtype=float), 2.0 * dt_(t))
        o.mc_drift_h, o.mc_drift_2h = 0.05, 0.03
        o.driver_coupling_process = SimpleNamespace(simulate_one_path_with_coupling=lambda: StochasticJumpPath(ts, W, Lp))
        try:
            val = np.asarray(o.simulate_one_path_with_coupling().value()).reshape(2, n + 1)
        except Exception as e:
            return (True, {"steps": n, "exception": f"{type(e).__name__}: {e}"})
        info = {"steps": n, "times": ts.tolist()}
        bad = False
        for comp, drift in ((0, 0.05), (1, 0.03)):
            X = x0_kept[0]
            for i in range(n):
                d = ts[i + 1] - ts[i]
                X = X + (1 + comp) * dt_(ts[i]) * d + gt(ts[i]) * X * (drift * d + (W[comp, i + 1] - W[comp, i]) + (Lp[comp, i + 1] - Lp[comp, i]))
            got = x0_kept[0] + val[comp, -1]
            info[f"component{comp}"] = {"native_X_T": float(got), "euler_X_T": float(X)}
            bad = bad or abs(got - X) > 1e-10
        if "untouched" in clause:
            return (not np.allclose(x0, x0_kept), {"x0_before": x0_kept.tolist(), "x0_after_one_path": x0.tolist()})
        return (bool(bad), info)


class RateCoefficientFunctions(Lemma):
    """the coefficient functions of the two rate models (real sigma(t) bodies; m = 2 rates, d = 1 or 2 driver dimensions,
    tenors T0 < T1 < T2 and sigma symbolic), for a time in each region up to the last tenor: the result is an m x d matrix;
    Libor: row i is sigma_i before its fixing T_i and 0 from T_i on; forward market: row i is sigma_i times
    min(1, max(0, T_{i+1} - t) / (T_{i+1} - T_i)) -- sigma_i before T_i, linearly decreasing on [T_i, T_{i+1}], 0 afterwards."""
    prop = "C16"
    cases = tuple((cls, d, reg) for cls in ("LiborSDEFunction", "ForwardMarketSDEFunction") for d in (1, 2) for reg in ("t<T0", "T0<=t<T1", "T1<=t<T2"))

    def __init__(self):
        self.name = "property:rate-coefficient-functions"

    def prove(self, vc, case):
        from pyvc.sym import PyRaise
        cls, d, reg = case
        nm = f"{self.name}[{cls},d={d},{reg}]"
        m = 2
        T = vc.reals("tenor", m + 1)
        sg = vc.reals("sigma", m * d)
        t = vc.real("t")
        vc.assume(And(T[0] > 0, T[0] < T[1], T[1] < T[2], t >= 0))
        vc.assume({"t<T0": t < T[0], "T0<=t<T1": And(T[0] <= t, t < T[1]), "T1<=t<T2": And(T[1] <= t, t < T[2])}[reg])
        S0 = np.array(sg, dtype=object).reshape(m, d)
        f = vc.new(LD + cls, S0.copy(), np.array(T, dtype=object))
        try:
            res = vc.method(f, "sigma", t)
        except PyRaise as e:
            vc.check(nm + f"::returns-a-matrix[{e.exc_type}]", False)
            return
        res = np.asarray(res, dtype=object)
        vc.check(nm + "::shape-is-m-by-d", res.shape == (m, d))
        if res.shape != (m, d):
            return
        for i in range(m):
            if cls == "LiborSDEFunction":
                fixed = {"t<T0": False, "T0<=t<T1": i == 0, "T1<=t<T2": True}[reg]
                want = [0.0 if fixed else S0[i, j] for j in range(d)]
            else:
                g = smin(1, smax(0, T[i + 1] - t) / (T[i + 1] - T[i]))
                want = [S0[i, j] * g for j in range(d)]
            vc.check(nm + f"::row{i}", And(*[compare(res[i, j], want[j], "==") for j in range(d)]))
        vc.check(nm + "::the-model's-own-volatility-matrix-is-untouched", And(*[compare(f.fields["_sigma"][i, j], S0[i, j], "==") for i in range(m) for j in range(d)]))

    def replay(self, model, clause, case):
        import importlib
        cls, d, reg = case
        C = getattr(importlib.import_module("rpylib.model.levydrivensde.levydrivensde"), cls)
        T = np.array([1.0, 2.0, 3.5])
        S0 = np.array([[0.2, 0.05], [0.1, 0.3]])[:, :d]
        t = {"t<T0": 0.5, "T0<=t<T1": 1.25, "T1<=t<T2": 2.6}[reg]
        try:
            res = np.asarray(C(S0.copy(), T).sigma(t), dtype=float)
        except Exception as e:
            return (True, {"class": cls, "t": t, "exception": f"{type(e).__name__}: {e}"})
        if cls == "LiborSDEFunction":
            want = S0 * (T[:-1] > t)[:, None]
        else:
            want = S0 * np.minimum(1, np.maximum(0, T[1:] - t) / np.diff(T))[:, None]
        return (res.shape != want.shape or not np.allclose(res, want), {"class": cls, "t": t, "sigma(t)": res.tolist(), "expected": want.tolist()})


class RateModelConstructor(Lemma):
    """LevyLiborModel / LevyForwardModel constructors (real bodies; the driver abstract), tenors given as a PYTHON LIST -- what
    the annotation `list[float]` announces and what the library's own factories pass: the coefficient function the constructor
    builds evaluates at a time from the first tenor on (rows as in the coefficient-function lemma), the model's tenors are
    the sorted tenors and its accrual periods `deltas` their successive differences."""
    prop = "C16"
    cases = tuple((cls, reg) for cls in ("levylibormodel:LevyLiborModel", "levyforwardmodel:LevyForwardModel") for reg in ("t<T0", "T0<=t<T1"))

    def __init__(self):
        self.name = "property:rate-model-constructor"

    def prove(self, vc, case):
        from pyvc.sym import PyRaise
        cls, reg = case
        nm = f"{self.name}[{cls.split(':')[1]},{reg}]"
        m, d = 2, 1
        T = vc.reals("tenor", m + 1)
        sg = vc.reals("sigma", m * d)
        x0 = vc.reals("rate", m)
        t = vc.real("t")
        vc.assume(And(T[0] > 0, T[0] < T[1], T[1] < T[2], t >= 0))
        vc.assume({"t<T0": t < T[0], "T0<=t<T1": And(T[0] <= t, t < T[1])}[reg])
        S0 = np.array(sg, dtype=object).reshape(m, d)
        driver = vc.obj("rpylib.model.levymodel.levymodel:LevyModel")
        it = vc.interp
        it.hooks["rpylib.model.levymodel.levymodel:LevyModel.dimension"] = lambda it_, f, b: d
        it.hooks["rpylib.model.levymodel.levymodel:LevyModel.finite_first_moment"] = lambda it_, f, b: True
        it.hooks["rpylib.model.model:Model.__init__"] = lambda it_, f, b: None
        kw = {"libor_rates" if "Libor" in cls else "ois_rates": np.array(x0, dtype=object)}
        try:
            mod = vc.new("rpylib.model.levydrivensde." + cls, tenors=list(T), sigma=S0.copy(), driver=driver, **kw)
        except PyRaise as e:
            vc.check(nm + f"::constructs[{e.exc_type}]", False)
            return
        tn = np.asarray(mod.fields["tenors"], dtype=object)
        vc.check(nm + "::tenors-are-the-sorted-tenors", tn.shape == (m + 1,) and And(*[compare(tn[i], T[i], "==") for i in range(m + 1)]))
        dl = np.asarray(mod.fields["deltas"], dtype=object)
        vc.check(nm + "::deltas-are-the-accrual-periods", dl.shape == (m,) and And(*[compare(dl[i], T[i + 1] - T[i], "==") for i in range(m)]))
        try:
            res = vc.method(mod.fields["a"], "sigma", t)
        except PyRaise as e:
            vc.check(nm + f"::coefficient-function-evaluates[{e.exc_type}]", False)
            return
        res = np.asarray(res, dtype=object)
        ok = res.shape == (m, d)
        vc.check(nm + "::coefficient-function-evaluates", ok)
        if not ok:
            return
        for i in range(m):
            if "Libor" in cls:
                fixed = {"t<T0": False, "T0<=t<T1": i == 0}[reg]
                want = [0.0 if fixed else S0[i, j] for j in range(d)]
            else:
                g = smin(1, smax(0, T[i + 1] - t) / (T[i + 1] - T[i]))
                want = [S0[i, j] * g for j in range(d)]
            vc.check(nm + f"::coefficient-row{i}", And(*[compare(res[i, j], want[j], "==") for j in range(d)]))

    def replay(self, model, clause, case):
        import importlib
        cls, reg = case
        mn, cn = cls.split(":")
        C = getattr(importlib.import_module("rpylib.model.levydrivensde." + mn), cn)
        from contracts import battery
        driver = battery.models(("hem",))["hem"]
        T = [1.0, 2.0, 3.5]
        S0 = np.array([[0.2], [0.1]])
        t = {"t<T0": 0.5, "T0<=t<T1": 1.25}[reg]
        try:
            kw = {"libor_rates" if "Libor" in cn else "ois_rates": np.array([0.02, 0.03])}
            mod = C(tenors=list(T), sigma=S0.copy(), driver=driver, **kw)
            res = np.asarray(mod.a.sigma(t), dtype=float)
        except Exception as e:
            return (True, {"class": cn, "tenors (list)": T, "t": t, "exception": f"{type(e).__name__}: {e}"})
        Ta = np.array(T)
        want = S0 * (Ta[:-1] > t)[:, None] if "Libor" in cn else S0 * np.minimum(1, np.maximum(0, Ta[1:] - t) / np.diff(Ta))[:, None]
        bad = res.shape != want.shape or not np.allclose(res, want) or not np.allclose(mod.deltas, np.diff(Ta)) or not np.allclose(mod.tenors, Ta)
        return (bool(bad), {"class": cn, "t": t, "sigma(t)": res.tolist(), "expected": want.tolist(), "deltas": np.asarray(mod.deltas).tolist()})


class ExponentialDf(Lemma):
    """ExponentialOfLevyModel.df(t) = exp(-r t): 1 at 0, positive, non-increasing for r >= 0 (continuity: it is exp of a
    continuous function); LevyModel.df and LevyDrivenSDEModel.df are identically 1."""
    prop = "C16"
    name = "property:exponential-and-constant-df"

    def prove(self, vc, case):
        r, t1, t2 = vc.real("r"), vc.real("t1"), vc.real("t2")
        vc.assume(And(r >= 0, 0 <= t1, t1 <= t2))
        o = vc.obj("rpylib.model.levymodel.exponentialoflevymodel:ExponentialOfLevyModel", r=r)
        d0, d1, d2 = vc.method(o, "df", 0.0), vc.method(o, "df", t1), vc.method(o, "df", t2)
        vc.check(self.name + "::exponential:one-at-zero", d0 == 1)
        vc.check(self.name + "::exponential:positive", And(d1 > 0, d2 > 0))
        vc.check(self.name + "::exponential:non-increasing", d2 <= d1)
        for cls in ("rpylib.model.levymodel.levymodel:LevyModel", LD + "LevyDrivenSDEModel"):
            vc.check(self.name + f"::{cls.split(':')[1]}:identically-one", vc.method(vc.obj(cls), "df", t1) == 1)


UNITS = [DiscountFactor(), Euler(), CoupledEuler(), RateCoefficientFunctions(), RateModelConstructor(), ExponentialDf()]


def LATE_UNITS():
    # "for both components of the coupled pair ... all levels of the coupling": which chain drift each component of the
    # coupled SDE uses after every level change is the contract of CouplingSDE.next_level (kept with the coupling, c03)
    from contracts import c03
    return [c03.SDENextLevel()]

ASSUMPTIONS = ["A1: floats are mathematical reals", f"rate models with {N_TENORS} tenors (bounded in the number of tenors, complete in tenor dates, rates and times)"]
TRUSTED_BASE = ["z3 5.1 (NRA)", "pyvc interpreter + numpy models"]


class CoupledEulerBounded:
    """B2 (native, bounded): CouplingSDE.simulate_one_path_with_coupling on scripted coupled driver paths (random times /
    increments, m = d = 1 and 2, 1..4 steps): both components follow the Euler recursion, the fine one with the fine driver
    path and drift mc_drift_h, the coarse one with the coarse path and mc_drift_2h."""
    name = "bounded:coupled-euler"
    tier = "quick"

    def run(self, tier, seed):
        from types import SimpleNamespace
        from rpylib.process.coupling.couplingsde import CouplingSDE
        from rpylib.model.levydrivensde.levydrivensde import Constant, DiagX
        from rpylib.montecarlo.path import StochasticJumpPath
        rng = np.random.default_rng(11 + seed)
        ev, viol, samples = 0, {}, []
        for coef in ("Constant", "DiagX"):
            for m in (1, 2):
                for n in (1, 2, 4):
                    ev += 1
                    ts = np.concatenate(([0.0], np.sort(rng.uniform(0.05, 1.0, n))))
                    W = rng.normal(size=(2, m, n + 1)) * 0.1
                    Lp = rng.normal(size=(2, m, n + 1)) * 0.1
                    W[..., 0] = 0
                    Lp[..., 0] = 0
                    x0 = np.arange(1.0, m + 1.0)
                    dh, d2h = 0.05 * np.arange(1, m + 1), 0.03 * np.arange(1, m + 1)
                    a = Constant(m, m, 0.7) if coef == "Constant" else DiagX(m)
                    o = CouplingSDE.__new__(CouplingSDE)
                    o.model = SimpleNamespace(x0=x0, a=a, dimension=lambda m=m: m)
                    o.fine_process = SimpleNamespace(sde_drift=lambda t, x: np.zeros_like(x))
                    o.sde_drift_h = o.sde_drift_2h = lambda t, x: np.zeros_like(x)        # these SDEs have no drift of their own
                    o.mc_drift_h = dh[0] if m == 1 else dh.reshape(m, 1)
                    o.mc_drift_2h = d2h[0] if m == 1 else d2h.reshape(m, 1)
                    o.driver_coupling_process = SimpleNamespace(simulate_one_path_with_coupling=lambda: StochasticJumpPath(ts, W if m > 1 else W[:, 0, :], Lp if m > 1 else Lp[:, 0, :]))
                    info = {"coefficient": coef, "m": m, "steps": n}
                    try:
                        val = np.asarray(o.simulate_one_path_with_coupling().value())
                        ok = True
                        for comp, drift in ((0, dh), (1, d2h)):
                            X = x0.copy()
                            for i in range(n):
                                dY = drift * (ts[i + 1] - ts[i]) + (W[comp][:, i + 1] - W[comp][:, i]) + (Lp[comp][:, i + 1] - Lp[comp][:, i])
                                X = X + (0.7 * dY.sum() if coef == "Constant" else X * dY)
                            got = x0 + val[comp].reshape(m, -1)[:, -1]
                            ok = ok and np.allclose(got, X)
                            info[f"component{comp}"] = {"native": got.tolist(), "euler": X.tolist()}
                    except Exception as e:
                        ok = False
                        info["exception"] = f"{type(e).__name__}: {e}"
                    if len(samples) < 2:
                        samples.append(info)
                    if not ok:
                        viol.setdefault(coef + str(m), {"obligation": f"{self.name}[{coef},m={m}]::both-components-follow-the-euler-recursion", "bounded": self.name, "witness": info})
        return {"name": self.name, "evaluations": ev, "distinct_nontrivial": ev, "violations": list(viol.values()), "samples": samples,
                "bound": "Constant / DiagX x m in {1,2} x steps in {1,2,4}, one random scripted path each"}

    def replay(self, rec):
        r = self.run("quick", 0)
        hit = [v for v in r["violations"] if v["obligation"] == rec["obligation"]]
        return (bool(hit), hit[0]["witness"] if hit else {})


BOUNDED = [CoupledEulerBounded()]
