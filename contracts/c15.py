"""C15 — simulated paths are running sums on the product dates within the time-step cap.

The real simulate_one_path / simulate_jumps / simulate_diffusion / helper_simulate_markov_chain / project /
_build_finer_grid bodies are executed symbolically with every random variate a distinct symbol (the jump increments, the
Brownian increments, the sorted jump times), so the returned path is a symbolic expression in the variates and the
"running sum of all increments up to that time, each variate used once" clause is an equality of expressions decided by
z3.  Array LENGTHS (number of product dates, jumps per interval, points inserted by the step cap) are enumerated: the
proofs are complete in the values and bounded in the sizes listed per unit; a native battery covers the remaining
simulators (copula, coupled) on random inputs.
"""
import itertools

import numpy as np
import z3

from pyvc.contract import FunctionContract, Lemma, VC, Req
from pyvc.sym import And, Or, Not, Implies, If, is_sym, Sym, lift, as_real_term, Unsupported, compare

PROPERTY_ID = "C15"
LEVEL = "proof"
LP = "rpylib.process.levyprocess:"
MK = "rpylib.process.markovchain.markovchain:"

COUNTS = ((0,), (3,), (2, 0, 1), (0, 0), (1, 1, 1), (0, 2))


def times_grid(vc, n):
    ts = [0.0] + vc.reals("t", n)
    vc.assume(And(*[a < b for a, b in zip(ts, ts[1:])]))
    return ts


def fresh_list(vc, name, n):
    return [vc.fresh(name, "r") for _ in range(n)]


def running(xs):
    out, tot = [], 0
    for x in xs:
        tot = tot + x
        out.append(tot)
    return out


def as_list(a):
    return list(np.ravel(np.asarray(a, dtype=object)))


def seq_eq(got, want):
    got = as_list(got)
    if len(got) != len(want):
        return False
    return And(*[compare(g, w, "==") for g, w in zip(got, want)])


class FixedDatesDirect(Lemma):
    """levyprocess.SimulationFixedTimes.simulate_one_path (direct simulation on the product dates), counts of jumps per
    interval enumerated: times are the product dates; the diffusion entry at date k is sum_{j<=k} sigma sqrt(dt_j) Z_j;
    the jump entry at date k is the sum of ALL jump increments drawn for the intervals up to k."""
    prop = "C15"
    cases = COUNTS

    def __init__(self):
        self.name = "property:fixed-dates-direct-simulation"

    def prove(self, vc, counts):
        from collections import deque
        nm = f"{self.name}[jumps per interval {counts}]"
        n = len(counts)
        ts = times_grid(vc, n)
        sig = vc.real("sigma")
        vc.assume(sig >= 0)
        zs = vc.reals("Z", n)
        drawn = []

        def jump_increment(it, f, b):
            k = b.get("n")
            xs = fresh_list(vc, "J", int(k))
            drawn.append(xs)
            return np.array(xs, dtype=object) if xs else np.array([], dtype=float)
        vc.interp.hooks["rpylib.model.levymodel.levymodel:LevyModel.jump_increment"] = jump_increment
        vc.interp.hooks["rpylib.model.levymodel.levymodel:LevyModel.diffusion_coefficient"] = lambda it, f, b: sig
        model = vc.obj("rpylib.model.levymodel.levymodel:LevyModel")
        proc = vc.obj(LP + "LevyProcess", model=model)
        sq = [vc.fresh("sqrt_dt", "r") for _ in range(n)]
        for s_, a, b in zip(sq, ts, ts[1:]):
            vc.assume(And(s_ >= 0, s_ * s_ == b - a))
        sim = vc.obj(LP + "SimulationFixedTimes", process=proc, _times=np.array(ts, dtype=object), _sqrt_dts=np.array(sq, dtype=object),
                     _poisson_rv=deque([list(counts)]), _brownian_increments=deque([[list(zs)]]))
        path = vc.method(sim, "simulate_one_path")
        pt, pd, pj = path.fields["jump_times"], path.fields["diffusion_path"], path.fields["jump_path"]
        vc.check(nm + "::times-are-the-product-dates", seq_eq(pt, ts))
        vc.check(nm + "::diffusion-is-the-running-sum-of-scaled-brownian-increments", seq_eq(pd, [0.0] + running([sig * s_ * z for s_, z in zip(sq, zs)])))
        vc.check(nm + "::one-batch-of-jump-increments-per-interval", len(drawn) == n and all(len(x) == c for x, c in zip(drawn, counts)))
        per_interval = [sum(x, 0.0) for x in drawn]
        vc.check(nm + "::jump-component-is-the-running-sum-of-all-increments-so-far", seq_eq(pj, [0.0] + running(per_interval)))
        vc.check(nm + "::pre-drawn-variates-consumed", len(sim.fields["_poisson_rv"]) == 0 and len(sim.fields["_brownian_increments"]) == 0)

    def replay(self, model, clause, counts):
        return native_fixed_dates("direct", counts)


def native_fixed_dates(kind, counts):
    """run the real fixed-dates simulator natively with recorded variates and compare with the running sums"""
    from collections import deque
    from contracts import battery
    import rpylib.process.levyprocess as LPm
    m = battery.models(("hem",))["hem"]
    n = len(counts)
    ts = np.concatenate(([0.0], np.cumsum(0.3 + 0.1 * np.arange(n))))
    rng = np.random.default_rng(7)
    drawn = []
    orig = type(m).jump_increment
    try:
        type(m).jump_increment = lambda self, n: (drawn.append(rng.normal(size=n)) or drawn[-1])
        proc = LPm.LevyProcess(m)
        sim = LPm.SimulationFixedTimes(proc)
        sim._times, sim._sqrt_dts = ts, np.sqrt(np.diff(ts))
        z = rng.normal(size=(1, n))
        sim._poisson_rv, sim._brownian_increments = deque([list(counts)]), deque([z.tolist()])
        path = sim.simulate_one_path()
    finally:
        type(m).jump_increment = orig
    want_j = np.concatenate(([0.0], np.cumsum([x.sum() for x in drawn])))
    want_d = np.concatenate(([0.0], np.cumsum(m.diffusion_coefficient() * np.sqrt(np.diff(ts)) * z[0])))
    got_j, got_d = np.ravel(path.jump_path), np.ravel(path.diffusion_path)
    bad = got_j.shape != want_j.shape or not np.allclose(got_j, want_j) or not np.allclose(got_d, want_d)
    return (bool(bad), {"dates": ts.tolist(), "jumps_per_interval": list(counts), "jump_path": got_j.tolist(), "running_sum_of_increments": want_j.tolist()})


class FixedDatesPreComputation(Lemma):
    """levyprocess.SimulationFixedTimes.pre_computation (real body, 2 paths, 1-3 product dates, every draw a distinct
    symbol): the stored times are the product's time grid, the stored scale of interval k squares to t_{k+1} - t_k (the
    length of THAT interval), one jump count is drawn per path and interval with that interval's length, one Brownian
    increment per path, dimension and interval; nothing is shared between paths."""
    prop = "C15"
    cases = (1, 2, 3)

    def __init__(self):
        self.name = "property:fixed-dates-pre-computation"

    def prove(self, vc, n):
        nm = f"{self.name}[{n} product date(s)]"
        ts = times_grid(vc, n)
        it = vc.interp
        counts, normals = [], []

        # the Poisson variates are abstract at the level of the generator (nb_jump_dt runs from its real body): a generator
        # built with mean m returns, per call of sample(size), `size` fresh counts recorded with m / lambda = the interval
        lam = vc.real("jump_intensity")
        vc.assume(lam > 0)
        it.hooks[LP + "LevyProcess.intensity"] = lambda it_, f, b: lam
        PO = "rpylib.distribution.univariate.poisson:Poisson"

        def po_init(it_, f, b):
            b["self"].fields["mean"] = b["lam"]

        def po_sample(it_, f, b):
            size = int(b.get("size", 1))
            out = []
            for _ in range(size):
                x = vc.fresh("N", "i")
                vc.assume(x >= 0)
                counts.append((x, b["self"].fields["mean"] / lam))
                out.append(x)
            return np.array(out, dtype=object)
        it.hooks[PO + ".__init__"] = po_init
        it.hooks[PO + ".sample"] = po_sample

        def normal(it_, *a, size=None, **k):
            shape = tuple(int(v) for v in (size if isinstance(size, (tuple, list)) else (size,)))
            arr = np.empty(shape, dtype=object)
            arr.reshape(-1)[:] = fresh_list(vc, "Z", int(np.prod(shape)))
            normals.append(arr)
            return arr
        it.native_hooks = {id(np.random.normal): normal}
        it.hooks["rpylib.process.process:Process.dimension"] = lambda it_, f, b: 1
        it.hooks["rpylib.product.product:Product.times_grid"] = lambda it_, f, b: np.array(ts, dtype=object)
        proc = vc.obj(LP + "LevyProcess", model=vc.obj("rpylib.model.levymodel.levymodel:LevyModel"))
        sim = vc.new(LP + "SimulationFixedTimes", proc)
        vc.method(sim, "pre_computation", 2, vc.obj("rpylib.product.product:Product"))
        vc.check(nm + "::times-are-the-product-time-grid", seq_eq(sim.fields["_times"], ts))
        sq = as_list(sim.fields["_sqrt_dts"])
        vc.check(nm + "::one-scale-per-interval", len(sq) == n)
        if len(sq) == n:
            vc.check(nm + "::scale-of-interval-k-squares-to-its-own-length", And(*[And(s_ >= 0, s_ * s_ == b - a) for s_, a, b in zip(sq, ts, ts[1:])]))
        pois = list(sim.fields["_poisson_rv"])
        brow = list(sim.fields["_brownian_increments"])
        vc.check(nm + "::one-row-of-jump-counts-and-brownian-increments-per-path", len(pois) == 2 and len(brow) == 2)
        vc.check(nm + "::one-jump-count-per-path-and-interval-with-that-interval's-length", len(counts) == 2 * n and And(*[compare(dt, ts[k + 1] - ts[k], "==") for k in range(n) for (x, dt) in [c for c in counts if any(c[0] is row[k] for row in pois if len(row) == n)]]))
        flat_counts = [x for row in pois for x in row]
        vc.check(nm + "::every-stored-jump-count-is-its-own-draw", len(flat_counts) == 2 * n and len({id(x) for x in flat_counts}) == 2 * n and all(any(x is c[0] for c in counts) for x in flat_counts))
        flat_z = [z for row in brow for z in np.ravel(np.asarray(row, dtype=object))]
        vc.check(nm + "::every-stored-brownian-increment-is-its-own-draw", len(flat_z) == 2 * n and len({id(z) for z in flat_z}) == 2 * n)

    def replay(self, model, clause, n):
        from contracts import battery
        import rpylib.process.levyprocess as LPm
        m = battery.models(("hem",))["hem"]
        ts = np.concatenate(([0.0], np.cumsum(0.3 + 0.2 * np.arange(n))))

        class P:
            def times_grid(self):
                return ts
        sim = LPm.SimulationFixedTimes(LPm.LevyProcess(m))
        np.random.seed(2)
        sim.pre_computation(3, P())
        ok = np.allclose(np.asarray(sim._sqrt_dts) ** 2, np.diff(ts)) and np.allclose(sim._times, ts) and len(sim._poisson_rv) == 3 and len(sim._brownian_increments) == 3
        info = {"time_grid": ts.tolist(), "stored_scales_squared": (np.asarray(sim._sqrt_dts) ** 2).tolist(), "interval_lengths": np.diff(ts).tolist()}
        if ok and n >= 2:
            # a REGULAR grid too: the jump counts of one path are independent draws per interval -- over 200 paths with 1.5
            # jumps per interval on average they cannot all be constant along the path
            tr = np.linspace(0.0, 0.3 * n, n + 1)

            class PR:
                def times_grid(self):
                    return tr
            sim2 = LPm.SimulationFixedTimes(LPm.LevyProcess(m))
            sim2.pre_computation(200, PR())
            rows = np.array([list(r) for r in sim2._poisson_rv])
            constant = int(np.sum(np.all(rows == rows[:, :1], axis=1)))
            info.update({"regular_time_grid": tr.tolist(), "paths": 200, "paths_whose_jump_counts_are_the_same_in_every_interval": constant})
            ok = constant < 200
        return (not ok, info)


class CoupledJumpTimesPath(Lemma):
    """CouplingSimulationWithJumpTimes.simulate_one_path_with_coupling (real body, real simulate_diffusion_with_coupling; the
    coupled jump values abstract, 0 or 2 jumps): both components live on the same times 0, the jump times, maturity; each
    component starts at 0, carries ITS OWN jump values and repeats ITS OWN last value at maturity; the diffusion of both
    components is the running sum of the same normals scaled by sqrt(gap) and the component's own coefficient."""
    prop = "C15"
    cases = (0, 2)

    def __init__(self):
        self.name = "property:coupled-jump-time-path"

    def prove(self, vc, n):
        nm = f"{self.name}[{n} jump(s)]"
        CS = "rpylib.process.coupling.couplingmarkovchain:"
        T = vc.real("maturity")
        jt = vc.reals("t", n)
        vc.assume(And(T > 0, *[a < b for a, b in zip([0.0] + jt, jt + [T])]))
        fine, coarse = vc.reals("fine", n), vc.reals("coarse", n)
        sf, sc = vc.real("sigma_fine"), vc.real("sigma_coarse")
        vc.assume(And(sf >= 0, sc >= 0))
        it = vc.interp
        normals = []
        it.native_hooks = {id(np.random.normal): lambda it_, *a, size=None, **k: (normals.extend(xs := fresh_list(vc, "W", int(size))) or np.array(xs, dtype=object))}
        arr = lambda xs: np.array(xs, dtype=object) if xs else np.array([], dtype=float)
        it.hooks[CS + "CouplingSimulationWithJumpTimes.simulate_jumps_with_coupling"] = lambda it_, f, b: (arr(jt), arr(fine), arr(coarse))
        cp = vc.obj(CS + "CouplingMarkovChain", equivalent_diffusion_coefficient_fine=sf, equivalent_diffusion_coefficient_coarse=sc)
        sim = vc.obj(CS + "CouplingSimulationWithJumpTimes", coupling_process=cp, _maturity=T)
        path = vc.method(sim, "simulate_one_path_with_coupling")
        pt = as_list(path.fields["jump_times"])
        J, D = np.asarray(path.fields["jump_path"], dtype=object), np.asarray(path.fields["diffusion_path"], dtype=object)
        m = n + 2
        vc.check(nm + "::times-are-zero-the-jump-times-and-the-maturity", seq_eq(pt, [0.0] + jt + [T]))
        vc.check(nm + "::two-components-with-one-value-per-time", J.shape == (2, m) and D.shape == (2, m))
        if J.shape != (2, m) or D.shape != (2, m):
            return
        vc.check(nm + "::fine-component-carries-its-own-jump-values-and-keeps-its-last-value-to-maturity", seq_eq(J[0], [0.0] + fine + [fine[-1] if n else 0.0]))
        vc.check(nm + "::coarse-component-carries-its-own-jump-values-and-keeps-its-last-value-to-maturity", seq_eq(J[1], [0.0] + coarse + [coarse[-1] if n else 0.0]))
        vc.check(nm + "::one-normal-per-gap", len(normals) == m - 1)
        if len(normals) == m - 1:
            ok = [compare(D[0, 0], 0.0, "=="), compare(D[1, 0], 0.0, "==")]
            for k in range(1, m):
                gap = pt[k] - pt[k - 1]
                for comp, sg in ((0, sf), (1, sc)):
                    inc = D[comp, k] - D[comp, k - 1]
                    ok.append(And(inc * inc == sg * sg * gap * normals[k - 1] * normals[k - 1], inc * normals[k - 1] >= 0))
            vc.check(nm + "::both-diffusions-use-the-same-normal-per-gap-scaled-by-their-own-coefficient", And(*ok))

    def replay(self, model, clause, n):
        r = SimulatorBattery().run("quick", 0)
        return (bool(r["violations"]), {"simulator_battery_violations": [v["obligation"] for v in r["violations"]][:3]})


class _ScriptedChain:
    """what MCSimulationFixedTimes.simulate_markov_chain returns: per product-date interval the sampled state increments and
    the running values"""

    def __init__(self, increments, values):
        self.states_increments, self.values = increments, values


class CoupledFixedDatesTwoPaths(Lemma):
    """CouplingSimulationFixedTimes (real pre_computation, simulate_jumps_with_coupling and coupling_states_for_a_slice; TWO
    product dates; the fine chain and the per-jump coupling abstract): two paths simulated one after the other on the same
    simulator -- the first with two jumps before the first date and none after, the second with one jump after the first
    date only.  At every date each component carries the running sum of ITS OWN jumps so far (a date without new jump
    repeats the value before; the coarse running sum goes on across dates), and the second path is built from its own
    variates only (nothing of the first path)."""
    prop = "C15"

    def __init__(self):
        self.name = "property:coupled-fixed-dates-paths-share-nothing"

    def prove(self, vc, case):
        nm = self.name
        CS = "rpylib.process.coupling.couplingmarkovchain:"
        it = vc.interp
        T1, T2 = vc.real("date1"), vc.real("date2")
        vc.assume(And(T1 > 0, T1 < T2))
        f1, f2, f3 = vc.real("fine_after_jump1"), vc.real("fine_after_jump2"), vc.real("fine_after_jump3")
        dc = vc.reals("coarse_increment", 3)
        empty_i, empty_f = np.array([], dtype=int), np.array([], dtype=float)
        chains = [_ScriptedChain([np.array([1, -2]), empty_i], [np.array([f1, f2], dtype=object), empty_f]),
                  _ScriptedChain([empty_i, np.array([3])], [empty_f, np.array([f3], dtype=object)])]
        incs = list(dc)
        fine_sim = vc.obj("rpylib.process.markovchain.markovchain:MCSimulationFixedTimes")
        it.hooks["rpylib.process.markovchain.markovchain:MCSimulationFixedTimes.simulate_markov_chain"] = lambda it_, f, b: chains.pop(0)
        it.hooks[CS + "CouplingSimulation.coupling_state"] = lambda it_, f, b: incs.pop(0)
        it.hooks["rpylib.product.product:Product.times_grid"] = lambda it_, f, b: np.array([0.0, T1, T2], dtype=object)
        fine = vc.obj("rpylib.process.markovchain.markovchain:MarkovChainProcess", _path_simulation=fine_sim)
        cp = vc.obj(CS + "CouplingMarkovChain", fine_process=fine, grid=vc.obj("rpylib.grid.spatial:CTMCGrid", origin=0.0))
        sim = vc.new(CS + "CouplingSimulationFixedTimes", cp)
        vc.method(sim, "pre_computation", 2, vc.obj("rpylib.product.product:Product"))
        a_f, a_c = vc.method(sim, "simulate_jumps_with_coupling")
        a_f, a_c = np.ravel(np.asarray(a_f, dtype=object)).tolist(), np.ravel(np.asarray(a_c, dtype=object)).tolist()     # read before the next path
        b_f, b_c = vc.method(sim, "simulate_jumps_with_coupling")
        b_f, b_c = np.ravel(np.asarray(b_f, dtype=object)).tolist(), np.ravel(np.asarray(b_c, dtype=object)).tolist()
        ok = all(len(x) == 2 for x in (a_f, a_c, b_f, b_c))
        vc.check(nm + "::one-value-per-date-and-component", ok)
        if not ok:
            return
        vc.check(nm + "::first-path-carries-the-running-sums-of-its-own-jumps-at-both-dates",
                 And(compare(a_f[0], f2, "=="), compare(a_f[1], f2, "=="), compare(a_c[0], dc[0] + dc[1], "=="), compare(a_c[1], dc[0] + dc[1], "==")))
        vc.check(nm + "::second-path-is-built-from-its-own-jump-only",
                 And(compare(b_f[0], 0, "=="), compare(b_c[0], 0, "=="), compare(b_f[1], f3, "=="), compare(b_c[1], dc[2], "==")))

    def replay(self, model, clause, case):
        from types import SimpleNamespace
        from rpylib.process.coupling.couplingmarkovchain import CouplingSimulationFixedTimes
        e_i, e_f = np.array([], dtype=int), np.array([])
        chains = [_ScriptedChain([np.array([1, -2]), e_i], [np.array([0.3, 0.1]), e_f]), _ScriptedChain([e_i, np.array([3])], [e_f, np.array([0.45])])]
        fine_sim = SimpleNamespace(simulate_markov_chain=lambda: chains.pop(0))
        cp = SimpleNamespace(fine_process=SimpleNamespace(_path_simulation=fine_sim), grid=SimpleNamespace(origin=0.0))
        sim = CouplingSimulationFixedTimes(cp)
        incs = [0.25, -0.125, 0.5]
        sim.coupling_state = lambda inc: incs.pop(0)
        sim.pre_computation(2, SimpleNamespace(times_grid=lambda: np.array([0.0, 1.0, 2.0])))
        a = [np.array(x, dtype=float).copy() for x in sim.simulate_jumps_with_coupling()]
        b = [np.array(x, dtype=float).copy() for x in sim.simulate_jumps_with_coupling()]
        bad = not (np.allclose(a[0], [0.1, 0.1]) and np.allclose(a[1], [0.125, 0.125]) and np.allclose(b[0], [0.0, 0.45]) and np.allclose(b[1], [0.0, 0.5]))
        return (bool(bad), {"first_path (fine, coarse) at the two dates": [a[0].tolist(), a[1].tolist()], "expected": [[0.1, 0.1], [0.125, 0.125]],
                            "second_path (fine, coarse)": [b[0].tolist(), b[1].tolist()], "expected_second": [[0.0, 0.45], [0.0, 0.5]]})


class CoupledJumpTimesRunningSum(Lemma):
    """CouplingSimulationWithJumpTimes.simulate_jumps_with_coupling (real body and real coupling_states_for_a_slice; two
    product-date intervals -- one jump in the first, none or two in the second; the fine chain and the per-jump coupling
    abstract): the fine values are the chain's values in time order and the coarse values the running sum of ALL coarse
    increments so far (it goes on from one interval to the next), one value per jump time."""
    prop = "C15"
    cases = ((1, 2), (1, 0), (0, 2))

    def __init__(self):
        self.name = "property:coupled-jump-times-running-sum"

    def prove(self, vc, counts):
        nm = f"{self.name}[{counts}]"
        CS = "rpylib.process.coupling.couplingmarkovchain:"
        it = vc.interp
        n = sum(counts)
        fv = vc.reals("fine_value", n)
        dc = vc.reals("coarse_increment", n)
        jt = vc.reals("jump_time", n)
        incs_f, vals, k = [], [], 0
        for c in counts:
            incs_f.append(np.array([1] * c, dtype=int))
            vals.append(np.array(fv[k:k + c], dtype=object) if c else np.array([], dtype=float))
            k += c

        class Chain:
            states_increments, values, times = incs_f, vals, np.array(jt, dtype=object)
        incs = list(dc)
        fine_sim = vc.obj("rpylib.process.markovchain.markovchain:MCSimulationWithJumpTimes")
        it.hooks["rpylib.process.markovchain.markovchain:MCSimulationWithJumpTimes.simulate_markov_chain"] = lambda it_, f, b: _ScriptedChain3(incs_f, vals, np.array(jt, dtype=object))
        it.hooks[CS + "CouplingSimulation.coupling_state"] = lambda it_, f, b: incs.pop(0)
        fine = vc.obj("rpylib.process.markovchain.markovchain:MarkovChainProcess", _path_simulation=fine_sim)
        cp = vc.obj(CS + "CouplingMarkovChain", fine_process=fine, grid=vc.obj("rpylib.grid.spatial:CTMCGrid", origin=0.0))
        sim = vc.new(CS + "CouplingSimulationWithJumpTimes", cp)
        times, fine_v, coarse_v = vc.method(sim, "simulate_jumps_with_coupling")
        fine_v, coarse_v = np.ravel(np.asarray(fine_v, dtype=object)).tolist(), np.ravel(np.asarray(coarse_v, dtype=object)).tolist()
        vc.check(nm + "::one-value-per-jump-time", len(fine_v) == n and len(coarse_v) == n and len(as_list(times)) == n)
        if len(fine_v) != n or len(coarse_v) != n:
            return
        vc.check(nm + "::fine-values-in-time-order", And(*[compare(fine_v[i], fv[i], "==") for i in range(n)]))
        run, want = 0, []
        for i in range(n):
            run = run + dc[i]
            want.append(run)
        vc.check(nm + "::coarse-value-is-the-running-sum-of-all-coarse-increments-so-far", And(*[compare(coarse_v[i], want[i], "==") for i in range(n)]))

    def replay(self, model, clause, counts):
        from types import SimpleNamespace
        from rpylib.process.coupling.couplingmarkovchain import CouplingSimulationWithJumpTimes
        n = sum(counts)
        fv = [0.1 * (i + 1) for i in range(n)]
        dc = [0.25, -0.125, 0.5][:n]
        incs_f, vals, k = [], [], 0
        for c in counts:
            incs_f.append(np.array([1] * c, dtype=int))
            vals.append(np.array(fv[k:k + c]))
            k += c
        ch = _ScriptedChain3(incs_f, vals, np.linspace(0.1, 0.9, n))
        cp = SimpleNamespace(fine_process=SimpleNamespace(_path_simulation=SimpleNamespace(simulate_markov_chain=lambda: ch)), grid=SimpleNamespace(origin=0.0))
        sim = CouplingSimulationWithJumpTimes(cp)
        left = list(dc)
        sim.coupling_state = lambda inc: left.pop(0)
        try:
            t_, f_, c_ = sim.simulate_jumps_with_coupling()
        except Exception as e:
            return (True, {"jumps_per_interval": list(counts), "exception": f"{type(e).__name__}: {e}"})
        want = np.cumsum(dc)
        return (not (np.allclose(np.ravel(f_), fv) and np.allclose(np.ravel(c_), want)), {"jumps_per_interval": list(counts), "coarse_values": np.ravel(c_).tolist(), "running_sum_of_coarse_increments": want.tolist()})


class _ScriptedChain3:
    def __init__(self, increments, values, times):
        self.states_increments, self.values, self.times = increments, values, times


class JumpTimesDirect(Lemma):
    """levyprocess.SimulationWithJumpTimes.simulate_one_path (product dates t_1 < .. < t_n = maturity, jump counts per
    interval enumerated, jump times symbolic and sorted inside their interval): times = 0, the jump times, maturity,
    strictly increasing; the jump component is the running sum of the increments with the last value repeated at maturity;
    the diffusion is the running sum of sigma sqrt(dt) Z over the gaps of THAT time grid, one fresh normal per gap."""
    prop = "C15"
    cases = COUNTS

    def __init__(self):
        self.name = "property:jump-times-direct-simulation"

    def prove(self, vc, counts):
        nm = f"{self.name}[jumps per interval {counts}]"
        n = len(counts)
        ts = times_grid(vc, n)
        sig = vc.real("sigma")
        vc.assume(sig >= 0)
        it = vc.interp
        drawn, normals, jt_all = [], [], []
        state = {"k": 0}

        def jump_increment(it_, f, b):
            xs = fresh_list(vc, "J", int(b.get("n")))
            drawn.extend(xs)
            return np.array(xs, dtype=object)
        it.hooks["rpylib.model.levymodel.levymodel:LevyModel.jump_increment"] = jump_increment
        it.hooks["rpylib.model.levymodel.levymodel:LevyModel.diffusion_coefficient"] = lambda it_, f, b: sig

        def nb_jump_dt(it_, f, b):
            k = state["k"]
            state["k"] += 1
            return counts[k]
        it.hooks[LP + "LevyProcess.nb_jump_dt"] = nb_jump_dt

        def jump_times(it_, f, b):
            dt, k = b["dt"], int(b["n"])
            us = fresh_list(vc, "U", k)
            # sorted, distinct, strictly inside (0, dt): what np.sort(dt * random_sample(n)) returns almost surely
            for a_, b_ in zip([0.0] + us, us + [dt]):
                vc.assume(a_ < b_)
            jt_all.append(us)
            return np.array(us, dtype=object) if us else np.array([], dtype=float)
        it.hooks[LP + "LevyProcess.jump_times_from_nb_of_jumps"] = jump_times

        def normal(it_, *a, size=None, **k):
            xs = fresh_list(vc, "Z", int(size))
            normals.extend(xs)
            return np.array(xs, dtype=object)
        it.native_hooks = {id(np.random.normal): normal}
        model = vc.obj("rpylib.model.levymodel.levymodel:LevyModel")
        proc = vc.obj(LP + "LevyProcess", model=model)
        sim = vc.obj(LP + "SimulationWithJumpTimes", process=proc, _times=np.array(ts, dtype=object), _maturity=ts[-1])
        path = vc.method(sim, "simulate_one_path")
        pt, pd, pj = as_list(path.fields["jump_times"]), as_list(path.fields["diffusion_path"]), as_list(path.fields["jump_path"])
        want_t = [0.0] + [tm + u for tm, us in zip(ts, jt_all) for u in us] + [ts[-1]]
        tot = sum(counts)
        vc.check(nm + "::times-are-zero-the-jump-times-and-the-maturity", seq_eq(pt, want_t))
        vc.check(nm + "::times-strictly-increasing", And(*[a < b for a, b in zip(pt, pt[1:])]) if len(pt) > 1 else True)
        vc.check(nm + "::one-increment-per-jump", len(drawn) == tot)
        rs = running(drawn)
        vc.check(nm + "::jump-component-is-the-running-sum-with-the-last-value-kept-to-maturity", seq_eq(pj, [0.0] + rs + [rs[-1] if rs else 0.0]))
        vc.check(nm + "::one-normal-per-gap", len(normals) == len(pt) - 1)
        if len(normals) == len(pt) - 1:
            # diffusion increments: sigma * sqrt(gap) * Z, i.e. (d_k - d_{k-1})^2 = sigma^2 gap Z^2 with the sign of Z
            ok = [compare(pd[0], 0.0, "==")]
            for k in range(1, len(pt)):
                inc = pd[k] - pd[k - 1]
                gap = pt[k] - pt[k - 1]
                ok.append(And(inc * inc == sig * sig * gap * normals[k - 1] * normals[k - 1], inc * normals[k - 1] >= 0))
            vc.check(nm + "::diffusion-increment-over-each-gap-is-sigma-sqrt(gap)-times-its-own-normal", And(*ok))

    def replay(self, model, clause, counts):
        return None


class BuildFinerGrid(Lemma):
    """SimulationMaximumStep._build_finer_grid and coupling.helper._build_finer_grid (real bodies; 1 or 2 jump times, every
    original gap below 3 epsilon): the returned times are strictly increasing, every step -- the first one from 0 and the
    last one up to the maturity included -- is at most epsilon, every original (time, value) is kept in order, and an inserted point carries the value of the
    point before it (0 before the first jump); fine and coarse components get the same times."""
    prop = "C15"
    cases = tuple((impl, n) for impl in ("levyprocess", "coupling") for n in (1, 2))

    def __init__(self):
        self.name = "property:step-cap-insertion"

    def prove(self, vc, case):
        impl, n = case
        nm = f"{self.name}[{impl},{n} jump(s)]"
        eps, T = vc.real("epsilon"), vc.real("maturity")
        ts = vc.reals("t", n)
        vs = vc.reals("v", n)
        ws = vc.reals("w", n)
        vc.assume(And(eps > 0, eps < T, ts[0] > 0, *[a < b for a, b in zip(ts, ts[1:])], ts[-1] < T))
        gaps = [ts[0]] + [b - a for a, b in zip(ts, ts[1:])] + [T - ts[-1]]       # the gap up to the maturity included
        vc.assume(And(*[g < 3 * eps for g in gaps]))
        it = vc.interp
        if impl == "levyprocess":
            mk = it.get_function(LP + "SimulationMaximumStep.create_build_finer_grid_fun")
            fn = it.call(mk, [], dict(epsilon=eps, maturity=T))
            out = it.call(fn, [None, np.array(ts, dtype=object), np.array(vs, dtype=object)], {})
            ot, ov, ow = as_list(out[0]), as_list(out[1]), None
        else:
            mk = it.get_function("rpylib.process.coupling.helper:create_build_finer_grid_fun")
            fn = it.call(mk, [], dict(epsilon=eps, maturity=T))
            out = it.call(fn, [None, np.array(ts, dtype=object), np.array(vs, dtype=object), np.array(ws, dtype=object)], {})
            ot, ov, ow = as_list(out[0]), as_list(out[1]), as_list(out[2])
        m = len(ot)
        vc.check(nm + "::one-value-per-time", len(ov) == m and (ow is None or len(ow) == m))
        if m < n:       # fewer points than jumps: a jump was dropped (nothing further can be stated on this path)
            vc.check(nm + "::every-original-point-is-kept", False)
            return
        steps = [ot[0]] + [b - a for a, b in zip(ot, ot[1:])] + [T - ot[-1]]      # the caller appends the maturity
        vc.check(nm + "::times-strictly-increasing-and-positive", And(*[s > 0 for s in steps]))
        vc.check(nm + "::every-step-at-most-epsilon", And(*[s <= eps for s in steps]))
        # every output point is either an original point or an inserted one repeating the previous value
        def well_formed(vals, orig):
            conds = []
            for k in range(m):
                prev = vals[k - 1] if k else 0.0
                is_orig = Or(*[And(ot[k] == ts[j], vals[k] == orig[j]) for j in range(n)])
                conds.append(Or(is_orig, And(vals[k] == prev, *[ot[k] != ts[j] for j in range(n)])))
            return And(*conds)
        vc.check(nm + "::inserted-points-repeat-the-preceding-value", well_formed(ov, vs) if ow is None else And(well_formed(ov, vs), well_formed(ow, ws)))
        vc.check(nm + "::every-original-point-is-kept", And(*[Or(*[And(ot[k] == ts[j], ov[k] == vs[j]) for k in range(m)]) for j in range(n)]))
        vc.check(nm + "::no-point-at-or-beyond-the-maturity", ot[-1] < T)

    def replay(self, model, clause, case):
        impl, n = case
        f = lambda v, d: float(v["float"]) if isinstance(v, dict) else (float(v) if v is not None else d)
        eps, T = f(model.get("epsilon"), 0.1), f(model.get("maturity"), 1.0)
        tm = model.get("t") if isinstance(model.get("t"), list) else []
        ts = np.array([f(tm[k] if k < len(tm) else None, 0.25 * (k + 1)) for k in range(n)])
        if not (np.all(np.diff(np.concatenate(([0.0], ts, [T]))) > 0)):
            ts = np.array([T * (k + 1) / (n + 1) for k in range(n)])
        vs = np.array([1.0 + k for k in range(n)])
        if impl == "levyprocess":
            from rpylib.process.levyprocess import SimulationMaximumStep
            ot, ov = SimulationMaximumStep.create_build_finer_grid_fun(eps, T)(None, ts.copy(), vs.copy())
        else:
            from rpylib.process.coupling.helper import create_build_finer_grid_fun
            ot, ov, _ = create_build_finer_grid_fun(eps, T)(None, ts.copy(), vs.copy(), vs.copy())
        steps = np.diff(np.concatenate(([0.0], ot)))
        kept = all(any(abs(ot[k] - t) < 1e-12 and ov[k] == v for k in range(len(ot))) for t, v in zip(ts, vs))
        bad = np.any(steps <= 0) or np.any(steps > eps * (1 + 1e-12)) or not kept
        return (bool(bad), {"epsilon": eps, "jump_times": ts.tolist(), "returned_times": np.asarray(ot).tolist(), "returned_values": np.asarray(ov).tolist()})


class MaxStepPath(Lemma):
    """SimulationMaximumStep.simulate_one_path (single maturity T < 3 epsilon, 0 or 1 jump): EVERY step of the returned
    path -- including the last one up to the maturity and the only one when there is no jump -- is at most epsilon."""
    prop = "C15"
    cases = ((0,), (1,))

    def __init__(self):
        self.name = "property:step-cap-on-the-whole-path"

    def prove(self, vc, counts):
        from types import MethodType
        nm = f"{self.name}[jumps {counts}]"
        eps, T, sig = vc.real("epsilon"), vc.real("maturity"), vc.real("sigma")
        vc.assume(And(eps > 0, eps < T, T < 3 * eps, sig >= 0))
        it = vc.interp
        it.hooks["rpylib.model.levymodel.levymodel:LevyModel.jump_increment"] = lambda it_, f, b: np.array(fresh_list(vc, "J", int(b.get("n"))), dtype=object)
        it.hooks["rpylib.model.levymodel.levymodel:LevyModel.diffusion_coefficient"] = lambda it_, f, b: sig
        it.hooks[LP + "LevyProcess.nb_jump_dt"] = lambda it_, f, b: counts[0]

        def jump_times(it_, f, b):
            us = fresh_list(vc, "U", int(b["n"]))
            for a_, b_ in zip([0.0] + us, us + [b["dt"]]):
                vc.assume(a_ < b_)
            return np.array(us, dtype=object) if us else np.array([], dtype=float)
        it.hooks[LP + "LevyProcess.jump_times_from_nb_of_jumps"] = jump_times
        it.native_hooks = {id(np.random.normal): lambda it_, *a, size=None, **k: np.array(fresh_list(vc, "Z", int(size)), dtype=object)}
        model = vc.obj("rpylib.model.levymodel.levymodel:LevyModel")
        proc = vc.obj(LP + "LevyProcess", model=model)
        sim = vc.obj(LP + "SimulationMaximumStep", process=proc, _times=np.array([0.0, T], dtype=object), _maturity=T, epsilon=eps)
        mk = it.get_function(LP + "SimulationMaximumStep.create_build_finer_grid_fun")
        fn = it.call(mk, [], dict(epsilon=eps, maturity=T))
        from pyvc.values import BoundMethod
        sim.fields["build_finer_grid"] = BoundMethod(fn, sim)
        path = vc.method(sim, "simulate_one_path")
        pt = as_list(path.fields["jump_times"])
        vc.check(nm + "::ends-at-the-maturity", pt[-1] == T)
        vc.check(nm + "::every-step-of-the-returned-path-at-most-epsilon", And(*[b - a <= eps for a, b in zip(pt, pt[1:])]))

    def replay(self, model, clause, counts):
        from contracts import battery
        import rpylib.process.levyprocess as LPm
        from types import MethodType
        m = battery.models(("hem",))["hem"]
        eps, T = 0.1, 0.25
        proc = LPm.LevyProcess(m)
        sim = LPm.SimulationMaximumStep(proc, epsilon=eps)
        sim._times, sim._maturity = np.array([0.0, T]), T
        sim.build_finer_grid = MethodType(LPm.SimulationMaximumStep.create_build_finer_grid_fun(eps, T), sim)
        orig = proc.nb_jump_dt
        proc.nb_jump_dt = lambda dt: counts[0]
        np.random.seed(3)
        path = sim.simulate_one_path()
        steps = np.diff(path.jump_times)
        return (bool(np.any(steps > eps * (1 + 1e-12))), {"epsilon": eps, "maturity": T, "jumps": counts[0], "times": np.asarray(path.jump_times).tolist(), "largest_step": float(steps.max())})


class ChainRunningSum(Lemma):
    """MCSimulation.helper_simulate_markov_chain + MCSimulationFixedTimes.project / MCSimulationWithJumpTimes.simulate_jumps:
    the jump component carries the running sum of ALL state values sampled so far (across product dates)."""
    prop = "C15"
    HISTORY = "after another chain on another grid"
    cases = tuple((mode, c) for mode in ("fixed-dates", "jump-times") for c in ((2,), (2, 1), (1, 0, 2))) + \
        tuple((mode, c, "after another chain on another grid") for mode in ("fixed-dates", "jump-times") for c in ((2, 1),))

    def __init__(self):
        self.name = "property:chain-jump-component-is-a-running-sum"

    def prove(self, vc, case):
        mode, counts = case[0], case[1]
        history = len(case) > 2
        nm = f"{self.name}[{mode},{counts}{',' + case[2] if history else ''}]"
        it = vc.interp
        helper = it.get_function(MK + "MCSimulation.helper_simulate_markov_chain")
        drawn = []
        state = {"n": 0}

        def sampling(it_, *a, size=None, **k):
            idx = list(range(state["n"], state["n"] + int(size)))
            state["n"] += int(size)
            return idx                                  # the j-th sampled state increment is the token j
        samp = it.lib.Model(sampling, "sampling")
        # grid[pivot + increment] -> the value of the sampled state ON THAT GRID: origin coordinate 0, state token j -> symbol X_j
        grid = vc.obj("rpylib.grid.spatial:CTMCGrid", origin_coordinate=0, tag="this")
        other = vc.obj("rpylib.grid.spatial:CTMCGrid", origin_coordinate=0, tag="other")
        per_grid = {"this": fresh_list(vc, "X", sum(counts) + 1), "other": fresh_list(vc, "Y", sum(counts) + 1)}
        it.hooks["rpylib.grid.grid:Grid.__getitem__"] = lambda it_, f, b: per_grid[b["self"].fields["tag"]][[v for k_, v in b.items() if k_ != "self"][0]]
        if history:
            # an earlier chain (another grid: another step, another level) met the same increments before
            it.call(helper, [other, samp, list(counts)], {})
            state["n"] = 0
        values, incs = it.call(helper, [grid, samp, list(counts)], {})
        drawn.extend(per_grid["this"][: sum(counts)])
        if mode == "fixed-dates":
            proj = it.get_function(MK + "MCSimulationFixedTimes.project")
            got = as_list(it.call(proj, [values], {}))
            per = []
            pos = 0
            for c in counts:
                per.append(sum(drawn[pos:pos + c], 0.0))
                pos += c
            vc.check(nm + "::value-at-each-date-is-the-sum-of-all-states-sampled-so-far", seq_eq(got, running(per)))
        else:
            got = as_list(np.concatenate([np.asarray(v, dtype=object) for v in values])) if sum(counts) else []
            vc.check(nm + "::value-at-each-jump-is-the-sum-of-all-states-sampled-so-far", seq_eq(got, running(drawn)))

    def replay(self, model, clause, case):
        mode, counts = case[0], case[1]
        from rpylib.process.markovchain.markovchain import MCSimulation, MCSimulationFixedTimes

        class G:
            origin_coordinate = 0

            def __init__(self, scale=1.0):
                self.scale = scale

            def __getitem__(self, i):
                return self.scale * float(i)
        if len(case) > 2:
            seq0 = iter(range(1, 100))
            MCSimulation.helper_simulate_markov_chain(G(0.5), lambda size: [next(seq0) for _ in range(size)], list(counts))
        seq = iter(range(1, 100))
        samp = lambda size: [next(seq) for _ in range(size)]
        values, incs = MCSimulation.helper_simulate_markov_chain(G(), samp, list(counts))
        flat = [float(x) for v in incs for x in v]
        if mode == "fixed-dates":
            got = MCSimulationFixedTimes.project(values).tolist()
            per, pos = [], 0
            for c in counts:
                per.append(sum(flat[pos:pos + c]))
                pos += c
            want = np.cumsum(per).tolist()
        else:
            got = np.concatenate(values).ravel().astype(float).tolist() if flat else []
            want = np.cumsum(flat).tolist()
        return (got != want, {"mode": mode, "jumps_per_interval": list(counts), "sampled_state_values": flat, "jump_component": got, "running_sum": want})


class CopulaChainRunningSum(Lemma):
    """MCLevyCopulaSimulation.helper_simulate_levy_copula_markov_chain + MCLevyCopulaSimulationFixedTimes.project (real bodies,
    two underlyings; the sampled states abstract 2-vectors): each underlying's jump component carries the running sum of ALL
    the state values sampled so far -- across product dates, a date without jump repeating the value before."""
    prop = "C15"
    cases = ((2,), (2, 1), (1, 0, 2), (0, 1))

    def __init__(self):
        self.name = "property:copula-chain-jump-component-is-a-running-sum"

    def prove(self, vc, counts):
        nm = f"{self.name}[{counts}]"
        it = vc.interp
        MCC = "rpylib.process.markovchain.markovchainlevycopula:"
        n = sum(counts)
        xs, ys = fresh_list(vc, "X", n + 1), fresh_list(vc, "Y", n + 1)
        state = {"n": 0}

        def sampling(it_, *a, size=None, **k):
            idx = list(range(state["n"], state["n"] + int(size)))
            state["n"] += int(size)
            return idx
        it.hooks["rpylib.grid.grid:Grid.__getitem__"] = lambda it_, f, b: np.array([xs[[v for k_, v in b.items() if k_ != "self"][0]], ys[[v for k_, v in b.items() if k_ != "self"][0]]], dtype=object)
        it.hooks["rpylib.model.levycopulamodel:LevyCopulaModel.dimension"] = lambda it_, f, b: 2
        grid = vc.obj("rpylib.grid.spatial:CTMCGrid", origin_coordinate=0)
        smp = vc.obj("rpylib.distribution.sampling:Sampling", sample=it.lib.Model(sampling, "sample"))
        proc = vc.obj(MCC + "MarkovChainLevyCopula", grid=grid, sampling=smp, model=vc.obj("rpylib.model.levycopulamodel:LevyCopulaModel"))
        sim = vc.obj(MCC + "MCLevyCopulaSimulationFixedTimes", process=proc, _dimension=2)
        values, incs = vc.method(sim, "helper_simulate_levy_copula_markov_chain", list(counts))
        proj = it.get_function(MCC + "MCLevyCopulaSimulationFixedTimes.project")
        got = np.asarray(it.call(proj, [values, 2], {}), dtype=object)
        vc.check(nm + "::one-column-per-date-one-row-per-underlying", got.shape == (2, len(counts)))
        if got.shape != (2, len(counts)):
            return
        want_x, want_y, pos, cx, cy = [], [], 0, 0.0, 0.0
        for c in counts:
            for j in range(pos, pos + c):
                cx, cy = cx + xs[j], cy + ys[j]
            pos += c
            want_x.append(cx)
            want_y.append(cy)
        vc.check(nm + "::value-at-each-date-is-the-sum-of-all-states-sampled-so-far", And(seq_eq(list(got[0]), want_x), seq_eq(list(got[1]), want_y)))
        # the values handed to the jump-time simulators: one row per jump, the running sums in order
        rows = [r for v in values for r in np.asarray(v, dtype=object).reshape(-1, 2).tolist()]
        rx, ry, cx, cy = [], [], 0.0, 0.0
        for j in range(n):
            cx, cy = cx + xs[j], cy + ys[j]
            rx.append(cx)
            ry.append(cy)
        vc.check(nm + "::value-at-each-jump-is-the-sum-of-all-states-sampled-so-far", len(rows) == n and And(seq_eq([r[0] for r in rows], rx), seq_eq([r[1] for r in rows], ry)))

    def replay(self, model, clause, counts):
        r = SimulatorBattery().run("quick", 0)
        hit = [v for v in r["violations"] if "copula" in v["obligation"]]
        return (bool(hit), {"simulator_battery_violations": [v["obligation"] for v in hit][:3], "witness": hit[0]["witness"] if hit else {}})


UNITS = [FixedDatesDirect(), FixedDatesPreComputation(), JumpTimesDirect(), CoupledJumpTimesPath(), CoupledFixedDatesTwoPaths(), CoupledJumpTimesRunningSum(), BuildFinerGrid(), MaxStepPath(), ChainRunningSum(), CopulaChainRunningSum()]
def LATE_UNITS():
    # "fine and coarse components stay aligned": which diffusion coefficient each component of the coupled pair uses after a
    # level change is the contract of CouplingMarkovChain.next_level (kept with the coupling, c03)
    from contracts import c03
    return [c03.NextLevel()]


ASSUMPTIONS = ["A1: floats are mathematical reals", "sorted uniform jump times are distinct and strictly inside their interval (almost surely)",
               "array lengths are enumerated (dates <= 3, jumps per interval <= 3, step-cap insertions: gaps < 3 epsilon): complete in the values, bounded in the sizes"]
TRUSTED_BASE = ["z3 5.1 (NRA for the sqrt(dt) scaling)", "pyvc interpreter + numpy models (concatenate, cumsum, insert, diff, flatnonzero, where)"]


class SimulatorBattery:
    """bounded (native): real MarkovChainProcess and CouplingMarkovChain (HEM, uniform grids, levels 1-2) with and without a
    step cap, 40 paths each: times start at 0, increase strictly and end at the maturity, every component starts at 0,
    fine and coarse components have one value per time, and with a step cap EVERY step (the last one up to the maturity and
    the only one of a path without jump included) is at most epsilon -- also for the Levy-copula chain and its coupling."""
    name = "bounded:simulator-battery"
    tier = "quick"

    def run(self, tier, seed):
        import copy
        import warnings
        from contracts import battery
        from rpylib.grid.spatial import CTMCUniformGrid
        from rpylib.process.markovchain.markovchain import MarkovChainProcess
        from rpylib.process.coupling.couplingmarkovchain import CouplingMarkovChain
        from rpylib.distribution.sampling import SamplingMethod
        from rpylib.product.product import Product
        from rpylib.product.underlying import Spot
        from rpylib.product.payoff import Vanilla, PayoffType
        viol, ev = {}, 0
        m = battery.models(("hem",))["hem"]
        T = 0.5
        prod = Product(payoff_underlying=Spot(), payoff=Vanilla(strike=100.0, payoff_type=PayoffType.CALL), maturity=T)

        def audit(tag, path, eps, T=T):
            t = np.asarray(path.jump_times, float)
            jp, dp = np.atleast_2d(np.asarray(path.jump_path, float)), np.atleast_2d(np.asarray(path.diffusion_path, float))
            info = {"simulator": tag, "epsilon": eps, "times": t[:12].tolist()}
            if t[0] != 0.0 or abs(t[-1] - T) > 1e-12 or np.any(np.diff(t) <= 0):
                viol.setdefault("times", {"obligation": f"{self.name}::times-start-at-0-increase-strictly-end-at-maturity", "bounded": self.name, "witness": info})
            if jp.shape[-1] != t.size or dp.shape[-1] != t.size or jp.shape != dp.shape:
                viol.setdefault("shape", {"obligation": f"{self.name}::one-value-per-time-for-every-component", "bounded": self.name, "witness": {**info, "jump_shape": list(jp.shape), "diffusion_shape": list(dp.shape)}})
            elif np.any(jp[:, 0] != 0) or np.any(dp[:, 0] != 0):
                viol.setdefault("zero", {"obligation": f"{self.name}::path-starts-at-zero", "bounded": self.name, "witness": info})
            if eps is not None and t.size > 2 and jp.shape[-1] == t.size and np.any(jp[:, -1] != jp[:, -2]):
                viol.setdefault("last", {"obligation": f"{self.name}::every-component-keeps-its-own-last-jump-value-to-maturity", "bounded": self.name,
                                         "witness": {**info, "jump_values_before_maturity": jp[:, -2].tolist(), "jump_values_at_maturity": jp[:, -1].tolist()}})
            if eps is not None and np.any(np.diff(t) > eps * (1 + 1e-9)):
                viol.setdefault("cap", {"obligation": f"{self.name}::every-step-at-most-epsilon", "bounded": self.name, "witness": {**info, "largest_step": float(np.diff(t).max())}})
        with warnings.catch_warnings():
            warnings.simplefilter("ignore")
            np.random.seed(1234 + seed)
            for eps in (None, 0.04, T / 10):       # T / 10: the maturity is a whole number of caps (rounding of the last inserted point)
                p = MarkovChainProcess(model=m, method=SamplingMethod.INVERSION, grid=CTMCUniformGrid(h=0.02, model=m))
                p.initialisation(prod, max_step_epsilon=eps)
                p.pre_computation(40, prod)
                for _ in range(40):
                    ev += 1
                    audit(type(p._path_simulation).__name__, p.simulate_one_path(), eps)
                cp = CouplingMarkovChain(model=m, method=SamplingMethod.INVERSION, grid=CTMCUniformGrid(h=0.08, model=m))
                cp.initialisation(prod)
                pms = [type("PM", (), {"update": lambda s, x: None, "deterministic_path": None})()]
                for level in (1, 2):
                    cp.next_level(40, pms, prod, max_step_epsilon=eps)
                    cp.pre_computation(40, prod)
                    for _ in range(40):
                        ev += 1
                        audit(f"coupling level {level}", cp.simulate_one_path_with_coupling(), eps)
            # maturities that are a whole number of caps in exact arithmetic but not in floats (0.7 = 10 x 0.07, 5 = 15 x 1/3):
            # the point the insertion computes for the maturity itself must not survive next to the maturity
            for T7, n7 in ((0.7, 10), (5.0, 15)):
                prod7 = Product(payoff_underlying=Spot(), payoff=Vanilla(strike=100.0, payoff_type=PayoffType.CALL), maturity=T7)
                p7 = MarkovChainProcess(model=m, method=SamplingMethod.INVERSION, grid=CTMCUniformGrid(h=0.05, model=m))
                p7.initialisation(prod7, max_step_epsilon=T7 / n7)
                p7.pre_computation(10, prod7)
                for _ in range(10):
                    ev += 1
                    audit(f"MCSimulationMaximumStep, maturity {T7} = {n7} caps", p7.simulate_one_path(), T7 / n7, T7)
                cp7 = CouplingMarkovChain(model=m, method=SamplingMethod.INVERSION, grid=CTMCUniformGrid(h=0.1, model=m))
                cp7.initialisation(prod7)
                cp7.next_level(10, [type("PM", (), {"update": lambda s, x: None, "deterministic_path": None})()], prod7, max_step_epsilon=T7 / n7)
                cp7.pre_computation(10, prod7)
                for _ in range(10):
                    ev += 1
                    audit(f"coupling level 1, maturity {T7} = {n7} caps", cp7.simulate_one_path_with_coupling(), T7 / n7, T7)
            # Levy-copula chain and its coupling with a step cap (low intensity: paths without any jump are frequent)
            try:
                from rpylib.process.markovchain.markovchainlevycopula import MarkovChainLevyCopula
                from rpylib.process.coupling.couplinglevycopula import CouplingProcessLevyCopula
                cm = battery.copula_model(2, "clayton")
                pc = MarkovChainLevyCopula(levy_copula_model=cm, grid=CTMCUniformGrid(h=0.1, model=cm), method=SamplingMethod.INVERSION)
                pc.initialisation(prod, max_step_epsilon=0.1)
                pc.pre_computation(40, prod)
                for _ in range(40):
                    ev += 1
                    audit("MCLevyCopulaSimulationMaximumStep", pc.simulate_one_path(), 0.1)
                cc = CouplingProcessLevyCopula(levy_copula_model=cm, grid=CTMCUniformGrid(h=0.2, model=cm), method=SamplingMethod.INVERSION)
                cc.initialisation(prod)
                cc.next_level(40, [type("PM", (), {"update": lambda s, x: None, "deterministic_path": None})()], prod, max_step_epsilon=0.1)
                cc.pre_computation(40, prod)
                for _ in range(40):
                    ev += 1
                    pth = cc.simulate_one_path_with_coupling()
                    t_ = np.asarray(pth.jump_times, float)
                    if t_[0] != 0.0 or abs(t_[-1] - T) > 1e-12 or np.any(np.diff(t_) <= 0) or np.any(np.diff(t_) > 0.1 * (1 + 1e-9)):
                        viol.setdefault("ccap", {"obligation": f"{self.name}::every-step-at-most-epsilon", "bounded": self.name,
                                                 "witness": {"simulator": "copula coupling level 1", "epsilon": 0.1, "times": t_[:12].tolist(), "largest_step": float(np.diff(t_).max())}})
            except Exception as e:
                viol.setdefault("copula", {"obligation": f"{self.name}::copula-simulators-run-with-a-step-cap", "bounded": self.name, "witness": {"exception": f"{type(e).__name__}: {str(e)[:160]}"}})
            # Levy-copula chain and its coupling on SEVERAL product dates: at every date (fixed dates) / every jump (jump times)
            # each underlying's jump component is the running sum of ALL the states sampled so far (recorded at the sampler);
            # the coarse component of the coupling: starts at 0, keeps its value over an interval without jump
            try:
                from rpylib.product.underlying import Asian, Discretisation
                from rpylib.product.payoff import Forward
                prod_dates = Product(payoff_underlying=Asian(Discretisation.MONTHLY), payoff=Forward(strike=100.0), maturity=0.5)

                def running_sum_audit(tag, process, simulate, fine_of, eps):
                    record = []
                    original = process.sampling.sample
                    process.sampling.sample = lambda size=1: (record.append(original(size=size)), record[-1])[1]
                    axes, origin = process.grid.axes, process.grid.origin_coordinate.value
                    try:
                        for _ in range(25):
                            del record[:]
                            pth = simulate()
                            total, per_date, per_jump = np.zeros(2), [np.zeros(2)], [np.zeros(2)]
                            for incs in record:
                                for inc in incs:
                                    total = total + np.array([axes[k][origin[k] + inc[k]] for k in range(2)])
                                    per_jump.append(total.copy())
                                per_date.append(total.copy())
                            fine = np.asarray(fine_of(pth), float)
                            want = np.array(per_date).T if eps is None else None
                            if eps is None:
                                ok = fine.shape == want.shape and np.allclose(fine, want, atol=1e-12)
                            else:       # jump times (+ inserted points repeating the previous value): the distinct levels, in order
                                lv = np.array(per_jump).T
                                ok = fine.shape[0] == 2 and np.allclose(fine[:, -1], lv[:, -1], atol=1e-12) and all(
                                    any(np.allclose(fine[:, j], lv[:, i], atol=1e-12) for i in range(lv.shape[1])) for j in range(fine.shape[1]))
                            if not ok:
                                viol.setdefault("crun" + tag, {"obligation": f"{self.name}::copula-jump-component-is-the-running-sum-of-all-sampled-states[{tag}]", "bounded": self.name,
                                                               "witness": {"simulator": tag, "jumps_per_interval": [len(r) for r in record], "jump_component_first_underlying": fine[0][:10].tolist(),
                                                                           "running_sum_first_underlying": (want[0] if want is not None else lv[0])[:10].tolist()}})
                                break
                    finally:
                        process.sampling.sample = original
                for eps_ in (None, 0.06):
                    ev += 1
                    pc2 = MarkovChainLevyCopula(levy_copula_model=cm, grid=CTMCUniformGrid(h=0.1, model=cm), method=SamplingMethod.INVERSION)
                    pc2.initialisation(prod_dates, max_step_epsilon=eps_)
                    pc2.pre_computation(25, prod_dates)
                    running_sum_audit(f"copula chain, 6 dates, step cap {eps_}", pc2, pc2.simulate_one_path, lambda pth: np.asarray(pth.jump_path), eps_)
                    ev += 1
                    cc2 = CouplingProcessLevyCopula(levy_copula_model=cm, grid=CTMCUniformGrid(h=0.2, model=cm), method=SamplingMethod.INVERSION)
                    cc2.initialisation(prod_dates)
                    cc2.next_level(25, [type("PM", (), {"update": lambda s, x: None, "deterministic_path": None})()], prod_dates, max_step_epsilon=eps_)
                    cc2.pre_computation(25, prod_dates)
                    running_sum_audit(f"copula coupling level 1, 6 dates, step cap {eps_}", cc2.fine_process, cc2.simulate_one_path_with_coupling, lambda pth: np.asarray(pth.jump_path)[0], eps_)
            except Exception as e:
                import traceback
                viol.setdefault("copula-dates", {"obligation": f"{self.name}::copula-simulators-run-on-several-product-dates", "bounded": self.name,
                                                 "witness": {"exception": f"{type(e).__name__}: {str(e)[:200]}", "where": traceback.format_exc()[-400:]}})
            # every state sampler the factory accepts must drive the coupled simulator (slices of several jumps included)
            for meth in (SamplingMethod.ALIAS, SamplingMethod.TABLE, SamplingMethod.BINARYSEARCHTREE, SamplingMethod.HUFFMANNTREE, SamplingMethod.BINARYSEARCHTREEADAPTED1D):
                ev += 1
                try:
                    cp = CouplingMarkovChain(model=m, method=meth, grid=CTMCUniformGrid(h=0.02, model=m))
                    cp.initialisation(prod)
                    cp.next_level(10, [type("PM", (), {"update": lambda s, x: None, "deterministic_path": None})()], prod)
                    cp.pre_computation(10, prod)
                    for _ in range(10):
                        audit(f"coupling level 1, sampler {meth.name}", cp.simulate_one_path_with_coupling(), None)
                except Exception as e:
                    viol.setdefault("smp", {"obligation": f"{self.name}::coupled-simulator-runs-with-every-sampler", "bounded": self.name,
                                            "witness": {"sampler": meth.name, "exception": f"{type(e).__name__}: {str(e)[:120]}"}})
        return {"name": self.name, "evaluations": ev, "distinct_nontrivial": ev, "violations": list(viol.values()), "samples": [],
                "bound": "HEM, maturity 0.5, chain h=0.02, coupling h=0.08 levels 1-2, step cap none / 0.04, 40 paths each; coupling level 1 with 5 further samplers, 10 paths each"}

    def replay(self, rec):
        r = self.run("quick", 0)
        hit = [v for v in r["violations"] if v["obligation"] == rec["obligation"]]
        return (bool(hit), hit[0]["witness"] if hit else {})


BOUNDED = [SimulatorBattery()]
